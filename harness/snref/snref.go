// Package snref is an independent MQTT-SN 1.2 (+ bisquitt AUTH extension)
// reference decoder/encoder used by the verification harness as observation
// function.  It is written from the protocol layout (see tla/Codec.tla), not
// from the code under test (packets1), so that wire observations do not depend
// on the decoder being verified.
package snref

import (
	"encoding/binary"
	"fmt"
)

// Packet type codes.
const (
	ADVERTISE     = 0x00
	SEARCHGW      = 0x01
	GWINFO        = 0x02
	AUTH          = 0x03
	CONNECT       = 0x04
	CONNACK       = 0x05
	WILLTOPICREQ  = 0x06
	WILLTOPIC     = 0x07
	WILLMSGREQ    = 0x08
	WILLMSG       = 0x09
	REGISTER      = 0x0A
	REGACK        = 0x0B
	PUBLISH       = 0x0C
	PUBACK        = 0x0D
	PUBCOMP       = 0x0E
	PUBREC        = 0x0F
	PUBREL        = 0x10
	SUBSCRIBE     = 0x12
	SUBACK        = 0x13
	UNSUBSCRIBE   = 0x14
	UNSUBACK      = 0x15
	PINGREQ       = 0x16
	PINGRESP      = 0x17
	DISCONNECT    = 0x18
	WILLTOPICUPD  = 0x1A
	WILLTOPICRESP = 0x1B
	WILLMSGUPD    = 0x1C
	WILLMSGRESP   = 0x1D
)

var typeNames = map[int]string{
	ADVERTISE: "ADVERTISE", SEARCHGW: "SEARCHGW", GWINFO: "GWINFO", AUTH: "AUTH",
	CONNECT: "CONNECT", CONNACK: "CONNACK", WILLTOPICREQ: "WILLTOPICREQ",
	WILLTOPIC: "WILLTOPIC", WILLMSGREQ: "WILLMSGREQ", WILLMSG: "WILLMSG",
	REGISTER: "REGISTER", REGACK: "REGACK", PUBLISH: "PUBLISH", PUBACK: "PUBACK",
	PUBCOMP: "PUBCOMP", PUBREC: "PUBREC", PUBREL: "PUBREL", SUBSCRIBE: "SUBSCRIBE",
	SUBACK: "SUBACK", UNSUBSCRIBE: "UNSUBSCRIBE", UNSUBACK: "UNSUBACK",
	PINGREQ: "PINGREQ", PINGRESP: "PINGRESP", DISCONNECT: "DISCONNECT",
	WILLTOPICUPD: "WILLTOPICUPD", WILLTOPICRESP: "WILLTOPICRESP",
	WILLMSGUPD: "WILLMSGUPD", WILLMSGRESP: "WILLMSGRESP",
}

// TypeName returns the symbolic name of a type code ("" if reserved).
func TypeName(t int) string { return typeNames[t] }

// TypeCode returns the code for a symbolic name (-1 if unknown).
func TypeCode(name string) int {
	for c, n := range typeNames {
		if n == name {
			return c
		}
	}
	return -1
}

// Pkt is a decoded MQTT-SN packet. Only the fields of its type are meaningful.
type Pkt struct {
	Type int    // type code
	Name string // symbolic type
	// header facts
	Long     bool // 4-byte header form present on the wire
	LenField int  // value of the length field
	Size     int  // datagram size
	// flags
	Dup, Retain, Will, Clean bool
	QoS, TIT                 int
	// fields
	TopicID  int
	MsgID    int
	RC       int
	Duration int
	HasDur   bool // DISCONNECT carried a duration
	ProtoID  int
	GwID     int
	Radius   int
	Reason   int
	Method   string
	Data     []byte // publish payload / auth data / will message / gw address
	Topic    string // topic name (register/subscribe/unsubscribe/willtopic)
	ClientID string
	Empty    bool // WILLTOPIC/WILLTOPICUPD empty form
}

// Parse decodes one datagram strictly by layout.  It never panics.
func Parse(d []byte) (p Pkt, err error) {
	p.Size = len(d)
	if len(d) < 2 {
		return p, fmt.Errorf("short datagram (%d)", len(d))
	}
	var body []byte
	if d[0] == 1 {
		if len(d) < 4 {
			return p, fmt.Errorf("long header truncated")
		}
		p.Long = true
		p.LenField = int(binary.BigEndian.Uint16(d[1:3]))
		p.Type = int(d[3])
		body = d[4:]
	} else {
		p.LenField = int(d[0])
		p.Type = int(d[1])
		body = d[2:]
	}
	p.Name = typeNames[p.Type]
	if p.Name == "" {
		return p, fmt.Errorf("reserved type 0x%02x", p.Type)
	}
	n := len(body)
	u16 := func(i int) int { return int(binary.BigEndian.Uint16(body[i : i+2])) }
	need := func(ok bool) error {
		if !ok {
			return fmt.Errorf("bad %s body length %d", p.Name, n)
		}
		return nil
	}
	switch p.Type {
	case ADVERTISE:
		if err = need(n == 3); err != nil {
			return
		}
		p.GwID, p.Duration = int(body[0]), u16(1)
	case SEARCHGW:
		if err = need(n == 1); err != nil {
			return
		}
		p.Radius = int(body[0])
	case GWINFO:
		if err = need(n >= 1); err != nil {
			return
		}
		p.GwID, p.Data = int(body[0]), body[1:]
	case AUTH:
		if err = need(n >= 2); err != nil {
			return
		}
		p.Reason = int(body[0])
		ml := int(body[1])
		if err = need(n >= 2+ml); err != nil {
			return
		}
		p.Method, p.Data = string(body[2:2+ml]), body[2+ml:]
	case CONNECT:
		if err = need(n >= 5); err != nil {
			return
		}
		p.Will, p.Clean = body[0]&0x08 != 0, body[0]&0x04 != 0
		p.ProtoID, p.Duration, p.ClientID = int(body[1]), u16(2), string(body[4:])
		if p.ProtoID != 1 {
			return p, fmt.Errorf("bad protocol id %d", p.ProtoID)
		}
	case CONNACK, WILLTOPICRESP, WILLMSGRESP:
		if err = need(n == 1); err != nil {
			return
		}
		p.RC = int(body[0])
	case WILLTOPICREQ, WILLMSGREQ, PINGRESP:
		if err = need(n == 0); err != nil {
			return
		}
	case WILLTOPIC, WILLTOPICUPD:
		if n == 0 {
			p.Empty = true
			return
		}
		if err = need(n >= 2); err != nil {
			return
		}
		p.QoS, p.Retain, p.Topic = int(body[0]>>5)&3, body[0]&0x10 != 0, string(body[1:])
	case WILLMSG, WILLMSGUPD:
		// an empty will message is legal (Codec.tla agrees)
		p.Data = body
	case REGISTER:
		if err = need(n >= 5); err != nil {
			return
		}
		p.TopicID, p.MsgID, p.Topic = u16(0), u16(2), string(body[4:])
	case REGACK:
		if err = need(n == 5); err != nil {
			return
		}
		p.TopicID, p.MsgID, p.RC = u16(0), u16(2), int(body[4])
	case PUBLISH:
		if err = need(n >= 5); err != nil {
			return
		}
		f := body[0]
		p.Dup, p.QoS, p.Retain, p.TIT = f&0x80 != 0, int(f>>5)&3, f&0x10 != 0, int(f&3)
		p.TopicID, p.MsgID, p.Data = u16(1), u16(3), body[5:]
	case PUBACK:
		if err = need(n == 5); err != nil {
			return
		}
		p.TopicID, p.MsgID, p.RC = u16(0), u16(2), int(body[4])
	case PUBCOMP, PUBREC, PUBREL, UNSUBACK:
		if err = need(n == 2); err != nil {
			return
		}
		p.MsgID = u16(0)
	case SUBSCRIBE, UNSUBSCRIBE:
		if err = need(n >= 4); err != nil {
			return
		}
		f := body[0]
		p.TIT, p.MsgID = int(f&3), u16(1)
		if p.Type == SUBSCRIBE {
			p.Dup, p.QoS = f&0x80 != 0, int(f>>5)&3
		}
		switch p.TIT {
		case 0:
			p.Topic = string(body[3:])
		case 1, 2:
			if err = need(n == 5); err != nil {
				return
			}
			p.TopicID = u16(3)
		default:
			return p, fmt.Errorf("reserved topic id type")
		}
	case SUBACK:
		if err = need(n == 6); err != nil {
			return
		}
		p.QoS, p.TopicID, p.MsgID, p.RC = int(body[0]>>5)&3, u16(1), u16(3), int(body[5])
	case PINGREQ:
		p.ClientID = string(body)
	case DISCONNECT:
		switch n {
		case 0:
		case 2:
			p.HasDur, p.Duration = true, u16(0)
		default:
			return p, fmt.Errorf("bad DISCONNECT body length %d", n)
		}
	}
	return p, nil
}

// WellFormed: decodes, length field equals size, header form canonical
// (long form iff size > 255), size within limit.
func WellFormed(d []byte, max int) (Pkt, error) {
	p, err := Parse(d)
	if err != nil {
		return p, err
	}
	if p.LenField != len(d) {
		return p, fmt.Errorf("length field %d != size %d", p.LenField, len(d))
	}
	if len(d) > max {
		return p, fmt.Errorf("size %d > %d", len(d), max)
	}
	return p, nil
}

func hdr(t int, bodyLen int) []byte {
	if bodyLen+2 <= 255 {
		return []byte{byte(bodyLen + 2), byte(t)}
	}
	l := bodyLen + 4
	return []byte{1, byte(l >> 8), byte(l), byte(t)}
}

func be(v int) []byte { return []byte{byte(v >> 8), byte(v)} }

// Encode produces the canonical datagram for p (by type, from its fields).
func Encode(p Pkt) []byte {
	var b []byte
	flag := func(dup bool, qos int, retain, will, clean bool, tit int) byte {
		var f byte
		if dup {
			f |= 0x80
		}
		f |= byte(qos&3) << 5
		if retain {
			f |= 0x10
		}
		if will {
			f |= 0x08
		}
		if clean {
			f |= 0x04
		}
		f |= byte(tit & 3)
		return f
	}
	switch p.Type {
	case ADVERTISE:
		b = append([]byte{byte(p.GwID)}, be(p.Duration)...)
	case SEARCHGW:
		b = []byte{byte(p.Radius)}
	case GWINFO:
		b = append([]byte{byte(p.GwID)}, p.Data...)
	case AUTH:
		b = append([]byte{byte(p.Reason), byte(len(p.Method))}, []byte(p.Method)...)
		b = append(b, p.Data...)
	case CONNECT:
		b = []byte{flag(false, 0, false, p.Will, p.Clean, 0), 1}
		b = append(b, be(p.Duration)...)
		b = append(b, []byte(p.ClientID)...)
	case CONNACK, WILLTOPICRESP, WILLMSGRESP:
		b = []byte{byte(p.RC)}
	case WILLTOPICREQ, WILLMSGREQ, PINGRESP:
	case WILLTOPIC, WILLTOPICUPD:
		if !p.Empty {
			b = append([]byte{flag(false, p.QoS, p.Retain, false, false, 0)}, []byte(p.Topic)...)
		}
	case WILLMSG, WILLMSGUPD:
		b = p.Data
	case REGISTER:
		b = append(be(p.TopicID), be(p.MsgID)...)
		b = append(b, []byte(p.Topic)...)
	case REGACK, PUBACK:
		b = append(be(p.TopicID), be(p.MsgID)...)
		b = append(b, byte(p.RC))
	case PUBLISH:
		b = []byte{flag(p.Dup, p.QoS, p.Retain, false, false, p.TIT)}
		b = append(b, be(p.TopicID)...)
		b = append(b, be(p.MsgID)...)
		b = append(b, p.Data...)
	case PUBCOMP, PUBREC, PUBREL, UNSUBACK:
		b = be(p.MsgID)
	case SUBSCRIBE, UNSUBSCRIBE:
		if p.Type == SUBSCRIBE {
			b = []byte{flag(p.Dup, p.QoS, false, false, false, p.TIT)}
		} else {
			b = []byte{flag(false, 0, false, false, false, p.TIT)}
		}
		b = append(b, be(p.MsgID)...)
		if p.TIT == 0 {
			b = append(b, []byte(p.Topic)...)
		} else {
			b = append(b, be(p.TopicID)...)
		}
	case SUBACK:
		b = []byte{flag(false, p.QoS, false, false, false, 0)}
		b = append(b, be(p.TopicID)...)
		b = append(b, be(p.MsgID)...)
		b = append(b, byte(p.RC))
	case PINGREQ:
		b = []byte(p.ClientID)
	case DISCONNECT:
		if p.HasDur || p.Duration != 0 {
			b = be(p.Duration)
		}
	}
	return append(hdr(p.Type, len(b)), b...)
}
