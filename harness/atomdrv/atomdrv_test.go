// Package atomdrv exercises the real util.IDSequence,
// transactions.TransactionStore and util.ClientState (property C29) and
// records what they returned for TLC.
//
// TestSeq (one goroutine; judged by tla/Trace_IdSeq.tla, tla/Trace_TxStore.tla)
//
//	VERIF_SEQ_IDSEQ   JSON [[min,max],...]: for each range 2*size+2 calls of Next
//	VERIF_TRACE_IDSEQ output NDJSON, one line per range {min,max,ids,ovfs}
//	VERIF_SEQ_TX      NDJSON file, one operation sequence [{op,k,v},...] per line
//	VERIF_RANDOM      number of additional random sequences (VERIF_SEED), 40 ops each
//	VERIF_TRACE_TX    output NDJSON {t,op,k,v,found,rv,seq}
//
// TestDrive (real goroutines; judged by tla/Lin_*.tla)
//
//	VERIF_SCHED   NDJSON programs {pid,obj,min,max,procs:[[{op,k}..]..]} (from tla/AtomProgs.tla)
//	VERIF_REPS    executions per program
//	VERIF_TRACE   output NDJSON: the distinct histories {hid,prog,obj,min,max,cnt,ops:[...]}
//	VERIF_PROGRESS  pid of the program being executed (crash attribution)
//	VERIF_NOSTAMP   "1": take no stamps and record no histories.  Used with the -race
//	              build: the stamp counter is an atomic, and atomics order the goroutines
//	              for the race detector whenever the operations do not really overlap;
//	              without it every unsynchronised access pair of two goroutines is reported
//	              independently of timing.
//
// Every operation takes a stamp from one atomic counter immediately before
// the call and immediately after the return, so "a.rs < b.cs" implies that a
// really returned before b was called.
package atomdrv

import (
	"bufio"
	"encoding/json"
	"fmt"
	"math/rand"
	"os"
	"runtime"
	"sort"
	"strconv"
	"strings"
	"sync"
	"sync/atomic"
	"testing"
	"time"

	pkts "github.com/energomonitor/bisquitt/packets"
	"github.com/energomonitor/bisquitt/transactions"
	"github.com/energomonitor/bisquitt/util"
)

type Op struct {
	Op string `json:"op"`
	K  int    `json:"k"`
	V  int    `json:"v"`
}

// tx is a transaction that only carries its identity.
type tx struct{ tag int }

func (*tx) Fail(error)            {}
func (*tx) Success()              {}
func (*tx) Done() <-chan struct{} { return nil }
func (*tx) Err() error            { return nil }

func tagOf(t transactions.Transaction, ok bool) (bool, int) {
	if !ok {
		return false, 0
	}
	if x, isTx := t.(*tx); isTx && x != nil {
		return true, x.tag
	}
	return true, -1 // found something that was never stored
}

type object interface {
	do(op Op) (found bool, rv int)
}

type idseqObj struct{ s *util.IDSequence }

func (o idseqObj) do(Op) (bool, int) {
	id, ovf := o.s.Next()
	return ovf, int(id)
}

type storeObj struct {
	s *transactions.TransactionStore
}

func (o storeObj) do(op Op) (bool, int) {
	switch op.Op {
	case "Store":
		o.s.Store(uint16(op.K), &tx{op.V})
	case "Get":
		return tagOf(o.s.Get(uint16(op.K)))
	case "Delete":
		o.s.Delete(uint16(op.K))
	case "StoreByType":
		o.s.StoreByType(pkts.PacketType(op.K), &tx{op.V})
	case "GetByType":
		return tagOf(o.s.GetByType(pkts.PacketType(op.K)))
	case "DeleteByType":
		o.s.DeleteByType(pkts.PacketType(op.K))
	default:
		panic("HARNESS: unknown store operation " + op.Op)
	}
	return false, 0
}

type cstateObj struct{ s *util.ClientState }

func (o cstateObj) do(op Op) (bool, int) {
	switch op.Op {
	case "Set":
		return true, int(o.s.Set(util.ClientState(op.V)))
	case "Get":
		return true, int(o.s.Get())
	default:
		panic("HARNESS: unknown state operation " + op.Op)
	}
}

func newObject(obj string, min, max int) object {
	switch obj {
	case "idseq":
		return idseqObj{util.NewIDSequence(uint16(min), uint16(max))}
	case "txstore":
		return storeObj{transactions.NewTransactionStore()}
	case "cstate":
		return cstateObj{new(util.ClientState)}
	}
	panic("HARNESS: unknown object " + obj)
}

// ---------------------------------------------------------------- sequential

type idRun struct {
	Min  int    `json:"min"`
	Max  int    `json:"max"`
	IDs  []int  `json:"ids"`
	Ovfs []bool `json:"ovfs"`
}

type txLine struct {
	T     string `json:"t"`
	Op    string `json:"op"`
	K     int    `json:"k"`
	V     int    `json:"v"`
	Found bool   `json:"found"`
	RV    int    `json:"rv"`
	Seq   int    `json:"seq"`
}

func TestSeq(t *testing.T) {
	if p := os.Getenv("VERIF_TRACE_IDSEQ"); p != "" {
		var ranges [][2]int
		if err := json.Unmarshal([]byte(os.Getenv("VERIF_SEQ_IDSEQ")), &ranges); err != nil {
			t.Fatalf("HARNESS: VERIF_SEQ_IDSEQ: %v", err)
		}
		f, err := os.Create(p)
		if err != nil {
			t.Fatal(err)
		}
		w := bufio.NewWriter(f)
		for _, r := range ranges {
			s := util.NewIDSequence(uint16(r[0]), uint16(r[1]))
			n := 2*(r[1]-r[0]+1) + 2
			run := idRun{Min: r[0], Max: r[1], IDs: make([]int, 0, n), Ovfs: make([]bool, 0, n)}
			for k := 0; k < n; k++ {
				id, ovf := s.Next()
				run.IDs = append(run.IDs, int(id))
				run.Ovfs = append(run.Ovfs, ovf)
			}
			b, _ := json.Marshal(run)
			w.Write(b)
			w.WriteByte('\n')
		}
		w.Flush()
		f.Close()
		fmt.Printf("IDSEQ-RUNS %d\n", len(ranges))
	}

	if p := os.Getenv("VERIF_TRACE_TX"); p != "" {
		f, err := os.Create(p)
		if err != nil {
			t.Fatal(err)
		}
		w := bufio.NewWriterSize(f, 1<<20)
		nseq, nops := 0, 0
		runSeq := func(ops []Op) {
			nseq++
			b, _ := json.Marshal(txLine{T: "reset", Seq: nseq})
			w.Write(b)
			w.WriteByte('\n')
			o := newObject("txstore", 0, 0)
			for _, op := range ops {
				found, rv := o.do(op)
				b, _ := json.Marshal(txLine{T: "op", Op: op.Op, K: op.K, V: op.V, Found: found, RV: rv, Seq: nseq})
				w.Write(b)
				w.WriteByte('\n')
				nops++
			}
		}
		if sp := os.Getenv("VERIF_SEQ_TX"); sp != "" {
			sf, err := os.Open(sp)
			if err != nil {
				t.Fatal(err)
			}
			sc := bufio.NewScanner(sf)
			sc.Buffer(make([]byte, 1<<20), 1<<24)
			for sc.Scan() {
				var ops []Op
				if err := json.Unmarshal(sc.Bytes(), &ops); err != nil {
					t.Fatalf("HARNESS: VERIF_SEQ_TX: %v", err)
				}
				runSeq(ops)
			}
			sf.Close()
		}
		if s := os.Getenv("VERIF_RANDOM"); s != "" {
			n, _ := strconv.Atoi(s)
			seed, _ := strconv.ParseInt(os.Getenv("VERIF_SEED"), 10, 64)
			rng := rand.New(rand.NewSource(seed))
			names := []string{"Store", "Get", "Delete", "StoreByType", "GetByType", "DeleteByType"}
			idKeys := []int{0, 1, 2, 255, 256, 65535}
			typeKeys := []int{0, 1, 2, 255}
			for i := 0; i < n; i++ {
				ops := make([]Op, 40)
				for j := range ops {
					op := Op{Op: names[rng.Intn(len(names))]}
					if strings.HasSuffix(op.Op, "ByType") {
						op.K = typeKeys[rng.Intn(len(typeKeys))]
					} else {
						op.K = idKeys[rng.Intn(len(idKeys))]
					}
					if strings.HasPrefix(op.Op, "Store") {
						op.V = j + 1
					}
					ops[j] = op
				}
				runSeq(ops)
			}
		}
		w.Flush()
		f.Close()
		fmt.Printf("TX-SEQS %d OPS %d\n", nseq, nops)
	}
}

// ---------------------------------------------------------------- concurrent

type Prog struct {
	Pid   int    `json:"pid"`
	Obj   string `json:"obj"`
	Min   int    `json:"min"`
	Max   int    `json:"max"`
	Procs [][]Op `json:"procs"`
	Reps  int    `json:"reps"` // overrides VERIF_REPS when > 0 (scaled by VERIF_REPS_SCALE percent)
}

type HOp struct {
	ID    int    `json:"id"`
	P     int    `json:"p"`
	Op    string `json:"op"`
	K     int    `json:"k"`
	V     int    `json:"v"`
	Found bool   `json:"found"`
	RV    int    `json:"rv"`
	CS    int64  `json:"cs"`
	RS    int64  `json:"rs"`
}

type Hist struct {
	Hid  int    `json:"hid"`
	Prog int    `json:"prog"`
	Obj  string `json:"obj"`
	Min  int    `json:"min"`
	Max  int    `json:"max"`
	Cnt  int    `json:"cnt"`
	Ops  []HOp  `json:"ops"`
}

// runOnce executes the program once on a fresh object; mode selects how the
// goroutines are released (0: yielding spin barrier, 1: no barrier, 2: barrier +
// yields between operations, 3: rendezvous of the goroutines - tightest simultaneous start).
func runOnce(p *Prog, mode int, rng *rand.Rand, stamps bool) ([]HOp, bool) {
	obj := newObject(p.Obj, p.Min, p.Max)
	var clock atomic.Int64
	var gate, arrived atomic.Int32
	var ready sync.WaitGroup
	var wg sync.WaitGroup
	res := make([][]HOp, len(p.Procs))
	id := 0
	for g, ops := range p.Procs {
		res[g] = make([]HOp, len(ops))
		for j, op := range ops {
			id++
			h := HOp{ID: id, P: g, Op: op.Op, K: op.K}
			if strings.HasPrefix(op.Op, "Store") || op.Op == "Set" {
				h.V = id
			}
			res[g][j] = h
		}
	}
	yields := make([][]bool, len(p.Procs))
	for g := range yields {
		yields[g] = make([]bool, len(p.Procs[g]))
		for j := range yields[g] {
			yields[g][j] = mode == 2 && rng.Intn(2) == 0
		}
	}
	for g := range p.Procs {
		wg.Add(1)
		ready.Add(1)
		go func(g int) {
			defer wg.Done()
			ready.Done()
			if mode == 3 {
				// rendezvous of the goroutines themselves: all of them are on a CPU
				// when the last one arrives.  Bounded busy spin (an oversubscribed
				// machine must not burn whole time slices here), then yield.
				for gate.Load() == 0 {
					runtime.Gosched()
				}
				arrived.Add(1)
				for n := 0; int(arrived.Load()) < len(p.Procs); n++ {
					if n > 20000 {
						runtime.Gosched()
					}
				}
			} else if mode != 1 {
				for gate.Load() == 0 {
					runtime.Gosched()
				}
			}
			mine := res[g]
			for j := range mine {
				if yields[g][j] {
					runtime.Gosched()
				}
				op := Op{Op: mine[j].Op, K: mine[j].K, V: mine[j].V}
				if !stamps {
					mine[j].Found, mine[j].RV = obj.do(op)
					continue
				}
				mine[j].CS = clock.Add(1)
				found, rv := obj.do(op)
				mine[j].RS = clock.Add(1)
				mine[j].Found, mine[j].RV = found, rv
			}
		}(g)
	}
	ready.Wait()
	gate.Store(1)
	done := make(chan struct{})
	go func() { wg.Wait(); close(done) }()
	select {
	case <-done:
	case <-time.After(60 * time.Second):
		return nil, false
	}
	var all []HOp
	for _, r := range res {
		all = append(all, r...)
	}
	return all, true
}

func key(ops []HOp) string {
	var sb strings.Builder
	for _, o := range ops {
		fmt.Fprintf(&sb, "%d.%d.%t.%d;", o.CS, o.RS, o.Found, o.RV)
	}
	return sb.String()
}

func TestDrive(t *testing.T) {
	out := os.Getenv("VERIF_TRACE")
	if out == "" {
		t.Skip("VERIF_TRACE not set")
	}
	reps, err := strconv.Atoi(os.Getenv("VERIF_REPS"))
	if err != nil || reps < 1 {
		t.Fatalf("HARNESS: bad VERIF_REPS")
	}
	seed, _ := strconv.ParseInt(os.Getenv("VERIF_SEED"), 10, 64)
	stamps := os.Getenv("VERIF_NOSTAMP") != "1"
	prog := os.Getenv("VERIF_PROGRESS")
	sf, err := os.Open(os.Getenv("VERIF_SCHED"))
	if err != nil {
		t.Fatal(err)
	}
	defer sf.Close()
	f, err := os.Create(out)
	if err != nil {
		t.Fatal(err)
	}
	defer f.Close()
	w := bufio.NewWriterSize(f, 1<<20)
	defer w.Flush()
	sc := bufio.NewScanner(sf)
	sc.Buffer(make([]byte, 1<<20), 1<<24)
	hid, runs, nprogs := 0, 0, 0
	for sc.Scan() {
		var p Prog
		if err := json.Unmarshal(sc.Bytes(), &p); err != nil {
			t.Fatalf("HARNESS: VERIF_SCHED: %v", err)
		}
		nprogs++
		if prog != "" {
			os.WriteFile(prog, []byte(strconv.Itoa(p.Pid)), 0o644)
		}
		rng := rand.New(rand.NewSource(seed*1000003 + int64(p.Pid)))
		seen := map[string]*Hist{}
		var order []string
		n := reps
		if p.Reps > 0 {
			n = p.Reps
			if sc, err := strconv.Atoi(os.Getenv("VERIF_REPS_SCALE")); err == nil && sc > 0 {
				n = (n*sc + 99) / 100
			}
		}
		for r := 0; r < n; r++ {
			ops, ok := runOnce(&p, r%4, rng, stamps)
			runs++
			if !ok {
				w.Flush()
				fmt.Printf("HANG pid=%d\n", p.Pid)
				os.Exit(3)
			}
			if !stamps {
				continue
			}
			k := key(ops)
			if h, dup := seen[k]; dup {
				h.Cnt++
				continue
			}
			seen[k] = &Hist{Prog: p.Pid, Obj: p.Obj, Min: p.Min, Max: p.Max, Cnt: 1, Ops: ops}
			order = append(order, k)
		}
		sort.Strings(order)
		for _, k := range order {
			hid++
			h := seen[k]
			h.Hid = hid
			b, _ := json.Marshal(h)
			w.Write(b)
			w.WriteByte('\n')
		}
	}
	fmt.Printf("PROGRAMS %d RUNS %d HISTORIES %d\n", nprogs, runs, hid)
}
