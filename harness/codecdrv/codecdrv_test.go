// Package codecdrv binds tla/Codec.tla to the real bisquitt codec (packets,
// packets1) in both directions:
//
//	spec -> code: TLC-generated vectors (datagram + expected Parse result,
//	              packet + expected Encode bytes) are executed on the real
//	              decoder / encoder and compared         (modes dgvec, pkvec)
//	code -> spec: the real decoder / encoder is executed on Go-generated
//	              inputs and (input, real outcome) records are written for
//	              tla/Trace_Codec.tla, which judges them with Parse/Encode
//	              (modes dgshort, dgrand, dglist, pkrand, pklist, short)
//
// A panic of the code under test is caught per input (the codec consists of
// pure functions) and recorded as outcome 1.
//
// Environment:
//
//	VERIF_MODE      dgvec | pkvec | dgshort | dgrand | dglist | pkrand | pklist | short
//	VERIF_IN        input file (vectors NDJSON / class list JSON / datagram list NDJSON)
//	VERIF_OUT       output NDJSON
//	VERIF_PROGRESS  id of the input being executed (crash attribution)
//	VERIF_N         number of random cases (dgrand, pkrand); rapid seed via -rapid.seed
package codecdrv

import (
	"bufio"
	"bytes"
	"encoding/json"
	"fmt"
	"os"
	"reflect"
	"strconv"
	"testing"

	pkts "github.com/energomonitor/bisquitt/packets"
	pkts1 "github.com/energomonitor/bisquitt/packets1"
	"pgregory.net/rapid"

	"verif/harness/snref"
)

// Pkt is the uniform packet record of Codec.tla (field names = spec names).
type Pkt struct {
	Type     int   `json:"type"`
	Dup      bool  `json:"dup"`
	Qos      int   `json:"qos"`
	Retain   bool  `json:"retain"`
	Will     bool  `json:"will"`
	Clean    bool  `json:"clean"`
	Tit      int   `json:"tit"`
	Topicid  int   `json:"topicid"`
	Msgid    int   `json:"msgid"`
	Rc       int   `json:"rc"`
	Duration int   `json:"duration"`
	Protoid  int   `json:"protoid"`
	Gwid     int   `json:"gwid"`
	Radius   int   `json:"radius"`
	Reason   int   `json:"reason"`
	Method   []int `json:"method"`
	Data     []int `json:"data"`
	Topic    []int `json:"topic"`
	Clientid []int `json:"clientid"`
}

func blank(t int) Pkt {
	return Pkt{Type: t, Method: []int{}, Data: []int{}, Topic: []int{}, Clientid: []int{}}
}

func (p *Pkt) norm() {
	if p.Method == nil {
		p.Method = []int{}
	}
	if p.Data == nil {
		p.Data = []int{}
	}
	if p.Topic == nil {
		p.Topic = []int{}
	}
	if p.Clientid == nil {
		p.Clientid = []int{}
	}
}

func ints(b []byte) []int {
	r := make([]int, len(b))
	for i, x := range b {
		r[i] = int(x)
	}
	return r
}

func octets(v []int) []byte {
	r := make([]byte, len(v))
	for i, x := range v {
		r[i] = byte(x)
	}
	return r
}

// mismatch returns the names of the fields in which a and b differ.
func mismatch(a, b Pkt) []string {
	var out []string
	va, vb := reflect.ValueOf(a), reflect.ValueOf(b)
	ty := va.Type()
	for i := 0; i < ty.NumField(); i++ {
		if !reflect.DeepEqual(va.Field(i).Interface(), vb.Field(i).Interface()) {
			out = append(out, ty.Field(i).Tag.Get("json"))
		}
	}
	return out
}

// fromReal dumps a decoded real packet through its exported fields/getters.
func fromReal(p pkts.Packet) Pkt {
	switch m := p.(type) {
	case *pkts1.Advertise:
		r := blank(int(pkts.ADVERTISE))
		r.Gwid, r.Duration = int(m.GatewayID), int(m.Duration)
		return r
	case *pkts1.SearchGw:
		r := blank(int(pkts.SEARCHGW))
		r.Radius = int(m.Radius)
		return r
	case *pkts1.GwInfo:
		r := blank(int(pkts.GWINFO))
		r.Gwid, r.Data = int(m.GatewayID), ints(m.GatewayAddress)
		return r
	case *pkts1.Auth:
		r := blank(int(pkts.AUTH))
		r.Reason, r.Method, r.Data = int(m.Reason), ints([]byte(m.Method)), ints(m.Data)
		return r
	case *pkts1.Connect:
		r := blank(int(pkts.CONNECT))
		r.Will, r.Clean, r.Protoid, r.Duration, r.Clientid = m.Will, m.CleanSession, int(m.ProtocolID), int(m.Duration), ints(m.ClientID)
		return r
	case *pkts1.Connack:
		r := blank(int(pkts.CONNACK))
		r.Rc = int(m.ReturnCode)
		return r
	case *pkts1.WillTopicReq:
		return blank(int(pkts.WILLTOPICREQ))
	case *pkts1.WillTopic:
		r := blank(int(pkts.WILLTOPIC))
		r.Qos, r.Retain, r.Topic = int(m.QOS), m.Retain, ints([]byte(m.WillTopic))
		return r
	case *pkts1.WillMsgReq:
		return blank(int(pkts.WILLMSGREQ))
	case *pkts1.WillMsg:
		r := blank(int(pkts.WILLMSG))
		r.Data = ints(m.WillMsg)
		return r
	case *pkts1.Register:
		r := blank(int(pkts.REGISTER))
		r.Topicid, r.Msgid, r.Topic = int(m.TopicID), int(m.MessageID()), ints([]byte(m.TopicName))
		return r
	case *pkts1.Regack:
		r := blank(int(pkts.REGACK))
		r.Topicid, r.Msgid, r.Rc = int(m.TopicID), int(m.MessageID()), int(m.ReturnCode)
		return r
	case *pkts1.Publish:
		r := blank(int(pkts.PUBLISH))
		r.Dup, r.Qos, r.Retain, r.Tit = m.DUP(), int(m.QOS), m.Retain, int(m.TopicIDType)
		r.Topicid, r.Msgid, r.Data = int(m.TopicID), int(m.MessageID()), ints(m.Data)
		return r
	case *pkts1.Puback:
		r := blank(int(pkts.PUBACK))
		r.Topicid, r.Msgid, r.Rc = int(m.TopicID), int(m.MessageID()), int(m.ReturnCode)
		return r
	case *pkts1.Pubcomp:
		r := blank(int(pkts.PUBCOMP))
		r.Msgid = int(m.MessageID())
		return r
	case *pkts1.Pubrec:
		r := blank(int(pkts.PUBREC))
		r.Msgid = int(m.MessageID())
		return r
	case *pkts1.Pubrel:
		r := blank(int(pkts.PUBREL))
		r.Msgid = int(m.MessageID())
		return r
	case *pkts1.Subscribe:
		r := blank(int(pkts.SUBSCRIBE))
		r.Dup, r.Qos, r.Tit = m.DUP(), int(m.QOS), int(m.TopicIDType)
		r.Msgid, r.Topicid, r.Topic = int(m.MessageID()), int(m.TopicID), ints([]byte(m.TopicName))
		return r
	case *pkts1.Suback:
		r := blank(int(pkts.SUBACK))
		r.Qos, r.Topicid, r.Msgid, r.Rc = int(m.QOS), int(m.TopicID), int(m.MessageID()), int(m.ReturnCode)
		return r
	case *pkts1.Unsubscribe:
		r := blank(int(pkts.UNSUBSCRIBE))
		r.Tit, r.Msgid, r.Topicid, r.Topic = int(m.TopicIDType), int(m.MessageID()), int(m.TopicID), ints([]byte(m.TopicName))
		return r
	case *pkts1.Unsuback:
		r := blank(int(pkts.UNSUBACK))
		r.Msgid = int(m.MessageID())
		return r
	case *pkts1.Pingreq:
		r := blank(int(pkts.PINGREQ))
		r.Clientid = ints(m.ClientID)
		return r
	case *pkts1.Pingresp:
		return blank(int(pkts.PINGRESP))
	case *pkts1.Disconnect:
		r := blank(int(pkts.DISCONNECT))
		r.Duration = int(m.Duration)
		return r
	case *pkts1.WillTopicUpd:
		r := blank(int(pkts.WILLTOPICUPD))
		r.Qos, r.Retain, r.Topic = int(m.QOS), m.Retain, ints([]byte(m.WillTopic))
		return r
	case *pkts1.WillTopicResp:
		r := blank(int(pkts.WILLTOPICRESP))
		r.Rc = int(m.ReturnCode)
		return r
	case *pkts1.WillMsgUpd:
		r := blank(int(pkts.WILLMSGUPD))
		r.Data = ints(m.WillMsg)
		return r
	case *pkts1.WillMsgResp:
		r := blank(int(pkts.WILLMSGRESP))
		r.Rc = int(m.ReturnCode)
		return r
	}
	return blank(-2) // a packet type the driver does not know: never equal to a spec packet
}

// toReal builds the packet with the real constructors (New* + SetMessageID).
func toReal(p Pkt) (pkts.Packet, error) {
	u16, u8 := func(v int) uint16 { return uint16(v) }, func(v int) uint8 { return uint8(v) }
	switch pkts.PacketType(p.Type) {
	case pkts.ADVERTISE:
		return pkts1.NewAdvertise(u8(p.Gwid), u16(p.Duration)), nil
	case pkts.SEARCHGW:
		return pkts1.NewSearchGw(u8(p.Radius)), nil
	case pkts.GWINFO:
		return pkts1.NewGwInfo(u8(p.Gwid), octets(p.Data)), nil
	case pkts.AUTH:
		method, data := string(octets(p.Method)), octets(p.Data)
		if method == pkts1.AUTH_PLAIN && p.Reason == 0 {
			// \0 user \0 password  -> the PLAIN constructor
			parts := bytes.Split(data, []byte{0})
			if len(parts) == 3 && len(parts[0]) == 0 {
				return pkts1.NewAuthPlain(string(parts[1]), parts[2]), nil
			}
		}
		// no general constructor exists: header from NewHeader, length set by Pack()
		return &pkts1.Auth{Header: *pkts.NewHeader(pkts.AUTH, 0), Reason: u8(p.Reason), Method: method, Data: data}, nil
	case pkts.CONNECT:
		if p.Protoid != 1 {
			return nil, fmt.Errorf("CONNECT protoid %d has no constructor", p.Protoid)
		}
		return pkts1.NewConnect(u16(p.Duration), octets(p.Clientid), p.Will, p.Clean), nil
	case pkts.CONNACK:
		return pkts1.NewConnack(pkts1.ReturnCode(p.Rc)), nil
	case pkts.WILLTOPICREQ:
		return pkts1.NewWillTopicReq(), nil
	case pkts.WILLTOPIC:
		return pkts1.NewWillTopic(string(octets(p.Topic)), u8(p.Qos), p.Retain), nil
	case pkts.WILLMSGREQ:
		return pkts1.NewWillMsgReq(), nil
	case pkts.WILLMSG:
		return pkts1.NewWillMsg(octets(p.Data)), nil
	case pkts.REGISTER:
		m := pkts1.NewRegister(u16(p.Topicid), string(octets(p.Topic)))
		m.SetMessageID(u16(p.Msgid))
		return m, nil
	case pkts.REGACK:
		m := pkts1.NewRegack(u16(p.Topicid), pkts1.ReturnCode(p.Rc))
		m.SetMessageID(u16(p.Msgid))
		return m, nil
	case pkts.PUBLISH:
		m := pkts1.NewPublish(u16(p.Topicid), octets(p.Data), p.Dup, u8(p.Qos), p.Retain, u8(p.Tit))
		m.SetMessageID(u16(p.Msgid))
		return m, nil
	case pkts.PUBACK:
		m := pkts1.NewPuback(u16(p.Topicid), pkts1.ReturnCode(p.Rc))
		m.SetMessageID(u16(p.Msgid))
		return m, nil
	case pkts.PUBCOMP:
		m := pkts1.NewPubcomp()
		m.SetMessageID(u16(p.Msgid))
		return m, nil
	case pkts.PUBREC:
		m := pkts1.NewPubrec()
		m.SetMessageID(u16(p.Msgid))
		return m, nil
	case pkts.PUBREL:
		m := pkts1.NewPubrel()
		m.SetMessageID(u16(p.Msgid))
		return m, nil
	case pkts.SUBSCRIBE:
		m := pkts1.NewSubscribe(string(octets(p.Topic)), u16(p.Topicid), p.Dup, u8(p.Qos), u8(p.Tit))
		m.SetMessageID(u16(p.Msgid))
		return m, nil
	case pkts.SUBACK:
		m := pkts1.NewSuback(u16(p.Topicid), pkts1.ReturnCode(p.Rc), u8(p.Qos))
		m.SetMessageID(u16(p.Msgid))
		return m, nil
	case pkts.UNSUBSCRIBE:
		m := pkts1.NewUnsubscribe(string(octets(p.Topic)), u16(p.Topicid), u8(p.Tit))
		m.SetMessageID(u16(p.Msgid))
		return m, nil
	case pkts.UNSUBACK:
		m := pkts1.NewUnsuback()
		m.SetMessageID(u16(p.Msgid))
		return m, nil
	case pkts.PINGREQ:
		return pkts1.NewPingreq(octets(p.Clientid)), nil
	case pkts.PINGRESP:
		return pkts1.NewPingresp(), nil
	case pkts.DISCONNECT:
		return pkts1.NewDisconnect(u16(p.Duration)), nil
	case pkts.WILLTOPICUPD:
		return pkts1.NewWillTopicUpd(string(octets(p.Topic)), u8(p.Qos), p.Retain), nil
	case pkts.WILLTOPICRESP:
		return pkts1.NewWillTopicResp(pkts1.ReturnCode(p.Rc)), nil
	case pkts.WILLMSGUPD:
		return pkts1.NewWillMsgUpd(octets(p.Data)), nil
	case pkts.WILLMSGRESP:
		return pkts1.NewWillMsgResp(pkts1.ReturnCode(p.Rc)), nil
	}
	return nil, fmt.Errorf("no constructor for type %d", p.Type)
}

// dgramReader is a "packet reader": one whole datagram per Read call.
type dgramReader struct{ d []byte }

func (r *dgramReader) Read(p []byte) (int, error) { return copy(p, r.d), nil }

const (
	oErr   = 0
	oPanic = 1
	oOK    = 2
)

// decode runs the real decoder on one datagram.  rp is the real re-encoding
// of the decoded packet (empty when not accepted or when Pack panicked).
func decode(d []byte) (o int, pkt Pkt, rp []int, note string) {
	pkt, rp = blank(-1), []int{}
	var p pkts.Packet
	func() {
		defer func() {
			if r := recover(); r != nil {
				o, note = oPanic, fmt.Sprint(r)
			}
		}()
		var err error
		p, err = pkts1.ReadPacket(&dgramReader{d})
		if err != nil {
			o, note = oErr, err.Error()
			return
		}
		o = oOK
	}()
	if o != oOK {
		return
	}
	func() {
		defer func() {
			if r := recover(); r != nil {
				note = "panic while dumping/re-encoding the decoded packet: " + fmt.Sprint(r)
				rp = []int{}
			}
		}()
		pkt = fromReal(p)
		_ = p.String() // the gateway logs every packet: String() must not panic either
		b, err := p.Pack()
		if err != nil {
			note = "re-encoding failed: " + err.Error()
			return
		}
		rp = ints(b)
	}()
	return
}

type dgRec struct {
	K    string `json:"k"`
	D    []int  `json:"d"`
	O    int    `json:"o"`
	Pkt  Pkt    `json:"pkt"`
	Rp   []int  `json:"rp"`
	Note string `json:"note"`
}

func dgRecord(d []byte) dgRec {
	o, pkt, rp, note := decode(d)
	return dgRec{K: "dg", D: ints(d), O: o, Pkt: pkt, Rp: rp, Note: note}
}

type accRec struct {
	Pkt Pkt   `json:"pkt"`
	Rp  []int `json:"rp"`
}

type clRec struct {
	K   string   `json:"k"`
	Pre []int    `json:"pre"`
	O   []int    `json:"o"`
	Acc []accRec `json:"acc"`
}

// ---------------------------------------------------------------- plumbing

type sink struct {
	f *os.File
	w *bufio.Writer
	e *json.Encoder
}

func openOut(t *testing.T) *sink {
	f, err := os.Create(os.Getenv("VERIF_OUT"))
	if err != nil {
		t.Fatal(err)
	}
	w := bufio.NewWriterSize(f, 1<<20)
	return &sink{f, w, json.NewEncoder(w)}
}

func (s *sink) put(v any) {
	if err := s.e.Encode(v); err != nil {
		panic(err)
	}
}

func (s *sink) close() {
	s.w.Flush()
	s.f.Close()
}

var progressFile *os.File

// progress records the id of the input about to be executed (crash attribution for deaths that
// recover() cannot catch).  One pwrite on an open descriptor per input: cheap.
func progress(id string) {
	if progressFile == nil {
		p := os.Getenv("VERIF_PROGRESS")
		if p == "" {
			return
		}
		f, err := os.Create(p)
		if err != nil {
			return
		}
		progressFile = f
	}
	buf := make([]byte, 96)
	for i := range buf {
		buf[i] = ' '
	}
	copy(buf, id)
	_, _ = progressFile.WriteAt(buf, 0)
}

func eachLine(t *testing.T, fn func(line []byte, n int)) {
	f, err := os.Open(os.Getenv("VERIF_IN"))
	if err != nil {
		t.Fatal(err)
	}
	defer f.Close()
	sc := bufio.NewScanner(f)
	sc.Buffer(make([]byte, 1<<20), 1<<28)
	n := 0
	for sc.Scan() {
		if len(bytes.TrimSpace(sc.Bytes())) == 0 {
			continue
		}
		n++
		fn(sc.Bytes(), n)
	}
	if err := sc.Err(); err != nil {
		t.Fatal(err)
	}
}

func envInt(name string, def int) int {
	if v, err := strconv.Atoi(os.Getenv(name)); err == nil {
		return v
	}
	return def
}

func TestDrive(t *testing.T) {
	mode := os.Getenv("VERIF_MODE")
	if mode == "" || os.Getenv("VERIF_OUT") == "" {
		t.Skip("VERIF_MODE/VERIF_OUT not set")
	}
	out := openOut(t)
	defer out.close()
	switch mode {
	case "dgvec":
		runDgVec(t, out)
	case "pkvec":
		runPkVec(t, out)
	case "dgshort":
		runDgShort(t, out)
	case "dgrand":
		runDgRand(t, out)
	case "dglist":
		eachLine(t, func(line []byte, n int) {
			var in struct {
				D []int `json:"d"`
			}
			if err := json.Unmarshal(line, &in); err != nil {
				t.Fatal(err)
			}
			progress(fmt.Sprintf("dglist:%d", n))
			out.put(dgRecord(octets(in.D)))
		})
	case "pkrand":
		runPkRand(t, out)
	case "pklist":
		eachLine(t, func(line []byte, n int) {
			var in struct {
				P Pkt `json:"p"`
			}
			if err := json.Unmarshal(line, &in); err != nil {
				t.Fatal(err)
			}
			in.P.norm()
			progress(fmt.Sprintf("pklist:%d", n))
			rec, err := pkRecord(in.P)
			if err != nil {
				t.Fatal(err)
			}
			out.put(rec)
		})
	case "short":
		runShort(t, out)
	default:
		t.Fatalf("unknown VERIF_MODE %q", mode)
	}
}

// ---------------------------------------------------------------- spec -> code

// Disagreement between a TLC vector's expectation and the real code.
type finding struct {
	K      string `json:"k"`   // same kinds as Trace_Codec.tla
	Cls    string `json:"cls"` // structural class computed by the spec
	T      int    `json:"t"`
	F      string `json:"f"`
	D      []int  `json:"d"`
	P      *Pkt   `json:"p,omitempty"`
	Detail string `json:"detail"`
}

type dgVector struct {
	D    []int  `json:"d"`
	Cls  string `json:"cls"`  // structural class (decode fidelity)
	Pcls string `json:"pcls"` // structural class (crash mechanism)
	OK   bool   `json:"ok"`
	Why  string `json:"why"`
	HL   int    `json:"hl"`
	LenF int    `json:"lenf"`
	Pkt  *Pkt   `json:"pkt"`
	CB   []int  `json:"cb"`
	// Alt: what the layout yields two octets early (WrongOffsetParse of Codec.tla); only used to
	// name the mechanism of a finding in class long-form-small-length.
	Alt struct {
		OK  bool `json:"ok"`
		Pkt Pkt  `json:"pkt"`
	} `json:"alt"`
}

func typeAt(d []int) int {
	if len(d) >= 2 && d[0] != 1 {
		return d[1]
	}
	if len(d) >= 4 && d[0] == 1 {
		return d[3]
	}
	return -1
}

// splitReal cuts a real re-encoding into (type, body) by the header form present.
func splitHdr(b []int) (t int, body []int, ok bool) {
	if len(b) >= 2 && b[0] != 1 {
		return b[1], b[2:], true
	}
	if len(b) >= 4 && b[0] == 1 {
		return b[3], b[4:], true
	}
	return -1, nil, false
}

// repackOK: the real re-encoding rp reproduces type t and body.  The length field is an allowed
// difference, but a re-encoding whose first octet is 1 is a 3-octet-length datagram for every
// receiver: it is read as a 2-octet header only when that 1 is the length value the datagram
// itself announced (lf; Pack() of the fixed-size packets keeps the received value).
// Same predicate as RepackOK of Trace_Codec.tla.
func repackOK(rp []int, t int, body []int, lf int) bool {
	if len(rp) >= 2 && (rp[0] != 1 || lf == 1) && rp[1] == t && eqInts(rp[2:], body) {
		return true
	}
	return len(rp) >= 4 && rp[0] == 1 && rp[3] == t && eqInts(rp[4:], body)
}

// lenField is the value of the length field of d in the header form present (-1: none).
func lenField(d []int) int {
	if len(d) >= 1 && d[0] != 1 {
		return d[0]
	}
	if len(d) >= 3 && d[0] == 1 {
		return d[1]<<8 | d[2]
	}
	return -1
}

func eqInts(a, b []int) bool {
	if len(a) != len(b) {
		return false
	}
	for i := range a {
		if a[i] != b[i] {
			return false
		}
	}
	return true
}

func runDgVec(t *testing.T, out *sink) {
	var n, acc, accBoth, panics, snrefDiff int
	seen := map[string]bool{}
	eachLine(t, func(line []byte, ln int) {
		var v dgVector
		if err := json.Unmarshal(line, &v); err != nil {
			t.Fatalf("vector %d: %v", ln, err)
		}
		if v.D == nil {
			v.D = []int{}
		}
		n++
		progress(fmt.Sprintf("dgvec:%d", ln))
		d := octets(v.D)
		o, pkt, rp, note := decode(d)
		ty := typeAt(v.D)
		seen[fmt.Sprintf("%d/%s/%d", ty, v.Cls, o)] = true
		add := func(k, f, detail string) {
			cls := v.Cls
			if k == "panic" {
				cls = v.Pcls
			}
			out.put(finding{K: k, Cls: cls, T: ty, F: f, D: v.D, Detail: detail})
		}
		// cross-check of the spec's expectation with the independent Go reference parser
		if _, err := snref.Parse(d); (err == nil) != v.OK {
			// WILLMSG/WILLMSGUPD with an empty message: Codec.tla accepts, snref does not (documented)
			if !(v.OK && (ty == snref.WILLMSG || ty == snref.WILLMSGUPD)) {
				snrefDiff++
				add("snref-diff", "", fmt.Sprintf("Codec.tla ok=%v, snref err=%v", v.OK, err))
			}
		}
		v.Alt.Pkt.norm()
		wrongOffset := o == oOK && v.Alt.OK && len(mismatch(v.Alt.Pkt, pkt)) == 0
		switch {
		case o == oPanic:
			panics++
			add("panic", "", note)
		case o == oOK && v.OK:
			acc++
			accBoth++
			v.Pkt.norm()
			if mm := mismatch(*v.Pkt, pkt); len(mm) > 0 {
				if wrongOffset {
					add("body-offset", "", fmt.Sprintf("spec %+v real %+v", *v.Pkt, pkt))
				} else {
					add("fields", mm[0], fmt.Sprintf("spec %+v real %+v", *v.Pkt, pkt))
				}
			} else if !repackOK(rp, ty, v.CB, lenField(v.D)) {
				add("repack", "", fmt.Sprintf("real re-encoding %v, expected body %v (%s)", rp, v.CB, note))
			}
		case o == oOK && !v.OK:
			acc++
			dt, db, dok := splitHdr(v.D)
			if dok && repackOK(rp, dt, db, lenField(v.D)) {
				add("accept-extra", v.Why, "")
			} else if wrongOffset {
				add("body-offset", "", fmt.Sprintf("real decoded %+v, re-encodes to %v", pkt, rp))
			} else {
				add("accept-nonlayout", v.Why, fmt.Sprintf("real decoded %+v, re-encodes to %v", pkt, rp))
			}
		case o == oErr && v.OK:
			add("reject-extra", "", note)
		}
	})
	out.put(map[string]any{"summary": map[string]int{"judged": n, "accepted": acc, "accepted_both": accBoth,
		"panics": panics, "distinct": len(seen), "snref_diff": snrefDiff}})
}

type pkVector struct {
	P     Pkt    `json:"p"`
	Bytes []int  `json:"bytes"`
	Cls   string `json:"cls"` // structural class of the expected encoding (spec)
}

func runPkVec(t *testing.T, out *sink) {
	var n, ok int
	seen := map[string]bool{}
	eachLine(t, func(line []byte, ln int) {
		var v pkVector
		if err := json.Unmarshal(line, &v); err != nil {
			t.Fatalf("vector %d: %v", ln, err)
		}
		v.P.norm()
		n++
		progress(fmt.Sprintf("pkvec:%d", ln))
		add := func(k, f, detail string, d []int) {
			p := v.P
			out.put(finding{K: k, Cls: v.Cls, T: v.P.Type, F: f, D: d, P: &p, Detail: detail})
		}
		rec, err := pkRecord(v.P)
		if err != nil {
			add("illegal-input", "", err.Error(), []int{})
			return
		}
		seen[fmt.Sprintf("%d/%v/%d", v.P.Type, len(v.Bytes) > 255, rec.O)] = true
		good := true
		if rec.Bytes == nil {
			add("rt-panic", "", "Pack() panicked: "+rec.Note, []int{})
			return
		}
		if !eqInts(rec.Bytes, v.Bytes) {
			good = false
			_, rb, hok := splitHdr(rec.Bytes)
			_, eb, _ := splitHdr(v.Bytes)
			k := "bytes-body"
			if hok && eqInts(rb, eb) {
				k = "bytes-header"
			}
			add(k, "", fmt.Sprintf("real Pack() = %v, Encode(p) = %v", head(rec.Bytes), head(v.Bytes)), rec.Bytes)
		}
		// decode what the spec says is the encoding (equal to the real bytes unless reported above)
		o, pkt, _, note := decode(octets(v.Bytes))
		switch o {
		case oPanic:
			good = false
			add("rt-panic", "", note, v.Bytes)
		case oErr:
			good = false
			add("rt-reject", "", note, v.Bytes)
		default:
			if mm := mismatch(v.P, pkt); len(mm) > 0 {
				good = false
				add("rt-fields", mm[0], fmt.Sprintf("decoded %+v", pkt), v.Bytes)
			}
		}
		// cross-check with the independent reference encoder
		if good {
			ok++
		}
	})
	out.put(map[string]any{"summary": map[string]int{"judged": n, "ok": ok, "distinct": len(seen)}})
}

func head(v []int) []int {
	if len(v) > 24 {
		return v[:24]
	}
	return v
}

// ---------------------------------------------------------------- code -> spec

type pkRec struct {
	K     string `json:"k"`
	P     Pkt    `json:"p"`
	Bytes []int  `json:"bytes"`
	O     int    `json:"o"`
	Pkt   Pkt    `json:"pkt"`
	Note  string `json:"note"`
}

// pkRecord builds p with the real constructors, packs it and decodes the result.
func pkRecord(p Pkt) (rec pkRec, err error) {
	rec = pkRec{K: "pk", P: p, Pkt: blank(-1)}
	var b []byte
	func() {
		defer func() {
			if r := recover(); r != nil {
				rec.Note = fmt.Sprint(r)
				b = nil
			}
		}()
		var m pkts.Packet
		m, err = toReal(p)
		if err != nil {
			return
		}
		b, err = m.Pack()
	}()
	if err != nil {
		return rec, err
	}
	if b == nil {
		rec.O = oPanic
		return rec, nil
	}
	rec.Bytes = ints(b)
	rec.O, rec.Pkt, _, rec.Note = decode(b)
	return rec, nil
}

// runDgShort: exhaustive classes of short datagrams.  VERIF_IN is a JSON array of
// class indices: -1 = the empty datagram; 0 = prefix <<>> (length-1 datagrams);
// 1+a = prefix <<a>>; 257 + a*256 + b = prefix <<a,b>>.
func runDgShort(t *testing.T, out *sink) {
	raw, err := os.ReadFile(os.Getenv("VERIF_IN"))
	if err != nil {
		t.Fatal(err)
	}
	var classes []int
	if err := json.Unmarshal(raw, &classes); err != nil {
		t.Fatal(err)
	}
	for _, c := range classes {
		progress(fmt.Sprintf("dgshort:%d", c))
		var pre []byte
		switch {
		case c == -1:
			out.put(dgRecord([]byte{}))
			continue
		case c == 0:
			pre = []byte{}
		case c <= 256:
			pre = []byte{byte(c - 1)}
		default:
			pre = []byte{byte((c - 257) >> 8), byte(c - 257)}
		}
		rec := clRec{K: "cl", Pre: ints(pre), O: make([]int, 256), Acc: []accRec{}}
		d := make([]byte, len(pre)+1)
		copy(d, pre)
		for x := 0; x < 256; x++ {
			d[len(pre)] = byte(x)
			o, pkt, rp, _ := decode(d)
			if o == oOK {
				rec.Acc = append(rec.Acc, accRec{pkt, rp})
				rec.O[x] = 1 + len(rec.Acc)
			} else {
				rec.O[x] = o
			}
		}
		out.put(rec)
	}
}

var typeCodes = []int{0, 1, 2, 3, 4, 5, 6, 7, 8, 9, 10, 11, 12, 13, 14, 15, 16, 18, 19, 20, 21, 22, 23, 24, 26, 27, 28, 29}

// genDatagram: structure-aware random datagram (header form x length field x type x
// body length around the layout boundaries x type-specific octets), up to 8192 octets.
func genDatagram(t *rapid.T) []byte {
	if rapid.IntRange(0, 19).Draw(t, "raw") == 0 { // 5 %: unstructured
		n := rapid.OneOf(rapid.IntRange(0, 8), rapid.IntRange(0, 300), rapid.IntRange(0, 8192)).Draw(t, "rawlen")
		return rapid.SliceOfN(rapid.Byte(), n, n).Draw(t, "rawbytes")
	}
	ty := rapid.OneOf(rapid.SampledFrom(typeCodes), rapid.SampledFrom(typeCodes), rapid.SampledFrom(typeCodes),
		rapid.IntRange(0, 255)).Draw(t, "type")
	// mostly small and boundary sizes; ~1/12 each very large / anywhere (TLC judges ~80 large records/s)
	n := rapid.OneOf(rapid.IntRange(0, 8), rapid.IntRange(0, 8), rapid.IntRange(0, 8), rapid.IntRange(0, 24),
		rapid.IntRange(0, 24), rapid.IntRange(247, 262), rapid.IntRange(247, 262), rapid.IntRange(0, 600),
		rapid.IntRange(0, 600), rapid.IntRange(0, 600), rapid.IntRange(8170, 8190), rapid.IntRange(0, 8188)).Draw(t, "bodylen")
	body := rapid.SliceOfN(rapid.Byte(), n, n).Draw(t, "body")
	// degenerate contents: the whole body, or its tail (a variable part), made of one repeated octet
	// (NUL-only / 0xFF-only names, client ids, payloads ...)
	switch rapid.IntRange(0, 9).Draw(t, "fill") {
	case 0, 1:
		c := rapid.SampledFrom([]byte{0x00, 0x01, 0x61, 0xFF}).Draw(t, "fillbyte")
		from := 0
		if rapid.Bool().Draw(t, "filltail") && n > 0 {
			from = rapid.IntRange(0, min(n, 7)).Draw(t, "fillfrom")
		}
		for i := from; i < n; i++ {
			body[i] = c
		}
	}
	// type-specific structure
	if n >= 2 {
		switch ty {
		case snref.AUTH:
			ml := rapid.OneOf(rapid.IntRange(0, 8), rapid.SampledFrom([]int{n - 3, n - 2, n - 1, 253, 254, 255}),
				rapid.IntRange(0, 255)).Draw(t, "methodlen")
			if ml >= 0 && ml <= 255 {
				body[1] = byte(ml)
			}
		case snref.CONNECT:
			if rapid.IntRange(0, 9).Draw(t, "protoid1") != 0 {
				body[1] = 1
			}
		}
	}
	if n >= 1 && (ty == snref.SUBSCRIBE || ty == snref.UNSUBSCRIBE) {
		// topic id type decides the tail layout; make 5-octet bodies with type 1/2 likely
		body[0] = body[0]&^3 | byte(rapid.IntRange(0, 3).Draw(t, "tit"))
	}
	var d []byte
	form := rapid.IntRange(0, 9).Draw(t, "form")
	switch {
	case form <= 3: // canonical header
		if n+2 <= 255 {
			d = append([]byte{byte(n + 2), byte(ty)}, body...)
		} else {
			l := n + 4
			d = append([]byte{1, byte(l >> 8), byte(l), byte(ty)}, body...)
		}
	case form <= 5: // 1-octet form, arbitrary length field (0x01 would be the long marker)
		lf := rapid.OneOf(rapid.Just((n+2)%256), rapid.IntRange(0, 255)).Draw(t, "lenf1")
		if lf == 1 {
			lf = 0
		}
		d = append([]byte{byte(lf), byte(ty)}, body...)
	case form <= 7: // 3-octet form with the exact size (also when <= 255: never emitted by the encoder)
		l := n + 4
		d = append([]byte{1, byte(l >> 8), byte(l), byte(ty)}, body...)
	default: // 3-octet form, arbitrary length field
		l := rapid.OneOf(rapid.IntRange(0, 260), rapid.IntRange(0, 65535)).Draw(t, "lenf3")
		d = append([]byte{1, byte(l >> 8), byte(l), byte(ty)}, body...)
	}
	switch rapid.IntRange(0, 19).Draw(t, "cut") {
	case 0:
		d = d[:rapid.IntRange(0, len(d)).Draw(t, "cutat")]
	case 1:
		d = append(d, rapid.SliceOfN(rapid.Byte(), 1, 3).Draw(t, "extra")...)
	}
	if len(d) > pkts1.MaxPacketLen {
		d = d[:pkts1.MaxPacketLen]
	}
	return d
}

func runDgRand(t *testing.T, out *sink) {
	want := envInt("VERIF_N", 1000)
	n := 0
	// rapid is used as the (seeded, -rapid.seed) generator; the property body records and never fails:
	// the verdict is TLC's.  -rapid.checks must be >= VERIF_N.
	rapid.Check(t, func(rt *rapid.T) {
		d := genDatagram(rt)
		if n >= want {
			return
		}
		n++
		progress(fmt.Sprintf("dgrand:%d len=%d", n, len(d)))
		out.put(dgRecord(d))
	})
}

func genBytes(t *rapid.T, label string, min int) []int {
	n := rapid.OneOf(rapid.IntRange(min, 8), rapid.IntRange(min, 8), rapid.IntRange(min, 24), rapid.IntRange(min, 24),
		rapid.IntRange(245, 260), rapid.IntRange(245, 260), rapid.IntRange(min, 600), rapid.IntRange(min, 600),
		rapid.IntRange(min, pkts1.MaxPayloadLength), rapid.Just(pkts1.MaxPayloadLength)).Draw(t, label+"len")
	return ints(rapid.SliceOfN(rapid.Byte(), n, n).Draw(t, label))
}

// genPacket: random *legal* packet over the full field ranges (LegalPkt of Codec.tla).
func genPacket(t *rapid.T) Pkt {
	ty := rapid.SampledFrom(typeCodes).Draw(t, "type")
	p := blank(ty)
	u16 := func(l string) int {
		return rapid.OneOf(rapid.IntRange(0, 65535), rapid.SampledFrom([]int{0, 1, 255, 256, 65534, 65535})).Draw(t, l)
	}
	u8 := func(l string) int { return rapid.IntRange(0, 255).Draw(t, l) }
	qos := func() int { return rapid.IntRange(0, 3).Draw(t, "qos") }
	b := func(l string) bool { return rapid.Bool().Draw(t, l) }
	switch ty {
	case snref.ADVERTISE:
		p.Gwid, p.Duration = u8("gwid"), u16("duration")
	case snref.SEARCHGW:
		p.Radius = u8("radius")
	case snref.GWINFO:
		p.Gwid, p.Data = u8("gwid"), genBytes(t, "addr", 0)
	case snref.AUTH:
		if b("plain") {
			p.Method = ints([]byte("PLAIN"))
			user := rapid.SliceOfN(rapid.IntRange(1, 255), 0, 40).Draw(t, "user")
			pass := rapid.SliceOfN(rapid.IntRange(1, 255), 0, 40).Draw(t, "pass")
			p.Data = append(append(append([]int{0}, user...), 0), pass...)
		} else {
			p.Reason = u8("reason")
			ml := rapid.OneOf(rapid.IntRange(0, 255), rapid.SampledFrom([]int{0, 1, 253, 254, 255})).Draw(t, "mlen")
			p.Method = ints(rapid.SliceOfN(rapid.Byte(), ml, ml).Draw(t, "method"))
			p.Data = genBytes(t, "data", 0)
		}
	case snref.CONNECT:
		p.Will, p.Clean, p.Protoid, p.Duration, p.Clientid = b("will"), b("clean"), 1, u16("duration"), genBytes(t, "clientid", 1)
	case snref.CONNACK, snref.WILLTOPICRESP, snref.WILLMSGRESP:
		p.Rc = u8("rc")
	case snref.WILLTOPIC, snref.WILLTOPICUPD:
		if !b("empty") {
			p.Qos, p.Retain, p.Topic = qos(), b("retain"), genBytes(t, "topic", 1)
		}
	case snref.WILLMSG, snref.WILLMSGUPD:
		p.Data = genBytes(t, "msg", 0)
	case snref.REGISTER:
		p.Topicid, p.Msgid, p.Topic = u16("topicid"), u16("msgid"), genBytes(t, "topic", 1)
	case snref.REGACK, snref.PUBACK:
		p.Topicid, p.Msgid, p.Rc = u16("topicid"), u16("msgid"), u8("rc")
	case snref.PUBLISH:
		p.Dup, p.Qos, p.Retain, p.Tit = b("dup"), qos(), b("retain"), rapid.IntRange(0, 3).Draw(t, "tit")
		p.Topicid, p.Msgid, p.Data = u16("topicid"), u16("msgid"), genBytes(t, "data", 0)
	case snref.PUBCOMP, snref.PUBREC, snref.PUBREL, snref.UNSUBACK:
		p.Msgid = u16("msgid")
	case snref.SUBSCRIBE, snref.UNSUBSCRIBE:
		if ty == snref.SUBSCRIBE {
			p.Dup, p.Qos = b("dup"), qos()
		}
		p.Msgid = u16("msgid")
		p.Tit = rapid.IntRange(0, 2).Draw(t, "tit")
		if p.Tit == 0 {
			p.Topic = genBytes(t, "topic", 1)
		} else {
			p.Topicid = u16("topicid")
		}
	case snref.SUBACK:
		p.Qos, p.Topicid, p.Msgid, p.Rc = qos(), u16("topicid"), u16("msgid"), u8("rc")
	case snref.PINGREQ:
		p.Clientid = genBytes(t, "clientid", 0)
	case snref.DISCONNECT:
		p.Duration = u16("duration")
	}
	return p
}

func runPkRand(t *testing.T, out *sink) {
	want := envInt("VERIF_N", 1000)
	n := 0
	rapid.Check(t, func(rt *rapid.T) {
		p := genPacket(rt)
		if n >= want {
			return
		}
		n++
		progress(fmt.Sprintf("pkrand:%d type=%d", n, p.Type))
		rec, err := pkRecord(p)
		if err != nil {
			t.Fatalf("generator produced a packet without constructor: %v", err)
		}
		if rec.Bytes == nil {
			rec.Bytes = []int{}
		}
		out.put(rec)
	})
}

type stRec struct {
	K   string  `json:"k"`
	Hi  int     `json:"hi"`
	Dec [][]int `json:"dec"`
	Enc []int   `json:"enc"`
}

// runShort: all 65536 short topic ids through the real DecodeShortTopic/EncodeShortTopic.
func runShort(t *testing.T, out *sink) {
	for hi := 0; hi < 256; hi++ {
		rec := stRec{K: "st", Hi: hi, Dec: make([][]int, 256), Enc: make([]int, 256)}
		for lo := 0; lo < 256; lo++ {
			id := uint16(hi<<8 | lo)
			name := pkts.DecodeShortTopic(id)
			rec.Dec[lo] = ints([]byte(name))
			rec.Enc[lo] = int(pkts.EncodeShortTopic(name))
			if !pkts.IsShortTopic(name) {
				rec.Enc[lo] = -1 // a decoded short topic must be a short topic
			}
		}
		out.put(rec)
	}
}
