// Package iodrv: real bisquitt client library + real gateway session + a
// conforming MQTT 3.1.1 broker model + a fault-injecting datagram link, all in
// one synctest bubble (interoperability properties C16, C26, C32).
package iodrv

import (
	"strings"

	"verif/harness/absmap"
	"verif/harness/mqref"
)

// Broker is a minimal conforming MQTT 3.1.1 broker for one connection.
type Broker struct {
	send      func([]byte) // bytes to the gateway
	rest      []byte
	Connected bool
	Closed    bool // the broker closed the connection (DISCONNECT / protocol error)
	Subs      map[string]int
	nextMid   int
	// QoS 2 outbound (broker -> client) exchanges waiting for PUBREC / PUBCOMP
	out2 map[int]string
	out1 map[int]bool
	// QoS 2 inbound (client -> broker): mids received and not yet released
	in2  map[int]bool
	Recv []absmap.Mq // everything received since the last Drain
	Sent []absmap.Mq
	// messages accepted for distribution (client publishes), for the effect check
	Junk bool
}

func NewBroker(send func([]byte)) *Broker {
	return &Broker{send: send, Subs: map[string]int{}, nextMid: 1, out2: map[int]string{}, out1: map[int]bool{}, in2: map[int]bool{}}
}

func (b *Broker) tx(p mqref.Pkt) {
	raw := mqref.Encode(p)
	b.Sent = append(b.Sent, absmap.MqFromPkt(mqref.Parse(raw)))
	b.send(raw)
}

// Feed processes bytes written by the gateway.
func (b *Broker) Feed(data []byte) {
	buf := append(b.rest, data...)
	pk, rest, err := mqref.Split(buf)
	b.rest = rest
	if err != nil {
		b.Junk = true
		b.rest = nil
	}
	for _, raw := range pk {
		p := mqref.Parse(raw)
		b.Recv = append(b.Recv, absmap.MqFromPkt(p))
		if b.Closed {
			continue
		}
		switch p.Type {
		case mqref.CONNECT:
			if b.Connected {
				b.Closed = true // second CONNECT is a protocol violation
				continue
			}
			b.Connected = true
			b.tx(mqref.Pkt{Type: mqref.CONNACK, RC: 0})
		case mqref.SUBSCRIBE:
			codes := []int{}
			for i, t := range p.Topics {
				q := p.QoSs[i]
				if q > 2 {
					codes = append(codes, 0x80)
					continue
				}
				b.Subs[t] = q
				codes = append(codes, q)
			}
			b.tx(mqref.Pkt{Type: mqref.SUBACK, MsgID: p.MsgID, Codes: codes})
		case mqref.UNSUBSCRIBE:
			for _, t := range p.Topics {
				delete(b.Subs, t)
			}
			b.tx(mqref.Pkt{Type: mqref.UNSUBACK, MsgID: p.MsgID})
		case mqref.PUBLISH:
			switch p.QoS {
			case 1:
				b.tx(mqref.Pkt{Type: mqref.PUBACK, MsgID: p.MsgID})
			case 2:
				b.in2[p.MsgID] = true
				b.tx(mqref.Pkt{Type: mqref.PUBREC, MsgID: p.MsgID})
			}
		case mqref.PUBREL:
			delete(b.in2, p.MsgID)
			b.tx(mqref.Pkt{Type: mqref.PUBCOMP, MsgID: p.MsgID})
		case mqref.PUBREC:
			if _, ok := b.out2[p.MsgID]; ok {
				b.out2[p.MsgID] = "pubcomp"
			}
			b.tx(mqref.Pkt{Type: mqref.PUBREL, MsgID: p.MsgID})
		case mqref.PUBCOMP:
			delete(b.out2, p.MsgID)
		case mqref.PUBACK:
			delete(b.out1, p.MsgID)
		case mqref.PINGREQ:
			b.tx(mqref.Pkt{Type: mqref.PINGRESP})
		case mqref.DISCONNECT:
			b.Closed = true
		}
	}
}

// Match implements MQTT topic filter matching.
func Match(filter, topic string) bool {
	f := strings.Split(filter, "/")
	t := strings.Split(topic, "/")
	for i, l := range f {
		if l == "#" {
			return true
		}
		if i >= len(t) {
			return false
		}
		if l != "+" && l != t[i] {
			return false
		}
	}
	return len(f) == len(t)
}

// Publish distributes a message to the connection if a subscription matches.
// Returns the QoS used (-1 = no matching subscription) and the message id.
func (b *Broker) Publish(topic string, payload []byte, qos int, retain bool) (int, int) {
	best := -1
	for f, q := range b.Subs {
		if Match(f, topic) && q > best {
			best = q
		}
	}
	if best < 0 || !b.Connected || b.Closed {
		return -1, 0
	}
	if qos < best {
		best = qos
	}
	mid := 0
	if best > 0 {
		mid = b.nextMid
		b.nextMid++
		if best == 1 {
			b.out1[mid] = true
		} else {
			b.out2[mid] = "pubrec"
		}
	}
	b.tx(mqref.Pkt{Type: mqref.PUBLISH, Topic: topic, Payload: payload, QoS: best, MsgID: mid, Retain: false})
	return best, mid
}

// Pending returns the number of unfinished broker-initiated QoS 1/2 exchanges.
func (b *Broker) Pending() (int, int) { return len(b.out1), len(b.out2) }
