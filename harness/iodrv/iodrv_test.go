package iodrv

import (
	"bufio"
	"context"
	"encoding/json"
	"fmt"
	"net"
	"os"
	"runtime"
	"sort"
	"strings"
	"sync"
	"testing"
	"testing/synctest"
	"time"

	"github.com/energomonitor/bisquitt/client"
	"github.com/energomonitor/bisquitt/gateway"
	pkts1 "github.com/energomonitor/bisquitt/packets1"
	"github.com/energomonitor/bisquitt/topics"
	"github.com/energomonitor/bisquitt/util"

	"verif/harness/absmap"
	"verif/harness/memnet"
	"verif/harness/snref"
)

const tick = 100 * time.Millisecond

type PredefEntry struct {
	C  string   `json:"c"`
	ID int      `json:"id"`
	N  string   `json:"n"`
	Tl []string `json:"tl"`
}

type Cfg struct {
	Cid    string        `json:"cid"`
	RD     int           `json:"rd"`     // RetryDelay (both sides), ticks
	RC     int           `json:"rc"`     // RetryCount (both sides)
	CT     int           `json:"ct"`     // client ConnectTimeout, ticks
	KA     int           `json:"ka"`     // client KeepAlive, ticks (multiple of 10)
	KaLoop bool          `json:"kaloop"` // run the client's keep-alive loop (else KeepAlive only in CONNECT)
	Predef []PredefEntry `json:"predef"`
	Will   string        `json:"will"` // will topic ("" = none)
}

type Fault struct {
	Dir  string `json:"dir"`  // c2g | g2c
	T    string `json:"t"`    // packet type
	Skip int    `json:"skip"` // let this many matching datagrams pass first
	Drop int    `json:"drop"` // then drop this many
	Dupl int    `json:"dupl"` // then deliver this many twice
	seen int
}

type Pub struct {
	Topic  string `json:"topic"`
	Qos    int    `json:"qos"`
	Pl     string `json:"pl"`
	Retain bool   `json:"retain"`
}

type Event struct {
	E      string `json:"e"` // api | wait | bpub | adv
	Call   string `json:"call,omitempty"`
	Api    string `json:"api,omitempty"`
	Async  bool   `json:"async,omitempty"`
	Topic  string `json:"topic,omitempty"`
	Qos    int    `json:"qos,omitempty"`
	Tid    int    `json:"tid,omitempty"`
	Dur    int    `json:"dur,omitempty"` // ticks
	H      string `json:"h,omitempty"`
	Pl     string `json:"pl,omitempty"`
	Retain bool   `json:"retain,omitempty"`
	Pubs   []Pub  `json:"pubs,omitempty"`
	N      int    `json:"n,omitempty"`
}

type Scenario struct {
	ID     string  `json:"id"`
	Cfg    Cfg     `json:"cfg"`
	Seed   int64   `json:"seed"`
	Events []Event `json:"events"`
	Faults []Fault `json:"faults"`
	Tail   int     `json:"tail"`
}

type BPubRec struct {
	Topic string   `json:"topic"`
	Tl    []string `json:"tl"`
	Short bool     `json:"short"` // two-byte (short) topic name
	Qos   int      `json:"qos"`   // requested by the publisher
	Eff   int      `json:"eff"` // QoS used towards this client (-1: no matching subscription)
	Mid   int      `json:"mid"`
	Pl    string   `json:"pl"`
}

type TraceEv struct {
	T      string    `json:"t"` // Reset | Api | Wait | BPub | Adv | End
	Call   string    `json:"call"`
	Api    string    `json:"api"`
	Async  bool      `json:"async"`
	Topic  string    `json:"topic"`
	Tl     []string  `json:"tl"`
	Short  bool      `json:"short"`
	Qos    int       `json:"qos"`
	Tid    int       `json:"tid"`
	Dur    int       `json:"dur"`
	H      string    `json:"h"`
	Pl     string    `json:"pl"`
	Retain bool      `json:"retain"`
	Pubs   []BPubRec `json:"pubs"`
	N      int       `json:"n"`
	Cfg    *Cfg      `json:"cfg,omitempty"`
}

type Ret struct {
	Call string `json:"call"`
	Api  string `json:"api"`
	Ok   bool   `json:"ok"`
	Err  string `json:"err"`
	At   int    `json:"at"`
}

type Cb struct {
	H     string   `json:"h"`
	Topic string   `json:"topic"`
	Tl    []string `json:"tl"`
	Pl    string   `json:"pl"`
	Qos   int      `json:"qos"`
}

type LinkRec struct {
	Dir  string    `json:"dir"`
	Fate string    `json:"fate"` // ok | drop | dupl
	P    absmap.Sn `json:"p"`
	At   int       `json:"at"`
}

type Line struct {
	Tr      string      `json:"tr"`
	I       int         `json:"i"`
	Now     int         `json:"now"`
	Ev      TraceEv     `json:"ev"`
	Rets    []Ret       `json:"rets"`
	Cbs     []Cb        `json:"cbs"`
	Link    []LinkRec   `json:"link"`
	BRecv   []absmap.Mq `json:"brecv"`
	BSent   []absmap.Mq `json:"bsent"`
	BJunk   bool        `json:"bjunk"`
	BClosed bool        `json:"bclosed"` // the broker closed the connection
	Cst     string      `json:"cst"`
	Gst     string      `json:"gst"`
	GEnded  bool        `json:"gended"`
	CEnded  bool        `json:"cended"`
	Napi    int         `json:"napi"`
	P1      int         `json:"p1"` // broker-initiated QoS 1 exchanges not yet acknowledged
	P2      int         `json:"p2"` // broker-initiated QoS 2 exchanges not yet completed
	Leaked  int         `json:"leaked"`
}

type quietLogger struct{}

func (quietLogger) Debug(string, ...interface{}) {}
func (quietLogger) Info(string, ...interface{})  {}
func (quietLogger) Error(string, ...interface{}) {}
func (l quietLogger) WithTag(string) util.Logger { return l }
func (quietLogger) Sync()                        {}

func levels(s string) []string { return strings.Split(s, "/") }

func errClass(err error) string {
	if err == nil {
		return ""
	}
	s := err.Error()
	for _, k := range []string{"no more retries", "timeout", "rejected", "not registered", "invalid", "closed", "cannot call"} {
		if strings.Contains(s, k) {
			return strings.ReplaceAll(k, " ", "-")
		}
	}
	return "other"
}

func TestDrive(t *testing.T) {
	in := os.Getenv("VERIF_SCHED")
	out := os.Getenv("VERIF_TRACE")
	if in == "" || out == "" {
		t.Skip("VERIF_SCHED/VERIF_TRACE not set")
	}
	raw, err := os.ReadFile(in)
	if err != nil {
		t.Fatal(err)
	}
	var scs []Scenario
	if err := json.Unmarshal(raw, &scs); err != nil {
		t.Fatal(err)
	}
	f, err := os.Create(out)
	if err != nil {
		t.Fatal(err)
	}
	defer f.Close()
	w := bufio.NewWriter(f)
	defer w.Flush()
	prog := os.Getenv("VERIF_PROGRESS")
	for _, sc := range scs {
		if prog != "" {
			os.WriteFile(prog, []byte(sc.ID), 0o644)
		}
		sc := sc
		emit := func(l Line) {
			b, err := json.Marshal(l)
			if err != nil {
				panic(err)
			}
			w.Write(b)
			w.WriteByte('\n')
			w.Flush()
		}
		stuck := false
		synctest.Test(t, func(t *testing.T) { stuck = runScenario(sc, emit) })
		if stuck {
			// goroutines that never finish would dead-lock the bubble exit; the End line says so
			w.Flush()
			if prog != "" {
				os.WriteFile(prog, []byte("STUCK:"+sc.ID), 0o644)
			}
			os.Exit(4)
		}
	}
	if prog != "" {
		os.WriteFile(prog, []byte("DONE"), 0o644)
	}
}

type state struct {
	mu   sync.Mutex
	rets []Ret
	cbs  []Cb
	link []LinkRec
	bin  []byte // gateway -> broker bytes
	napi int
	cend bool
}

func runScenario(sc Scenario, emit func(Line)) (stuck bool) {
	st := &state{}
	start := time.Now()
	nowTicks := func() int { return int(time.Since(start) / tick) }
	faults := make([]*Fault, len(sc.Faults))
	for i := range sc.Faults {
		f := sc.Faults[i]
		faults[i] = &f
	}
	var cConn, gConn *memnet.Conn
	// link: datagrams written by one side are delivered to the other, subject to the fault plan
	relay := func(dir string, to func() *memnet.Conn) func([]byte) {
		return func(b []byte) {
			p := absmap.SnFromWire(b, 1<<20)
			fate := "ok"
			st.mu.Lock()
			for _, f := range faults {
				if f.Dir == dir && f.T == p.T {
					f.seen++
					k := f.seen - f.Skip
					if k >= 1 && k <= f.Drop {
						fate = "drop"
					} else if k > f.Drop && k <= f.Drop+f.Dupl {
						fate = "dupl"
					}
					break
				}
			}
			st.link = append(st.link, LinkRec{Dir: dir, Fate: fate, P: p, At: nowTicks()})
			st.mu.Unlock()
			switch fate {
			case "ok":
				to().Inject(b)
			case "dupl":
				to().Inject(b)
				to().Inject(b)
			}
		}
	}
	cConn = memnet.NewDatagram("client", relay("c2g", func() *memnet.Conn { return gConn }), nil)
	gConn = memnet.NewDatagram("gateway", relay("g2c", func() *memnet.Conn { return cConn }), nil)
	brokerConn := memnet.NewStream("mq", func(b []byte) {
		st.mu.Lock()
		st.bin = append(st.bin, b...)
		st.mu.Unlock()
	}, nil)
	broker := NewBroker(func(b []byte) { brokerConn.Inject(b) })

	predef := topics.PredefinedTopics{}
	for _, e := range sc.Cfg.Predef {
		predef.Add(e.C, string(absmap.DecName(e.N)), uint16(e.ID))
	}
	base := runtime.NumGoroutine()
	sess := gateway.NewVerifSession(gateway.VerifConfig{
		RetryDelay: time.Duration(sc.Cfg.RD) * tick, RetryCount: uint(sc.Cfg.RC)}, predef, quietLogger{}, brokerConn)
	gctx, gcancel := context.WithCancel(context.Background())
	gdone := make(chan struct{})
	go func() {
		sess.Run(gctx, gConn)
		gConn.Close()
		close(gdone)
	}()
	ccfg := &client.ClientConfig{
		ClientID:         sc.Cfg.Cid,
		RetryDelay:       time.Duration(sc.Cfg.RD) * tick,
		RetryCount:       uint(sc.Cfg.RC),
		ConnectTimeout:   time.Duration(sc.Cfg.CT) * tick,
		KeepAlive:        time.Duration(sc.Cfg.KA) * tick,
		CleanSession:     true,
		PredefinedTopics: predef,
		WillTopic:        sc.Cfg.Will,
		WillPayload:      []byte("will"),
	}
	c := client.NewClient(quietLogger{}, ccfg)
	c.VerifSetDial(func() (net.Conn, error) { return cConn, nil })
	if err := c.Dial("mem"); err != nil {
		panic(err)
	}
	cdone := make(chan struct{})
	go func() {
		c.Wait()
		st.mu.Lock()
		st.cend = true
		st.mu.Unlock()
		close(cdone)
	}()

	// settle: let the broker model answer until nothing moves any more (no time passes)
	settle := func() {
		for i := 0; i < 200; i++ {
			synctest.Wait()
			st.mu.Lock()
			data := st.bin
			st.bin = nil
			st.mu.Unlock()
			if len(data) == 0 {
				return
			}
			broker.Feed(data)
			if broker.Closed {
				brokerConn.InjectEOF()
			}
		}
	}
	settle()
	gended := func() bool {
		select {
		case <-gdone:
			return true
		default:
			return false
		}
	}
	idx := 0
	snapshot := func(ev TraceEv) Line {
		st.mu.Lock()
		l := Line{Tr: sc.ID, I: idx, Now: nowTicks(), Ev: ev, Rets: append([]Ret{}, st.rets...), Cbs: append([]Cb{}, st.cbs...),
			Link: append([]LinkRec{}, st.link...), Napi: st.napi, CEnded: st.cend}
		st.rets, st.cbs, st.link = nil, nil, nil
		st.mu.Unlock()
		idx++
		l.BRecv = append([]absmap.Mq{}, broker.Recv...)
		l.BSent = append([]absmap.Mq{}, broker.Sent...)
		broker.Recv, broker.Sent = nil, nil
		l.BJunk, l.BClosed = broker.Junk, broker.Closed
		l.Cst, l.Gst, l.GEnded = c.VerifState().String(), sess.State().String(), gended()
		l.P1, l.P2 = broker.Pending()
		sort.SliceStable(l.Cbs, func(i, j int) bool { return l.Cbs[i].H < l.Cbs[j].H })
		if l.Ev.Tl == nil {
			l.Ev.Tl = []string{}
		}
		if l.Ev.Pubs == nil {
			l.Ev.Pubs = []BPubRec{}
		}
		return l
	}
	rcfg := sc.Cfg
	if rcfg.Predef == nil {
		rcfg.Predef = []PredefEntry{}
	}
	for i := range rcfg.Predef {
		rcfg.Predef[i].Tl = levels(string(absmap.DecName(rcfg.Predef[i].N)))
	}
	emit(snapshot(TraceEv{T: "Reset", Cfg: &rcfg}))

	handler := func(h string) client.MessageHandlerFunc {
		return func(_ *client.Client, topic string, pkt *pkts1.Publish) {
			st.mu.Lock()
			st.cbs = append(st.cbs, Cb{H: h, Topic: absmap.EncName([]byte(topic)), Tl: levels(topic),
				Pl: absmap.EncData(pkt.Data), Qos: int(pkt.QOS)})
			st.mu.Unlock()
		}
	}
	apiCall := func(e Event) func() error {
		topic := string(absmap.DecName(e.Topic))
		pl := absmap.DecData(e.Pl, sc.Seed)
		switch e.Api {
		case "Connect":
			return c.Connect
		case "Register":
			return func() error { return c.Register(topic) }
		case "Subscribe":
			return func() error { return c.Subscribe(topic, uint8(e.Qos), handler(e.H)) }
		case "SubscribePredefined":
			return func() error { return c.SubscribePredefined(uint16(e.Tid), uint8(e.Qos), handler(e.H)) }
		case "Unsubscribe":
			return func() error { return c.Unsubscribe(topic) }
		case "UnsubscribePredefined":
			return func() error { return c.UnsubscribePredefined(uint16(e.Tid)) }
		case "Publish":
			return func() error { return c.Publish(topic, pl, uint8(e.Qos), e.Retain) }
		case "PublishPredefined":
			return func() error { return c.PublishPredefined(uint16(e.Tid), pl, uint8(e.Qos), e.Retain) }
		case "Ping":
			return c.Ping
		case "Sleep":
			return func() error { return c.Sleep(time.Duration(e.Dur) * tick) }
		case "Disconnect":
			return c.Disconnect
		}
		panic("unknown api " + e.Api)
	}
	running := map[string]chan struct{}{}
	startAPI := func(e Event) chan struct{} {
		fn := apiCall(e)
		done := make(chan struct{})
		st.mu.Lock()
		st.napi++
		st.mu.Unlock()
		go func() {
			err := fn()
			st.mu.Lock()
			st.napi--
			st.rets = append(st.rets, Ret{Call: e.Call, Api: e.Api, Ok: err == nil, Err: errClass(err), At: nowTicks()})
			st.mu.Unlock()
			close(done)
		}()
		return done
	}
	isDone := func(ch chan struct{}) bool {
		select {
		case <-ch:
			return true
		default:
			return false
		}
	}
	// let virtual time pass (tick by tick, broker answering) until cond holds or max ticks elapsed
	runUntil := func(cond func() bool, max int) {
		settle()
		for i := 0; i < max && !cond(); i++ {
			time.Sleep(tick)
			settle()
		}
	}
	maxCall := (sc.Cfg.RC+2)*sc.Cfg.RD*3 + (sc.Cfg.RC+2)*sc.Cfg.CT + 700

	for _, e := range sc.Events {
		switch e.E {
		case "api":
			ev := TraceEv{T: "Api", Call: e.Call, Api: e.Api, Async: e.Async, Topic: e.Topic, Qos: e.Qos, Tid: e.Tid,
				Dur: e.Dur, H: e.H, Retain: e.Retain}
			if e.Pl != "" {
				ev.Pl = absmap.EncData(absmap.DecData(e.Pl, sc.Seed))
			} else {
				ev.Pl = absmap.EncData(nil)
			}
			switch e.Api {
			case "Register", "Subscribe", "Unsubscribe", "Publish":
				name := absmap.DecName(e.Topic)
				ev.Tl = levels(string(name))
				ev.Short = len(name) == 2
			}
			ch := startAPI(e)
			running[e.Call] = ch
			if e.Async {
				settle()
			} else {
				runUntil(func() bool { return isDone(ch) }, maxCall+e.Dur)
			}
			emit(snapshot(ev))
		case "wait":
			ch := running[e.Call]
			runUntil(func() bool { return ch == nil || isDone(ch) }, maxCall+e.N)
			emit(snapshot(TraceEv{T: "Wait", Call: e.Call}))
		case "bpub":
			ev := TraceEv{T: "BPub"}
			for _, p := range e.Pubs {
				topic := string(absmap.DecName(p.Topic))
				pl := absmap.DecData(p.Pl, sc.Seed)
				eff, mid := broker.Publish(topic, pl, p.Qos, p.Retain)
				ev.Pubs = append(ev.Pubs, BPubRec{Topic: p.Topic, Tl: levels(topic), Short: len(topic) == 2, Qos: p.Qos, Eff: eff, Mid: mid, Pl: absmap.EncData(pl)})
			}
			// let the exchanges finish (retransmissions need time when the link loses datagrams)
			runUntil(func() bool {
				p1, p2 := broker.Pending()
				return p1+p2 == 0 || c.VerifState() == util.StateAsleep
			}, e.N)
			emit(snapshot(ev))
		case "adv":
			runUntil(func() bool { return false }, e.N)
			emit(snapshot(TraceEv{T: "Adv", N: e.N}))
		default:
			panic("unknown event " + e.E)
		}
	}
	if sc.Tail > 0 {
		runUntil(func() bool { return false }, sc.Tail)
		emit(snapshot(TraceEv{T: "Adv", N: sc.Tail}))
	}
	// epilogue
	closeDone := make(chan struct{})
	go func() {
		c.Close()
		close(closeDone)
	}()
	runUntil(func() bool { return isDone(closeDone) }, maxCall)
	gcancel()
	runUntil(func() bool { return gended() && isDone(cdone) }, 50)
	l := snapshot(TraceEv{T: "End"})
	time.Sleep(time.Duration(maxCall) * tick)
	synctest.Wait()
	st.mu.Lock()
	napi := st.napi
	st.mu.Unlock()
	l.Leaked = runtime.NumGoroutine() - base - napi
	if !isDone(closeDone) {
		l.Leaked += 1000
	}
	emit(l)
	if napi > 0 || !isDone(closeDone) || !gended() || !isDone(cdone) {
		fmt.Fprintf(os.Stderr, "HARNESS: scenario %s left blocked goroutines (napi=%d)\n", sc.ID, napi)
		return true
	}
	_ = snref.TypeName
	return false
}
