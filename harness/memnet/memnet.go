// Package memnet provides in-memory net.Conn implementations whose blocking
// operations are channel/timer based and therefore "durably blocking" in the
// sense of testing/synctest.  One end is a net.Conn handed to the code under
// test; the other end is the harness (Inject / outputs via callback).
package memnet

import (
	"io"
	"net"
	"os"
	"runtime"
	"sync"
	"time"
)

type addr string

func (a addr) Network() string { return "mem" }
func (a addr) String() string  { return string(a) }

// Conn is the code-under-test end of an in-memory connection.
type Conn struct {
	datagram  bool
	in        chan []byte // nil chunk = EOF
	closed    chan struct{}
	closeOnce sync.Once

	mu            sync.Mutex
	rest          []byte // stream mode leftover
	eof           bool
	rdl           time.Time
	onWrite       func(b []byte)
	onClose       func()
	failWrite     error
	local, remote addr

	// YieldOnWrite makes Write yield the processor after delivering the bytes (set before use)
	YieldOnWrite bool
}

// NewDatagram creates a packet-oriented connection (one Read = one datagram).
func NewDatagram(name string, onWrite func([]byte), onClose func()) *Conn {
	return &Conn{datagram: true, in: make(chan []byte, 1<<16), closed: make(chan struct{}),
		onWrite: onWrite, onClose: onClose, local: addr(name + "-local"), remote: addr(name + "-remote")}
}

// NewStream creates a byte-stream connection.
func NewStream(name string, onWrite func([]byte), onClose func()) *Conn {
	c := NewDatagram(name, onWrite, onClose)
	c.datagram = false
	return c
}

// Inject makes b readable by the code under test.
func (c *Conn) Inject(b []byte) {
	cp := make([]byte, len(b))
	copy(cp, b)
	c.in <- cp
}

// InjectEOF makes subsequent reads return io.EOF (peer closed).
func (c *Conn) InjectEOF() { c.in <- nil }

// SetWriteError makes every later Write fail with err (nil = succeed).
func (c *Conn) SetWriteError(err error) {
	c.mu.Lock()
	c.failWrite = err
	c.mu.Unlock()
}

type timeoutError struct{}

func (timeoutError) Error() string   { return "i/o timeout" }
func (timeoutError) Timeout() bool   { return true }
func (timeoutError) Temporary() bool { return true }

var _ net.Error = timeoutError{}

func (c *Conn) Read(p []byte) (int, error) {
	c.mu.Lock()
	if len(c.rest) > 0 {
		n := copy(p, c.rest)
		c.rest = c.rest[n:]
		c.mu.Unlock()
		return n, nil
	}
	if c.eof {
		c.mu.Unlock()
		return 0, io.EOF
	}
	dl := c.rdl
	c.mu.Unlock()

	var tch <-chan time.Time
	if !dl.IsZero() {
		d := time.Until(dl)
		if d <= 0 {
			// still deliver data that is already there
			select {
			case b := <-c.in:
				return c.deliver(b, p)
			default:
			}
			return 0, timeoutError{}
		}
		t := time.NewTimer(d)
		defer t.Stop()
		tch = t.C
	}
	select {
	case b := <-c.in:
		return c.deliver(b, p)
	case <-tch:
		return 0, timeoutError{}
	case <-c.closed:
		return 0, net.ErrClosed
	}
}

func (c *Conn) deliver(b []byte, p []byte) (int, error) {
	if b == nil {
		c.mu.Lock()
		c.eof = true
		c.mu.Unlock()
		return 0, io.EOF
	}
	n := copy(p, b)
	if !c.datagram && n < len(b) {
		c.mu.Lock()
		c.rest = b[n:]
		c.mu.Unlock()
	}
	return n, nil
}

func (c *Conn) Write(b []byte) (int, error) {
	select {
	case <-c.closed:
		return 0, net.ErrClosed
	default:
	}
	c.mu.Lock()
	err := c.failWrite
	c.mu.Unlock()
	if err != nil {
		return 0, err
	}
	cp := make([]byte, len(b))
	copy(cp, b)
	if c.onWrite != nil {
		c.onWrite(cp)
	}
	if c.YieldOnWrite {
		// a write to a real socket may block: let the other goroutines run in the middle of the caller's
		// critical section (used by the concurrent multi-session runs)
		runtime.Gosched()
	}
	return len(b), nil
}

func (c *Conn) Close() error {
	c.closeOnce.Do(func() {
		close(c.closed)
		if c.onClose != nil {
			c.onClose()
		}
	})
	return nil
}

// Closed reports whether the code under test closed the connection.
func (c *Conn) Closed() bool {
	select {
	case <-c.closed:
		return true
	default:
		return false
	}
}

func (c *Conn) LocalAddr() net.Addr  { return c.local }
func (c *Conn) RemoteAddr() net.Addr { return c.remote }
func (c *Conn) SetDeadline(t time.Time) error {
	c.mu.Lock()
	c.rdl = t
	c.mu.Unlock()
	return nil
}
func (c *Conn) SetReadDeadline(t time.Time) error {
	c.mu.Lock()
	c.rdl = t
	c.mu.Unlock()
	return nil
}
func (c *Conn) SetWriteDeadline(t time.Time) error { return nil }

var ErrDeadline = os.ErrDeadlineExceeded
