package gwdrv

// Free-running concurrency test of the sleep buffer (C11, "publishes that race
// with the PINGREQ"): the broker side and the MQTT-SN side inject their packets
// from two goroutines in real time without any synchronisation, so the two
// receive loops of handler1 really interleave.  The recorded output sequence is
// judged by TLC against tla/SleepRace.tla (some interleaving of the atomic
// critical sections must explain it); built with -race the run also checks the
// mutual exclusion the model assumes.

import (
	"bufio"
	"context"
	"encoding/json"
	"math/rand"
	"os"
	"sync"
	"testing"
	"time"

	"github.com/energomonitor/bisquitt/gateway"

	"verif/harness/memnet"
	"verif/harness/mqref"
	"verif/harness/snref"
)

type RaceRun struct {
	ID   string   `json:"id"`
	N    int      `json:"n"`
	Cmds []string `json:"cmds"`
	Seed int64    `json:"seed"`
}

type RaceResult struct {
	ID   string   `json:"id"`
	N    int      `json:"n"`
	Cmds []string `json:"cmds"`
	Out  []int    `json:"out"`
	OK   bool     `json:"ok"` // the run itself worked (connect handshake, quiescence)
	Why  string   `json:"why"`
}

func TestRace(t *testing.T) {
	in := os.Getenv("VERIF_SCHED")
	out := os.Getenv("VERIF_TRACE")
	if in == "" || out == "" {
		t.Skip("VERIF_SCHED/VERIF_TRACE not set")
	}
	raw, err := os.ReadFile(in)
	if err != nil {
		t.Fatal(err)
	}
	var runs []RaceRun
	if err := json.Unmarshal(raw, &runs); err != nil {
		t.Fatal(err)
	}
	f, err := os.Create(out)
	if err != nil {
		t.Fatal(err)
	}
	defer f.Close()
	w := bufio.NewWriter(f)
	defer w.Flush()
	for _, r := range runs {
		res := raceOne(r)
		b, _ := json.Marshal(res)
		w.Write(b)
		w.WriteByte('\n')
		w.Flush()
	}
}

func raceOne(r RaceRun) RaceResult {
	res := RaceResult{ID: r.ID, N: r.N, Cmds: append([]string{}, r.Cmds...), Out: []int{}}
	var mu sync.Mutex
	var cout [][]byte
	var bout []byte
	brokerConn := memnet.NewStream("mq", func(b []byte) {
		mu.Lock()
		bout = append(bout, b...)
		mu.Unlock()
	}, nil)
	snConn := memnet.NewDatagram("sn", func(b []byte) {
		mu.Lock()
		cout = append(cout, b)
		mu.Unlock()
	}, nil)
	sess := gateway.NewVerifSession(gateway.VerifConfig{RetryDelay: 10 * time.Second, RetryCount: 1}, nil, quietLogger{}, brokerConn)
	ctx, cancel := context.WithCancel(context.Background())
	done := make(chan struct{})
	go func() {
		sess.Run(ctx, snConn)
		close(done)
	}()
	defer func() {
		cancel()
		select {
		case <-done:
		case <-time.After(5 * time.Second):
		}
	}()
	waitFor := func(cond func() bool) bool {
		for i := 0; i < 3000; i++ {
			mu.Lock()
			ok := cond()
			mu.Unlock()
			if ok {
				return true
			}
			time.Sleep(time.Millisecond)
		}
		return false
	}
	snConn.Inject(snref.Encode(snref.Pkt{Type: snref.CONNECT, Duration: 600, ClientID: "c1", Clean: true}))
	if !waitFor(func() bool { return len(bout) > 0 }) {
		res.Why = "no MQTT CONNECT"
		return res
	}
	brokerConn.Inject(mqref.Encode(mqref.Pkt{Type: mqref.CONNACK}))
	if !waitFor(func() bool { return len(cout) > 0 }) {
		res.Why = "no CONNACK"
		return res
	}
	mu.Lock()
	cout = nil
	mu.Unlock()

	rnd := rand.New(rand.NewSource(r.Seed))
	jitterM := make([]time.Duration, r.N)
	for i := range jitterM {
		jitterM[i] = time.Duration(rnd.Intn(300)) * time.Microsecond
	}
	jitterS := make([]time.Duration, len(r.Cmds))
	for i := range jitterS {
		jitterS[i] = time.Duration(rnd.Intn(r.N*150/(len(r.Cmds)+1)+1)) * time.Microsecond
	}
	var wg sync.WaitGroup
	wg.Add(2)
	go func() {
		defer wg.Done()
		for k := 1; k <= r.N; k++ {
			brokerConn.Inject(mqref.Encode(mqref.Pkt{Type: mqref.PUBLISH, Topic: "ab", Payload: []byte{byte(k >> 8), byte(k)}}))
			time.Sleep(jitterM[k-1])
		}
	}()
	asleep := false
	go func() {
		defer wg.Done()
		for i, c := range r.Cmds {
			switch c {
			case "sleep":
				snConn.Inject(snref.Encode(snref.Pkt{Type: snref.DISCONNECT, Duration: 600, HasDur: true}))
				asleep = true
			case "wake":
				snConn.Inject(snref.Encode(snref.Pkt{Type: snref.PINGREQ, ClientID: "c1"}))
			case "connect":
				snConn.Inject(snref.Encode(snref.Pkt{Type: snref.CONNECT, Duration: 600, ClientID: "c1", Clean: true}))
				asleep = false
			}
			time.Sleep(jitterS[i])
		}
	}()
	wg.Wait()
	// The MQTT-SN loop handles the commands one after the other whatever the MQTT loop does, so the
	// number of acknowledgements (sleep ack, PINGRESP of a wake-up while asleep, CONNACK) is known in
	// advance; quiescence = all of them have arrived (and, once the client is awake or has been woken,
	// all N messages), then a grace period for anything that should NOT come.  A fixed "no output for
	// a few milliseconds" criterion cut runs short on a loaded machine.
	expectAcks := func(cmds []string) int {
		n, sleeping := 0, false
		for _, c := range cmds {
			switch c {
			case "sleep":
				n++
				sleeping = true
			case "wake":
				if sleeping {
					n++
				}
			case "connect":
				n++
				sleeping = false
			}
		}
		return n
	}
	counts := func() (acks, msgs int) {
		mu.Lock()
		defer mu.Unlock()
		for _, d := range cout {
			if p, err := snref.Parse(d); err == nil && p.Type == snref.PUBLISH {
				msgs++
			} else {
				acks++
			}
		}
		return
	}
	quiet := func(cmds []string, wantMsgs bool) {
		want := expectAcks(cmds)
		deadline := time.Now().Add(4 * time.Second)
		for time.Now().Before(deadline) {
			a, m := counts()
			if a >= want && (!wantMsgs || m >= r.N) {
				break
			}
			time.Sleep(2 * time.Millisecond)
		}
		// grace period: nothing else is expected; what still arrives is recorded
		last := -1
		for i := 0; i < 100; i++ {
			time.Sleep(10 * time.Millisecond)
			a, m := counts()
			if a+m == last && i >= 3 {
				return
			}
			last = a + m
		}
	}
	quiet(r.Cmds, !asleep)
	if asleep {
		// final wake-up after everything has been handed over: flushes the buffer
		snConn.Inject(snref.Encode(snref.Pkt{Type: snref.PINGREQ, ClientID: "c1"}))
		res.Cmds = append(res.Cmds, "wake")
		quiet(res.Cmds, true)
	}
	mu.Lock()
	defer mu.Unlock()
	for _, d := range cout {
		p, err := snref.Parse(d)
		if err != nil {
			res.Out = append(res.Out, -9)
			continue
		}
		switch p.Type {
		case snref.DISCONNECT:
			res.Out = append(res.Out, -1)
		case snref.PINGRESP:
			res.Out = append(res.Out, -2)
		case snref.CONNACK:
			res.Out = append(res.Out, -3)
		case snref.PUBLISH:
			if len(p.Data) == 2 {
				res.Out = append(res.Out, int(p.Data[0])<<8|int(p.Data[1]))
			} else {
				res.Out = append(res.Out, -9)
			}
		default:
			res.Out = append(res.Out, -9)
		}
	}
	res.OK = true
	return res
}
