// Package gwdrv drives one real gateway session (gateway.handler1 through the
// verif-tagged export) inside a testing/synctest bubble with in-memory
// connections and records an NDJSON trace for TLC trace validation.
//
// Input : $VERIF_SCHED  (JSON array of scenarios)
// Output: $VERIF_TRACE  (NDJSON, one line per step)
//
//	$VERIF_PROGRESS (id of the scenario being executed; crash attribution)
package gwdrv

import (
	"bufio"
	"context"
	"encoding/hex"
	"encoding/json"
	"fmt"
	"os"
	"runtime"
	"strings"
	"sort"
	"strconv"
	"sync"
	"testing"
	"testing/synctest"
	"time"

	"github.com/energomonitor/bisquitt/gateway"
	"github.com/energomonitor/bisquitt/topics"
	"github.com/energomonitor/bisquitt/util"

	"verif/harness/absmap"
	"verif/harness/memnet"
	"verif/harness/mqref"
	"verif/harness/snref"
)

const tick = 100 * time.Millisecond

type PredefEntry struct {
	C  string `json:"c"`
	ID int    `json:"id"`
	N  string `json:"n"`
}

type Cfg struct {
	Auth       bool          `json:"auth"`
	HasUser    bool          `json:"hasuser"`
	User       string        `json:"user"`
	HasPass    bool          `json:"haspass"`
	Pass       string        `json:"pass"`
	RetryDelay int           `json:"retrydelay"` // ticks
	RetryCount int           `json:"retrycount"`
	TidMin     int           `json:"tidmin"`
	TidMax     int           `json:"tidmax"`
	SkipTids   int           `json:"skiptids"`
	Predef     []PredefEntry `json:"predef"`
}

type Event struct {
	E   string     `json:"e"` // cl | clraw | br | brraw | breof | adv | shutdown | gate...
	P   *absmap.Sn `json:"p,omitempty"`
	M   *absmap.Mq `json:"m,omitempty"`
	Hex string     `json:"hex,omitempty"`
	N   int        `json:"n,omitempty"`
}

type Scenario struct {
	ID     string  `json:"id"`
	Cfg    Cfg     `json:"cfg"`
	Seed   int64   `json:"seed"`
	Events []Event `json:"events"`
	// Tail: ticks to keep observing after the schedule (late writes, reaping).
	Tail int `json:"tail"`
	// BrokerModel: the harness plays a broker that enforces MQTT keep-alive:
	// it closes the connection when it has seen no packet for 1.5 x the
	// keep-alive of the CONNECT, or no CONNECT at all within 10 s.
	BrokerModel bool `json:"brokermodel"`
}

// TraceEv is the abstract event as logged (always derived from the bytes
// actually injected).
type TraceEv struct {
	T   string    `json:"t"` // Reset | C | CRaw | B | BRaw | BEof | Adv | Shutdown | End
	P   absmap.Sn `json:"p"`
	M   absmap.Mq `json:"m"`
	N   int       `json:"n"`
	Cfg *Cfg      `json:"cfg,omitempty"`
}

type RegEntry struct {
	ID int    `json:"id"`
	N  string `json:"n"`
}

type Line struct {
	Tr      string      `json:"tr"`
	I       int         `json:"i"`
	Now     int         `json:"now"` // ticks since scenario start
	Ev      TraceEv     `json:"ev"`
	OutC    []absmap.Sn `json:"outC"`
	OutB    []absmap.Mq `json:"outB"`
	BJunk   bool        `json:"bjunk"`   // unparseable bytes on the broker connection
	BClosed bool        `json:"bclosed"` // gateway closed the broker connection
	Ended   bool        `json:"ended"`   // run() returned
	St      string      `json:"st"`
	NBuf    int         `json:"nbuf"`
	Pend    []int       `json:"pend"`
	Reg     []RegEntry  `json:"reg"`
	Leaked  int         `json:"leaked"`
	Skipped bool        `json:"skipped"` // event not injected (session already ended)
}

type quietLogger struct{}

func (quietLogger) Debug(string, ...interface{}) {}
func (quietLogger) Info(string, ...interface{})  {}
func (quietLogger) Error(string, ...interface{}) {}
func (l quietLogger) WithTag(string) util.Logger { return l }
func (quietLogger) Sync()                        {}

type collector struct {
	mu  sync.Mutex
	c   [][]byte
	b   []byte
	bcl bool
}

func TestDrive(t *testing.T) {
	in := os.Getenv("VERIF_SCHED")
	out := os.Getenv("VERIF_TRACE")
	if in == "" || out == "" {
		t.Skip("VERIF_SCHED/VERIF_TRACE not set")
	}
	raw, err := os.ReadFile(in)
	if err != nil {
		t.Fatal(err)
	}
	var scs []Scenario
	if err := json.Unmarshal(raw, &scs); err != nil {
		t.Fatal(err)
	}
	f, err := os.Create(out)
	if err != nil {
		t.Fatal(err)
	}
	defer f.Close()
	w := bufio.NewWriter(f)
	defer w.Flush()
	prog := os.Getenv("VERIF_PROGRESS")
	for _, sc := range scs {
		if prog != "" {
			os.WriteFile(prog, []byte(sc.ID), 0o644)
		}
		sc := sc
		emit := func(l Line) {
			b, err := json.Marshal(l)
			if err != nil {
				panic(err)
			}
			w.Write(b)
			w.WriteByte('\n')
			w.Flush()
		}
		synctest.Test(t, func(t *testing.T) { runScenario(sc, emit) })
	}
	if prog != "" {
		os.WriteFile(prog, []byte("DONE"), 0o644)
	}
}

func mkPredef(es []PredefEntry) topics.PredefinedTopics {
	p := topics.PredefinedTopics{}
	for _, e := range es {
		p.Add(e.C, string(absmap.DecName(e.N)), uint16(e.ID))
	}
	return p
}

func runScenario(sc Scenario, emit func(Line)) {
	col := &collector{}
	brokerConn := memnet.NewStream("mq", func(b []byte) {
		col.mu.Lock()
		col.b = append(col.b, b...)
		col.mu.Unlock()
	}, func() {
		col.mu.Lock()
		col.bcl = true
		col.mu.Unlock()
	})
	snConn := memnet.NewDatagram("sn", func(b []byte) {
		col.mu.Lock()
		col.c = append(col.c, b)
		col.mu.Unlock()
	}, nil)

	vc := gateway.VerifConfig{
		AuthEnabled: sc.Cfg.Auth,
		RetryDelay:  time.Duration(sc.Cfg.RetryDelay) * tick,
		RetryCount:  uint(sc.Cfg.RetryCount),
		TopicIDMin:  uint16(sc.Cfg.TidMin),
		TopicIDMax:  uint16(sc.Cfg.TidMax),
	}
	if sc.Cfg.HasUser {
		u := string(absmap.DecName(sc.Cfg.User))
		vc.MqttUser = &u
	}
	if sc.Cfg.HasPass {
		vc.MqttPassword = absmap.DecName(sc.Cfg.Pass)
	}
	base := runtime.NumGoroutine()
	sess := gateway.NewVerifSession(vc, mkPredef(sc.Cfg.Predef), quietLogger{}, brokerConn)
	if sc.Cfg.SkipTids > 0 {
		sess.SkipTopicIDs(sc.Cfg.SkipTids)
	}
	ctx, cancel := context.WithCancel(context.Background())
	done := make(chan struct{})
	go func() {
		sess.Run(ctx, snConn)
		snConn.Close() // what Gateway.ListenAndServe does after run returns
		close(done)
	}()
	synctest.Wait()

	start := time.Now()
	nowTicks := func() int { return int(time.Since(start) / tick) }
	ended := func() bool {
		select {
		case <-done:
			return true
		default:
			return false
		}
	}
	idx := 0
	var brest []byte
	bmKa, bmLast, bmClosed := -1, 0, false // broker model: keep-alive (ticks), last packet seen
	leakChecked := false
	snapshot := func(ev TraceEv) Line {
		col.mu.Lock()
		cs := col.c
		col.c = nil
		bs := append(brest, col.b...)
		col.b = nil
		bcl := col.bcl
		col.mu.Unlock()
		l := Line{Tr: sc.ID, I: idx, Now: nowTicks(), Ev: ev, OutC: []absmap.Sn{}, OutB: []absmap.Mq{},
			BClosed: bcl, Ended: ended(), Pend: []int{}, Reg: []RegEntry{}}
		idx++
		for _, d := range cs {
			l.OutC = append(l.OutC, absmap.SnFromWire(d, 8192))
		}
		pk, rest, err := mqref.Split(bs)
		brest = rest
		if err != nil {
			l.BJunk = true
			brest = nil
		}
		for _, raw := range pk {
			m := absmap.MqFromPkt(mqref.Parse(raw))
			l.OutB = append(l.OutB, m)
			if m.T == "CONNECT" {
				bmKa = m.Ka * 10
			}
			bmLast = l.Now
		}
		if l.Ended && len(brest) > 0 {
			l.BJunk = true
		}
		if l.Ended && !leakChecked {
			// first observation after run() returned (the bubble is quiescent: every remaining goroutine
			// is blocked): goroutines with frames of the code under test have outlived their session
			leakChecked = true
			l.Leaked = sessionGoroutines()
		}
		l.St = sess.State().String()
		l.NBuf = sess.Buffered()
		for _, id := range sess.PendingIDs() {
			l.Pend = append(l.Pend, int(id))
		}
		reg := sess.Registered()
		for id, n := range reg {
			l.Reg = append(l.Reg, RegEntry{ID: int(id), N: absmap.EncName([]byte(n))})
		}
		sort.Slice(l.Reg, func(i, j int) bool { return l.Reg[i].ID < l.Reg[j].ID })
		if ev.P.T == "" {
			l.Ev.P.T = "NONE"
		}
		if ev.M.T == "" {
			l.Ev.M.T = "NONE"
		}
		if l.Ev.M.Codes == nil {
			l.Ev.M.Codes = []int{}
		}
		if l.Ev.M.Problems == nil {
			l.Ev.M.Problems = []string{}
		}
		return l
	}
	has := func(l Line) bool {
		return len(l.OutC) > 0 || len(l.OutB) > 0 || l.BJunk
	}
	cfg := sc.Cfg
	if cfg.Predef == nil {
		cfg.Predef = []PredefEntry{}
	}
	emit(snapshot(TraceEv{T: "Reset", Cfg: &cfg}))

	// advance n ticks, emitting a line for each eventful tick and one for the
	// trailing quiet period
	advance := func(n int) {
		quiet := 0
		wasEnded, wasClosed := ended(), false
		col.mu.Lock()
		wasClosed = col.bcl
		col.mu.Unlock()
		for i := 0; i < n; i++ {
			time.Sleep(tick)
			synctest.Wait()
			quiet++
			l := snapshot(TraceEv{T: "Adv", N: quiet})
			if has(l) || l.Ended != wasEnded || l.BClosed != wasClosed {
				emit(l)
				quiet = 0
				wasEnded, wasClosed = l.Ended, l.BClosed
			} else {
				idx--
			}
			if sc.BrokerModel && !bmClosed && !l.Ended {
				now := nowTicks()
				if (bmKa < 0 && now >= 100) || (bmKa > 0 && 2*(now-bmLast) >= 3*bmKa) {
					if quiet > 0 {
						emit(snapshot(TraceEv{T: "Adv", N: quiet}))
						quiet = 0
					}
					bmClosed = true
					brokerConn.InjectEOF()
					synctest.Wait()
					l2 := snapshot(TraceEv{T: "BEof"})
					emit(l2)
					wasEnded, wasClosed = l2.Ended, l2.BClosed
				}
			}
		}
		if quiet > 0 {
			emit(snapshot(TraceEv{T: "Adv", N: quiet}))
		}
	}

	for _, e := range sc.Events {
		if ended() && e.E != "adv" {
			l := snapshot(TraceEv{T: "Skip"})
			l.Skipped = true
			emit(l)
			continue
		}
		switch e.E {
		case "cl", "clraw":
			var d []byte
			if e.E == "cl" {
				d = snref.Encode(absmap.SnToPkt(*e.P, sc.Seed))
			} else {
				d, _ = hex.DecodeString(e.Hex)
			}
			ev := TraceEv{T: "C", P: absmap.SnFromWire(d, 1<<20)}
			if ev.P.T == "JUNK" {
				ev.T = "CRaw"
			}
			snConn.Inject(d)
			synctest.Wait()
			emit(snapshot(ev))
		case "br", "brraw":
			var d []byte
			if e.E == "br" {
				d = mqref.Encode(absmap.MqToPkt(*e.M, sc.Seed))
			} else {
				d, _ = hex.DecodeString(e.Hex)
			}
			ev := TraceEv{T: "BRaw"}
			if pk, rest, err := mqref.Split(d); err == nil && len(rest) == 0 && len(pk) == 1 {
				m := absmap.MqFromPkt(mqref.Parse(pk[0]))
				if len(mqref.Parse(pk[0]).Problems) == 0 {
					ev = TraceEv{T: "B", M: m}
				}
			}
			brokerConn.Inject(d)
			synctest.Wait()
			emit(snapshot(ev))
		case "breof":
			brokerConn.InjectEOF()
			synctest.Wait()
			emit(snapshot(TraceEv{T: "BEof"}))
		case "adv":
			advance(e.N)
		case "shutdown":
			cancel()
			synctest.Wait()
			emit(snapshot(TraceEv{T: "Shutdown"}))
		default:
			panic("unknown event " + e.E)
		}
	}
	if sc.Tail > 0 {
		advance(sc.Tail)
	}
	// epilogue: stop the session (if still running) and look for leaks
	cancel()
	for i := 0; i < 20 && !ended(); i++ {
		time.Sleep(tick)
		synctest.Wait()
	}
	// let pending timers of the dead session fire (late writes are output after End)
	time.Sleep(time.Duration((sc.Cfg.RetryCount+2)*sc.Cfg.RetryDelay+60) * tick)
	synctest.Wait()
	l := snapshot(TraceEv{T: "End"})
	// Goroutines of the session that are still blocked when the bubble's root
	// returns make synctest.Test panic ("blocked goroutines remain"): that is the
	// leak oracle (a goroutine count would be disturbed by neighbouring bubbles).
	_ = base
	if !l.Ended {
		l.Leaked += 1000
	}
	emit(l)
	if !l.Ended {
		// cannot leave the bubble cleanly; report and die
		fmt.Fprintf(os.Stderr, "HARNESS: session %s did not end\n", sc.ID)
		os.Exit(3)
	}
	_ = strconv.Itoa
}

// sessionGoroutines counts the goroutines that are executing code of the repository under test
// (a stack frame in github.com/energomonitor/bisquitt/) - the driver runs one scenario at a time,
// so they all belong to the session of the current scenario.
func sessionGoroutines() int {
	buf := make([]byte, 1<<20)
	n := runtime.Stack(buf, true)
	cnt := 0
	for _, g := range strings.Split(string(buf[:n]), "\n\n") {
		if strings.Contains(g, "github.com/energomonitor/bisquitt/") && !strings.Contains(g, "sessionGoroutines") {
			cnt++
		}
	}
	return cnt
}
