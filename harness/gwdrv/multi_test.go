package gwdrv

// Several real sessions created the way Gateway.ListenAndServe creates them
// (one shared handler configuration, predefined-topic map and logger), driven
// with interleaved schedules in one synctest bubble.  Each session's
// observations are written as its own trace (tr = "<scenario>#<k>") so that the
// single-session trace spec can judge every projection separately (C15).

import (
	"bufio"
	"context"
	"encoding/hex"
	"encoding/json"
	"net"
	"os"
	"sort"
	"testing"
	"testing/synctest"
	"time"

	"github.com/energomonitor/bisquitt/gateway"

	"verif/harness/absmap"
	"verif/harness/memnet"
	"verif/harness/mqref"
	"verif/harness/snref"
)

type MultiEvent struct {
	S int `json:"s"` // session index
	Event
}

type MultiScenario struct {
	ID       string       `json:"id"`
	Cfg      Cfg          `json:"cfg"`
	Seed     int64        `json:"seed"`
	Sessions int          `json:"sessions"`
	Events   []MultiEvent `json:"events"`
	Tail     int          `json:"tail"`
	// Burst: consecutive events of different sessions are injected together and the sessions
	// process them concurrently (one quiescence point per group instead of one per event)
	Burst bool `json:"burst"`
}

type sctl struct {
	id     string
	col    *collector
	broker *memnet.Conn
	sn     *memnet.Conn
	sess   *gateway.VerifSession
	done   chan struct{}
	idx    int
	brest  []byte
}

func (c *sctl) ended() bool {
	select {
	case <-c.done:
		return true
	default:
		return false
	}
}

func (c *sctl) snapshot(ev TraceEv, now int) Line {
	c.col.mu.Lock()
	cs := c.col.c
	c.col.c = nil
	bs := append(c.brest, c.col.b...)
	c.col.b = nil
	bcl := c.col.bcl
	c.col.mu.Unlock()
	l := Line{Tr: c.id, I: c.idx, Now: now, Ev: ev, OutC: []absmap.Sn{}, OutB: []absmap.Mq{},
		BClosed: bcl, Ended: c.ended(), Pend: []int{}, Reg: []RegEntry{}}
	c.idx++
	for _, d := range cs {
		l.OutC = append(l.OutC, absmap.SnFromWire(d, 8192))
	}
	pk, rest, err := mqref.Split(bs)
	c.brest = rest
	if err != nil {
		l.BJunk = true
		c.brest = nil
	}
	for _, raw := range pk {
		l.OutB = append(l.OutB, absmap.MqFromPkt(mqref.Parse(raw)))
	}
	l.St = c.sess.State().String()
	l.NBuf = c.sess.Buffered()
	for _, id := range c.sess.PendingIDs() {
		l.Pend = append(l.Pend, int(id))
	}
	for id, n := range c.sess.Registered() {
		l.Reg = append(l.Reg, RegEntry{ID: int(id), N: absmap.EncName([]byte(n))})
	}
	sort.Slice(l.Reg, func(i, j int) bool { return l.Reg[i].ID < l.Reg[j].ID })
	if l.Ev.P.T == "" {
		l.Ev.P.T = "NONE"
	}
	if l.Ev.M.T == "" {
		l.Ev.M.T = "NONE"
	}
	if l.Ev.M.Codes == nil {
		l.Ev.M.Codes = []int{}
	}
	if l.Ev.M.Problems == nil {
		l.Ev.M.Problems = []string{}
	}
	return l
}

func TestMulti(t *testing.T) {
	in := os.Getenv("VERIF_SCHED")
	out := os.Getenv("VERIF_TRACE")
	if in == "" || out == "" {
		t.Skip("VERIF_SCHED/VERIF_TRACE not set")
	}
	raw, err := os.ReadFile(in)
	if err != nil {
		t.Fatal(err)
	}
	var scs []MultiScenario
	if err := json.Unmarshal(raw, &scs); err != nil {
		t.Fatal(err)
	}
	f, err := os.Create(out)
	if err != nil {
		t.Fatal(err)
	}
	defer f.Close()
	w := bufio.NewWriter(f)
	defer w.Flush()
	prog := os.Getenv("VERIF_PROGRESS")
	for _, sc := range scs {
		if prog != "" {
			os.WriteFile(prog, []byte(sc.ID), 0o644)
		}
		sc := sc
		emit := func(l Line) {
			b, _ := json.Marshal(l)
			w.Write(b)
			w.WriteByte('\n')
			w.Flush()
		}
		synctest.Test(t, func(t *testing.T) { runMulti(sc, emit) })
	}
	if prog != "" {
		os.WriteFile(prog, []byte("DONE"), 0o644)
	}
}

func runMulti(sc MultiScenario, emit func(Line)) {
	n := sc.Sessions
	if n < 1 {
		n = 1
	}
	vc := gateway.VerifConfig{
		AuthEnabled: sc.Cfg.Auth,
		RetryDelay:  time.Duration(sc.Cfg.RetryDelay) * tick,
		RetryCount:  uint(sc.Cfg.RetryCount),
		TopicIDMin:  uint16(sc.Cfg.TidMin),
		TopicIDMax:  uint16(sc.Cfg.TidMax),
	}
	if sc.Cfg.HasUser {
		u := string(absmap.DecName(sc.Cfg.User))
		vc.MqttUser = &u
	}
	if sc.Cfg.HasPass {
		vc.MqttPassword = absmap.DecName(sc.Cfg.Pass)
	}
	ctls := make([]*sctl, n)
	conns := make([]net.Conn, n)
	for k := 0; k < n; k++ {
		col := &collector{}
		c := &sctl{id: sc.ID + "#" + string(rune('0'+k)), col: col, done: make(chan struct{})}
		c.broker = memnet.NewStream("mq", func(b []byte) {
			col.mu.Lock()
			col.b = append(col.b, b...)
			col.mu.Unlock()
		}, func() {
			col.mu.Lock()
			col.bcl = true
			col.mu.Unlock()
		})
		c.sn = memnet.NewDatagram("sn", func(b []byte) {
			col.mu.Lock()
			col.c = append(col.c, b)
			col.mu.Unlock()
		}, nil)
		c.sn.YieldOnWrite = sc.Burst
		ctls[k] = c
		conns[k] = c.broker
	}
	sessions := gateway.NewVerifSessionGroup(vc, mkPredef(sc.Cfg.Predef), quietLogger{}, conns)
	ctx, cancel := context.WithCancel(context.Background())
	for k, c := range ctls {
		c.sess = sessions[k]
		c := c
		go func() {
			c.sess.Run(ctx, c.sn)
			c.sn.Close()
			close(c.done)
		}()
	}
	synctest.Wait()
	start := time.Now()
	now := func() int { return int(time.Since(start) / tick) }
	cfg := sc.Cfg
	if cfg.Predef == nil {
		cfg.Predef = []PredefEntry{}
	}
	for _, c := range ctls {
		emit(c.snapshot(TraceEv{T: "Reset", Cfg: &cfg}, now()))
	}
	// every session gets a line for every step of every other session (event "Adv 0"):
	// what another client does must not show up here
	others := func(k int) {
		for j, c := range ctls {
			if j != k {
				emit(c.snapshot(TraceEv{T: "Adv", N: 0}, now()))
			}
		}
	}
	advance := func(nt int) {
		for i := 0; i < nt; i++ {
			time.Sleep(tick)
			synctest.Wait()
			for _, c := range ctls {
				emit(c.snapshot(TraceEv{T: "Adv", N: 1}, now()))
			}
		}
	}
	// inject prepares one event: it returns the trace event and the function that hands the
	// bytes to the session (nil: the session has ended, the event is skipped)
	prepare := func(e MultiEvent) (TraceEv, func()) {
		c := ctls[e.S%n]
		switch e.E {
		case "cl", "clraw":
			var d []byte
			if e.E == "cl" {
				d = snref.Encode(absmap.SnToPkt(*e.P, sc.Seed))
			} else {
				d, _ = hex.DecodeString(e.Hex)
			}
			ev := TraceEv{T: "C", P: absmap.SnFromWire(d, 1<<20)}
			if ev.P.T == "JUNK" {
				ev.T = "CRaw"
			}
			return ev, func() { c.sn.Inject(d) }
		case "br", "brraw":
			var d []byte
			if e.E == "br" {
				d = mqref.Encode(absmap.MqToPkt(*e.M, sc.Seed))
			} else {
				d, _ = hex.DecodeString(e.Hex)
			}
			ev := TraceEv{T: "BRaw"}
			if pk, rest, err := mqref.Split(d); err == nil && len(rest) == 0 && len(pk) == 1 {
				if p := mqref.Parse(pk[0]); len(p.Problems) == 0 {
					ev = TraceEv{T: "B", M: absmap.MqFromPkt(p)}
				}
			}
			return ev, func() { c.broker.Inject(d) }
		case "breof":
			return TraceEv{T: "BEof"}, func() { c.broker.InjectEOF() }
		default:
			panic("unknown event " + e.E)
		}
	}
	for i := 0; i < len(sc.Events); i++ {
		e := sc.Events[i]
		if e.E == "adv" {
			advance(e.N)
			continue
		}
		if e.E == "shutdown" {
			cancel()
			synctest.Wait()
			for _, c := range ctls {
				emit(c.snapshot(TraceEv{T: "Shutdown"}, now()))
			}
			continue
		}
		// the group of events handled before the next quiescence point: one event, or (Burst) the
		// following events as long as each belongs to another session
		group := []MultiEvent{e}
		if sc.Burst {
			in := map[int]bool{e.S % n: true}
			for i+1 < len(sc.Events) {
				nx := sc.Events[i+1]
				if nx.E == "adv" || nx.E == "shutdown" || in[nx.S%n] {
					break
				}
				in[nx.S%n] = true
				group = append(group, nx)
				i++
			}
		}
		evs := make([]TraceEv, len(group))
		skipped := make([]bool, len(group))
		var fire []func()
		for j, g := range group {
			if ctls[g.S%n].ended() {
				skipped[j] = true
				continue
			}
			ev, f := prepare(g)
			evs[j] = ev
			fire = append(fire, f)
		}
		for _, f := range fire {
			f()
		}
		synctest.Wait()
		for j, g := range group {
			c := ctls[g.S%n]
			if skipped[j] {
				l := c.snapshot(TraceEv{T: "Skip"}, now())
				l.Skipped = true
				emit(l)
			} else {
				emit(c.snapshot(evs[j], now()))
			}
		}
		for _, g := range group {
			if len(group) == 1 {
				others(g.S % n)
			}
		}
	}
	if sc.Tail > 0 {
		advance(sc.Tail)
	}
	cancel()
	for i := 0; i < 20; i++ {
		all := true
		for _, c := range ctls {
			all = all && c.ended()
		}
		if all {
			break
		}
		time.Sleep(tick)
		synctest.Wait()
	}
	time.Sleep(time.Duration((sc.Cfg.RetryCount+2)*sc.Cfg.RetryDelay+60) * tick)
	synctest.Wait()
	for _, c := range ctls {
		emit(c.snapshot(TraceEv{T: "End"}, now()))
	}
}
