// Package clidrv runs the three bisquitt binaries (built by families/cli.py
// from the tree under test) over loopback against scripted peers and records
// what they do as NDJSON for TLC (tla/Trace_Cli.tla) to judge.
//
//	TestDrive     C30 / C31 command-line cases ($VERIF_SCHED -> $VERIF_TRACE)
//	TestDriveLib  C31 client-library Connect()/AUTH schedules in a synctest bubble
//
// The driver never interprets an observation: it only says what was seen
// (SUBSCRIBE topic at the fake broker, topic-id type on the wire, first
// datagrams, exit status).  Anything it could not observe within the (generous)
// time bounds is reported as `inconclusive`, never as an observation.
package clidrv

import (
	"bufio"
	"bytes"
	"encoding/json"
	"errors"
	"fmt"
	"io"
	"net"
	"os"
	"os/exec"
	"path/filepath"
	"sort"
	"strconv"
	"strings"
	"sync"
	"syscall"
	"testing"
	"time"

	"verif/harness/mqref"
	"verif/harness/snref"
)

// ---------------------------------------------------------------- schedule / trace formats

type Entry struct {
	C  string `json:"c"`
	ID int    `json:"id"`
	N  string `json:"n"`
}

type Opt struct {
	HasC bool   `json:"hasc"`
	C    string `json:"c"`
	N    string `json:"n"`
	ID   int    `json:"id"`
}

type Case struct {
	K  string `json:"k"` // c30 | c31
	ID string `json:"id"`
	// c30
	HasFile bool     `json:"hasfile"`
	File    []Entry  `json:"file"`
	Opts    []Opt    `json:"opts"`
	Clients []string `json:"clients"`
	Ids     []int    `json:"ids"`
	Names   []string `json:"names"`
	Tools   []string `json:"tools"` // subset of the three tools (default: all)
	// c31
	Tool  string `json:"tool"`
	Cred  string `json:"cred"`
	Pw    string `json:"pw"`
	Dtls  string `json:"dtls"`
	Insec string `json:"insec"`
	Empty bool   `json:"empty"`
}

type Sched struct {
	Bins      map[string]string `json:"bins"`
	Workers   int               `json:"workers"`
	WaitMs    int               `json:"wait_ms"`    // bound of every positive wait
	AbsenceMs int               `json:"absence_ms"` // how long "nothing happens" is watched
	DeadlineS int               `json:"deadline_s"` // watchdog for the whole run
	SoftS     int               `json:"soft_s"`     // no new case is started after this many seconds (0 = none)
	Cases     []Case            `json:"cases"`
}

// Obs30 is one query put to one tool.
type Obs30 struct {
	Tool string `json:"tool"`
	C    string `json:"c"`
	QID  int    `json:"qid"` // gateway query: predefined id subscribed to (0 otherwise)
	QN   string `json:"qn"`  // pub/sub query: topic name given with -t ("" otherwise)
	Kind string `json:"kind"`
	// gateway : sub (broker saw SUBSCRIBE n) | closed (session ended, nothing forwarded)
	// pub     : predef (PUBLISH topic-id type 1, id) | reg (REGISTER n) | short | nostart | other
	// sub     : predef (SUBSCRIBE topic-id type 1, id) | str (SUBSCRIBE by name n) | short | nostart | other
	ID   int    `json:"id"`
	N    string `json:"n"`
	RC   int    `json:"rc"` // exit status (-1: still running when killed)
	Note string `json:"note"`
}

type Line30 struct {
	K            string  `json:"k"`
	ID           string  `json:"id"`
	HasFile      bool    `json:"hasfile"`
	File         []Entry `json:"file"`
	Opts         []Opt   `json:"opts"`
	Argv         string  `json:"argv"`
	Obs          []Obs30 `json:"obs"`
	Inconclusive string  `json:"inconclusive"`
}

type Line31 struct {
	K     string `json:"k"`
	ID    string `json:"id"`
	Tool  string `json:"tool"`
	Cred  string `json:"cred"`
	Pw    string `json:"pw"`
	Dtls  string `json:"dtls"`
	Insec string `json:"insec"`
	Empty bool   `json:"empty"`
	// clients: refused | connect | connect-auth | dtls | other ; gateway: refused | listen | other
	Obs       string   `json:"obs"`
	RC        int      `json:"rc"`
	Wire      []string `json:"wire"`      // what was seen in clear, in order
	AuthOK    bool     `json:"authok"`    // the AUTH seen carries the configured user/password
	PlainAuth string   `json:"plainauth"` // gateway: accepted | none | n/a (plaintext CONNECT+AUTH probe)
	Argv      string   `json:"argv"`
	Env       string   `json:"env"`
	Note      string   `json:"note"`

	Inconclusive string `json:"inconclusive"`
}

// ---------------------------------------------------------------- processes

var (
	liveMu sync.Mutex
	live   = map[*proc]bool{}
)

type proc struct {
	cmd  *exec.Cmd
	done chan struct{}
	rc   int
	out  bytes.Buffer
}

// baseEnv: the tools read many environment variables (HOST, PORT, USERNAME, ...);
// they get nothing but what a case sets explicitly.
func baseEnv() []string {
	return []string{"PATH=/usr/local/bin:/usr/bin:/bin", "HOME=/nonexistent", "GOMAXPROCS=2"}
}

func startProc(bin string, args []string, env []string) (*proc, error) {
	p := &proc{done: make(chan struct{}), rc: -1}
	p.cmd = exec.Command(bin, args...)
	p.cmd.Env = append(baseEnv(), env...)
	p.cmd.Stdout = &p.out
	p.cmd.Stderr = &p.out
	p.cmd.Stdin = nil
	if err := p.cmd.Start(); err != nil {
		return nil, err
	}
	liveMu.Lock()
	live[p] = true
	liveMu.Unlock()
	go func() {
		err := p.cmd.Wait()
		rc := 0
		if err != nil {
			rc = -2
			var ee *exec.ExitError
			if errors.As(err, &ee) {
				rc = ee.ExitCode() // -1 when killed by a signal
				if rc < 0 {
					rc = -1
				}
			}
		}
		p.rc = rc
		liveMu.Lock()
		delete(live, p)
		liveMu.Unlock()
		close(p.done)
	}()
	return p, nil
}

func (p *proc) exited() bool {
	select {
	case <-p.done:
		return true
	default:
		return false
	}
}

// kill terminates the process (if still running) and waits for it.
func (p *proc) kill() {
	if !p.exited() {
		p.cmd.Process.Signal(syscall.SIGKILL)
	}
	<-p.done
}

func killAll() {
	liveMu.Lock()
	for p := range live {
		p.cmd.Process.Signal(syscall.SIGKILL)
	}
	liveMu.Unlock()
}

// boundUDPPort returns the local port of an unconnected UDP socket on 127.0.0.1 owned by pid
// (0 if there is none).  This is how "the gateway is listening" is observed, for
// plain and DTLS listeners alike, without sending anything and without reading logs.
func boundUDPPort(pid int) int {
	fds, err := os.ReadDir(fmt.Sprintf("/proc/%d/fd", pid))
	if err != nil {
		return 0
	}
	inodes := map[string]bool{}
	for _, f := range fds {
		l, err := os.Readlink(fmt.Sprintf("/proc/%d/fd/%s", pid, f.Name()))
		if err == nil && strings.HasPrefix(l, "socket:[") {
			inodes[l[8:len(l)-1]] = true
		}
	}
	if len(inodes) == 0 {
		return 0
	}
	raw, err := os.ReadFile("/proc/net/udp")
	if err != nil {
		return 0
	}
	for _, ln := range strings.Split(string(raw), "\n")[1:] {
		f := strings.Fields(ln)
		if len(f) < 10 || !inodes[f[9]] {
			continue
		}
		la := strings.Split(f[1], ":")
		ra := strings.Split(f[2], ":")
		if len(la) != 2 || len(ra) != 2 || la[0] != "0100007F" || ra[1] != "0000" {
			continue
		}
		port, err := strconv.ParseInt(la[1], 16, 32)
		if err == nil && port > 0 {
			return int(port)
		}
	}
	return 0
}

// waitBoundOrExit polls until the process owns a bound UDP socket (returns its port),
// exits (returns 0, nil) or the bound elapses (error).
func waitBoundOrExit(p *proc, bound time.Duration) (int, error) {
	dl := time.Now().Add(bound)
	for {
		if port := boundUDPPort(p.cmd.Process.Pid); port != 0 {
			return port, nil
		}
		if p.exited() {
			return 0, nil
		}
		if time.Now().After(dl) {
			return 0, fmt.Errorf("neither listening nor exited after %v", bound)
		}
		time.Sleep(3 * time.Millisecond)
	}
}

// ---------------------------------------------------------------- fake MQTT broker (TCP)

type mqConn struct {
	c   net.Conn
	buf []byte
}

// next returns the next MQTT packet, io.EOF when the peer closed, or a timeout error.
func (m *mqConn) next(dl time.Time) (mqref.Pkt, error) {
	for {
		pk, rest, err := mqref.Split(m.buf)
		if err != nil {
			return mqref.Pkt{}, fmt.Errorf("junk on broker connection: %v", err)
		}
		if len(pk) > 0 {
			m.buf = append([]byte(nil), m.buf[len(pk[0]):]...)
			_ = rest
			return mqref.Parse(pk[0]), nil
		}
		m.c.SetReadDeadline(dl)
		tmp := make([]byte, 4096)
		n, err := m.c.Read(tmp)
		if n > 0 {
			m.buf = append(m.buf, tmp[:n]...)
			continue
		}
		if err != nil {
			var ne net.Error
			if errors.As(err, &ne) && ne.Timeout() {
				return mqref.Pkt{}, err
			}
			return mqref.Pkt{}, io.EOF // closed or reset: the peer is gone
		}
	}
}

func isTimeout(err error) bool {
	var ne net.Error
	return errors.As(err, &ne) && ne.Timeout()
}

// ---------------------------------------------------------------- fake MQTT-SN peer (UDP)

type dgram struct {
	b    []byte
	from *net.UDPAddr
}

type snPeer struct {
	pc   *net.UDPConn
	port int
	ch   chan dgram
}

func newSnPeer() (*snPeer, error) {
	pc, err := net.ListenUDP("udp4", &net.UDPAddr{IP: net.IPv4(127, 0, 0, 1), Port: 0})
	if err != nil {
		return nil, err
	}
	e := &snPeer{pc: pc, port: pc.LocalAddr().(*net.UDPAddr).Port, ch: make(chan dgram, 256)}
	go func() {
		for {
			buf := make([]byte, 65536)
			n, from, err := pc.ReadFromUDP(buf)
			if err != nil {
				close(e.ch)
				return
			}
			e.ch <- dgram{buf[:n], from}
		}
	}()
	return e, nil
}

func (e *snPeer) send(p snref.Pkt, to *net.UDPAddr) { e.pc.WriteToUDP(snref.Encode(p), to) }
func (e *snPeer) close()                            { e.pc.Close() }

// ---------------------------------------------------------------- argv helpers

func optString(o Opt) string {
	if o.HasC {
		return fmt.Sprintf("%s;%s;%d", o.C, o.N, o.ID)
	}
	return fmt.Sprintf("%s;%d", o.N, o.ID)
}

func yamlOf(es []Entry) string {
	if len(es) == 0 {
		return "{}\n"
	}
	by := map[string][]Entry{}
	var keys []string
	for _, e := range es {
		if _, ok := by[e.C]; !ok {
			keys = append(keys, e.C)
		}
		by[e.C] = append(by[e.C], e)
	}
	sort.Strings(keys)
	var b strings.Builder
	for _, k := range keys {
		fmt.Fprintf(&b, "%q:\n", k)
		for _, e := range by[k] {
			fmt.Fprintf(&b, "  %d: %q\n", e.ID, e.N)
		}
	}
	return b.String()
}

type runner struct {
	s      Sched
	tmp    string
	wait   time.Duration
	absent time.Duration
}

func (r *runner) topicArgs(c Case) ([]string, error) {
	var a []string
	if c.HasFile {
		p := filepath.Join(r.tmp, c.ID+".yaml")
		if err := os.WriteFile(p, []byte(yamlOf(c.File)), 0o644); err != nil {
			return nil, err
		}
		a = append(a, "--predefined-topics-file", p)
	}
	for _, o := range c.Opts {
		a = append(a, "--predefined-topic", optString(o))
	}
	return a, nil
}

// ---------------------------------------------------------------- C30

func wants(c Case, tool string) bool {
	if len(c.Tools) == 0 {
		return true
	}
	for _, t := range c.Tools {
		if t == tool {
			return true
		}
	}
	return false
}

func (r *runner) runC30(c Case) Line30 {
	l := Line30{K: "c30", ID: c.ID, HasFile: c.HasFile, File: c.File, Opts: c.Opts, Obs: []Obs30{}}
	if l.File == nil {
		l.File = []Entry{}
	}
	if l.Opts == nil {
		l.Opts = []Opt{}
	}
	targs, err := r.topicArgs(c)
	if err != nil {
		l.Inconclusive = "cannot write the topics file: " + err.Error()
		return l
	}
	l.Argv = strings.Join(targs, " ")
	fail := func(f string, a ...interface{}) {
		if l.Inconclusive == "" {
			l.Inconclusive = fmt.Sprintf(f, a...)
		}
	}
	if wants(c, "bisquitt") {
		obs, err := r.probeGateway(c, targs)
		if err != nil {
			fail("bisquitt: %v", err)
		}
		l.Obs = append(l.Obs, obs...)
	}
	for _, tool := range []string{"bisquitt-pub", "bisquitt-sub"} {
		if !wants(c, tool) {
			continue
		}
		for _, cl := range c.Clients {
			for _, n := range c.Names {
				o, err := r.probeClientTool(tool, cl, n, targs)
				if err != nil {
					fail("%s -i %s -t %s: %v", tool, cl, n, err)
					continue
				}
				l.Obs = append(l.Obs, o)
			}
		}
	}
	return l
}

// probeGateway starts `bisquitt` with the configuration and, for every (client, id),
// opens a fresh session (new UDP socket), CONNECTs as the client and SUBSCRIBEs to the
// predefined id; the fake broker reports the topic name of the MQTT SUBSCRIBE it
// receives, or that the gateway dropped the session.
func (r *runner) probeGateway(c Case, targs []string) ([]Obs30, error) {
	ln, err := net.Listen("tcp4", "127.0.0.1:0")
	if err != nil {
		return nil, err
	}
	defer ln.Close()
	bport := ln.Addr().(*net.TCPAddr).Port
	args := append([]string{"--host", "127.0.0.1", "--port", "0", "--mqtt-host", "127.0.0.1",
		"--mqtt-port", strconv.Itoa(bport)}, targs...)
	p, err := startProc(r.s.Bins["bisquitt"], args, nil)
	if err != nil {
		return nil, err
	}
	defer p.kill()
	port, err := waitBoundOrExit(p, r.wait)
	if err != nil {
		return nil, err
	}
	var obs []Obs30
	if port == 0 {
		// did not start: every query is answered by "nostart"
		for _, cl := range c.Clients {
			for _, id := range c.Ids {
				obs = append(obs, Obs30{Tool: "bisquitt", C: cl, QID: id, Kind: "nostart", RC: p.rc,
					Note: lastLine(p.out.String())})
			}
		}
		return obs, nil
	}
	gw := &net.UDPAddr{IP: net.IPv4(127, 0, 0, 1), Port: port}
	for _, cl := range c.Clients {
		for _, id := range c.Ids {
			o, err := r.gatewaySession(ln, gw, cl, id)
			if err != nil {
				if p.exited() {
					return obs, fmt.Errorf("gateway exited (rc %d) during the probe of (%s,%d): %v: %s", p.rc, cl, id, err, lastLine(p.out.String()))
				}
				return obs, fmt.Errorf("probe (%s,%d): %v", cl, id, err)
			}
			obs = append(obs, o)
		}
	}
	return obs, nil
}

func (r *runner) gatewaySession(ln net.Listener, gw *net.UDPAddr, cl string, id int) (Obs30, error) {
	o := Obs30{Tool: "bisquitt", C: cl, QID: id, RC: -1}
	u, err := net.DialUDP("udp4", nil, gw)
	if err != nil {
		return o, err
	}
	defer u.Close()
	dl := time.Now().Add(r.wait)
	u.Write(snref.Encode(snref.Pkt{Type: snref.CONNECT, Clean: true, Duration: 600, ClientID: cl}))
	ln.(*net.TCPListener).SetDeadline(dl)
	var tc net.Conn
	var mq *mqConn
	for {
		tc, err = ln.Accept()
		if err != nil {
			return o, fmt.Errorf("no broker connection after CONNECT: %v", err)
		}
		mq = &mqConn{c: tc}
		pk, err := mq.next(dl)
		if err == nil && pk.Type == mqref.CONNECT && pk.ClientID == cl {
			break
		}
		// not this probe's connection (e.g. a left-over of an earlier session): ignore it
		tc.Close()
		if err != nil && isTimeout(err) {
			return o, fmt.Errorf("no MQTT CONNECT on the broker connection: %v", err)
		}
	}
	defer tc.Close()
	tc.Write(mqref.Encode(mqref.Pkt{Type: mqref.CONNACK, RC: 0}))
	// MQTT-SN CONNACK
	buf := make([]byte, 2048)
	u.SetReadDeadline(dl)
	n, err := u.Read(buf)
	if err != nil {
		return o, fmt.Errorf("no MQTT-SN CONNACK: %v", err)
	}
	if sp, err := snref.Parse(buf[:n]); err != nil || sp.Type != snref.CONNACK || sp.RC != 0 {
		return o, fmt.Errorf("expected CONNACK(0), got % x", buf[:n])
	}
	u.Write(snref.Encode(snref.Pkt{Type: snref.SUBSCRIBE, TIT: 1, TopicID: id, MsgID: 1, QoS: 0}))
	pk, err := mq.next(dl)
	switch {
	case err == io.EOF || (err == nil && pk.Type == mqref.DISCONNECT):
		o.Kind = "closed"
	case err != nil:
		return o, fmt.Errorf("nothing on the broker connection after SUBSCRIBE: %v", err)
	case pk.Type == mqref.SUBSCRIBE && len(pk.Topics) == 1:
		o.Kind, o.N = "sub", pk.Topics[0]
		tc.Write(mqref.Encode(mqref.Pkt{Type: mqref.SUBACK, MsgID: pk.MsgID, Codes: []int{0}}))
	default:
		o.Kind, o.Note = "other", "broker got "+pk.Name
	}
	// no DISCONNECT: a datagram from the address of a session the gateway has already dropped would
	// open a new session; the process is killed at the end of the case anyway
	return o, nil
}

func lastLine(s string) string {
	s = strings.TrimSpace(s)
	if i := strings.LastIndex(s, "\n"); i >= 0 {
		s = s[i+1:]
	}
	if len(s) > 200 {
		s = s[:200]
	}
	return s
}

// probeClientTool runs bisquitt-pub / bisquitt-sub for one (client, name) against a scripted
// gateway endpoint and reports how the name travelled: predefined id, REGISTER / SUBSCRIBE by name.
func (r *runner) probeClientTool(tool, cl, name string, targs []string) (Obs30, error) {
	o := Obs30{Tool: tool, C: cl, QN: name, RC: -1}
	e, err := newSnPeer()
	if err != nil {
		return o, err
	}
	defer e.close()
	args := []string{"--host", "127.0.0.1", "--port", strconv.Itoa(e.port), "--client-id", cl, "--topic", name}
	if tool == "bisquitt-pub" {
		args = append(args, "--message", "m")
	}
	args = append(args, targs...)
	p, err := startProc(r.s.Bins[tool], args, nil)
	if err != nil {
		return o, err
	}
	defer p.kill()
	timeout := time.After(r.wait)
	seen := false
	handle := func(d dgram) (stop bool) {
		sp, err := snref.Parse(d.b)
		if err != nil {
			if !seen {
				o.Kind, o.Note, seen = "other", fmt.Sprintf("undecodable datagram % x", d.b), true
			}
			return false
		}
		switch sp.Type {
		case snref.CONNECT:
			e.send(snref.Pkt{Type: snref.CONNACK, RC: 0}, d.from)
		case snref.REGISTER:
			if !seen {
				o.Kind, o.N, seen = "reg", sp.Topic, true
			}
			e.send(snref.Pkt{Type: snref.REGACK, TopicID: 4242, MsgID: sp.MsgID, RC: 0}, d.from)
		case snref.PUBLISH:
			if !seen {
				seen = true
				switch sp.TIT {
				case 1:
					o.Kind, o.ID = "predef", sp.TopicID
				case 2:
					o.Kind, o.ID = "short", sp.TopicID
				default:
					o.Kind, o.Note = "other", "PUBLISH with a registered id before any REGISTER"
				}
			}
			if sp.QoS == 1 {
				e.send(snref.Pkt{Type: snref.PUBACK, TopicID: sp.TopicID, MsgID: sp.MsgID}, d.from)
			}
		case snref.SUBSCRIBE:
			if !seen {
				seen = true
				switch sp.TIT {
				case 0:
					o.Kind, o.N = "str", sp.Topic
				case 1:
					o.Kind, o.ID = "predef", sp.TopicID
				default:
					o.Kind, o.ID = "short", sp.TopicID
				}
			}
			e.send(snref.Pkt{Type: snref.SUBACK, TopicID: sp.TopicID, MsgID: sp.MsgID, RC: 0}, d.from)
			return tool == "bisquitt-sub" // it would now wait for messages forever
		case snref.PINGREQ:
			e.send(snref.Pkt{Type: snref.PINGRESP}, d.from)
		case snref.DISCONNECT:
			e.send(snref.Pkt{Type: snref.DISCONNECT}, d.from)
		}
		return false
	}
	for {
		select {
		case d := <-e.ch:
			if handle(d) {
				p.kill()
				o.RC = -1
				return o, nil
			}
		case <-p.done:
			// everything the process sent is already queued on the loopback socket
			drain := time.After(50 * time.Millisecond)
		drainLoop:
			for {
				select {
				case d := <-e.ch:
					handle(d)
				case <-drain:
					break drainLoop
				}
			}
			o.RC = p.rc
			if !seen {
				if p.rc != 0 {
					o.Kind, o.Note = "nostart", lastLine(p.out.String())
				} else {
					o.Kind, o.Note = "other", "exit 0 without REGISTER/PUBLISH/SUBSCRIBE"
				}
			}
			return o, nil
		case <-timeout:
			return o, fmt.Errorf("neither finished nor showed the topic within %v (%s)", r.wait, lastLine(p.out.String()))
		}
	}
}

// ---------------------------------------------------------------- C31

const (
	probeUser = "u1"
	probePass = "p1"
)

// given: the option is present with a true value ("flag0"/"env0" = present with the value false)
func given(src string) bool { return src == "flag" || src == "env" }

func srcArgs(src string, flag []string, env []string) (a []string, e []string) {
	switch src {
	case "flag":
		return flag, nil
	case "env":
		return nil, env
	case "flag0":
		// the boolean option given with an explicit false value
		return []string{flag[0] + "=false"}, nil
	case "env0":
		return nil, []string{strings.SplitN(env[0], "=", 2)[0] + "=false"}
	}
	return nil, nil
}

func (r *runner) runC31(c Case) Line31 {
	l := Line31{K: "c31", ID: c.ID, Tool: c.Tool, Cred: c.Cred, Pw: c.Pw, Dtls: c.Dtls, Insec: c.Insec,
		Empty: c.Empty, Wire: []string{}, PlainAuth: "n/a", RC: -1}
	var args, env []string
	add := func(src string, flag []string, envv []string) {
		a, e := srcArgs(src, flag, envv)
		args = append(args, a...)
		env = append(env, e...)
	}
	add(c.Dtls, []string{"--dtls", "--self-signed"}, []string{"DTLS_ENABLED=true", "SELF_SIGNED=true"})
	add(c.Insec, []string{"--insecure"}, []string{"INSECURE=true"})
	if c.Tool == "bisquitt" {
		add(c.Cred, []string{"--auth"}, []string{"AUTH=true"})
		add(c.Pw, []string{"--mqtt-password", probePass}, []string{"MQTT_PASSWORD=" + probePass})
		r.c31Gateway(c, &l, args, env)
	} else {
		user := probeUser
		if c.Empty {
			user = ""
		}
		add(c.Cred, []string{"--user", user}, []string{"USERNAME=" + user})
		add(c.Pw, []string{"--password", probePass}, []string{"PASSWORD=" + probePass})
		r.c31Client(c, &l, args, env)
	}
	return l
}

func (r *runner) c31Client(c Case, l *Line31, xargs, env []string) {
	e, err := newSnPeer()
	if err != nil {
		l.Inconclusive = err.Error()
		return
	}
	defer e.close()
	args := []string{"--host", "127.0.0.1", "--port", strconv.Itoa(e.port), "--client-id", "c31", "--topic", "top/a"}
	if c.Tool == "bisquitt-pub" {
		args = append(args, "--message", "m")
	}
	args = append(args, xargs...)
	l.Argv, l.Env = strings.Join(args, " "), strings.Join(env, " ")
	p, err := startProc(r.s.Bins[c.Tool], args, env)
	if err != nil {
		l.Inconclusive = err.Error()
		return
	}
	defer p.kill()
	timeout := time.After(r.wait)
	wantPass := ""
	if c.Pw != "absent" {
		wantPass = probePass
	}
	connected := false
	// returns true once the observation is complete
	handle := func(d dgram) bool {
		if len(d.b) > 0 && d.b[0] == 0x16 && !connected {
			// DTLS handshake record (ClientHello): nothing in clear
			l.Obs = "dtls"
			l.Wire = append(l.Wire, "DTLS-HELLO")
			return true
		}
		sp, err := snref.Parse(d.b)
		if err != nil {
			l.Obs, l.Note = "other", fmt.Sprintf("undecodable datagram % x", d.b)
			return true
		}
		l.Wire = append(l.Wire, sp.Name)
		switch {
		case !connected && sp.Type == snref.CONNECT:
			connected = true
			// answer at once: the next datagram is then AUTH (sent right after CONNECT) or the
			// first packet of the tool's actual job -- a positive observation either way
			e.send(snref.Pkt{Type: snref.CONNACK, RC: 0}, d.from)
			return false
		case !connected:
			l.Obs, l.Note = "other", "first datagram is "+sp.Name
			return true
		case sp.Type == snref.AUTH:
			l.Obs = "connect-auth"
			l.AuthOK = sp.Method == "PLAIN" && string(sp.Data) == "\x00"+probeUser+"\x00"+wantPass
			return true
		default:
			l.Obs = "connect"
			return true
		}
	}
	for {
		select {
		case d := <-e.ch:
			if handle(d) {
				return
			}
		case <-p.done:
			drain := time.After(50 * time.Millisecond)
			for drained := false; !drained; {
				select {
				case d := <-e.ch:
					if handle(d) {
						l.RC = p.rc
						return
					}
				case <-drain:
					drained = true
				}
			}
			l.RC = p.rc
			switch {
			case connected:
				l.Obs, l.Note = "other", "exited after CONNECT without another packet: "+lastLine(p.out.String())
			case p.rc != 0:
				l.Obs, l.Note = "refused", lastLine(p.out.String())
			default:
				l.Obs, l.Note = "other", "exit 0 without any datagram"
			}
			return
		case <-timeout:
			l.Inconclusive = fmt.Sprintf("%s: neither exited nor sent anything conclusive within %v (wire %v)", c.Tool, r.wait, l.Wire)
			return
		}
	}
}

func (r *runner) c31Gateway(c Case, l *Line31, xargs, env []string) {
	ln, err := net.Listen("tcp4", "127.0.0.1:0")
	if err != nil {
		l.Inconclusive = err.Error()
		return
	}
	defer ln.Close()
	bport := ln.Addr().(*net.TCPAddr).Port
	args := append([]string{"--host", "127.0.0.1", "--port", "0", "--mqtt-host", "127.0.0.1",
		"--mqtt-port", strconv.Itoa(bport)}, xargs...)
	l.Argv, l.Env = strings.Join(args, " "), strings.Join(env, " ")
	p, err := startProc(r.s.Bins["bisquitt"], args, env)
	if err != nil {
		l.Inconclusive = err.Error()
		return
	}
	defer p.kill()
	port, err := waitBoundOrExit(p, r.wait)
	if err != nil {
		l.Inconclusive = "bisquitt: " + err.Error()
		return
	}
	if port == 0 {
		l.RC = p.rc
		if p.rc != 0 {
			l.Obs, l.Note = "refused", lastLine(p.out.String())
		} else {
			l.Obs, l.Note = "other", "exit 0 without listening"
		}
		return
	}
	l.Obs = "listen"
	if !given(c.Cred) {
		return
	}
	// Does it take credentials in clear?  CONNECT + AUTH(PLAIN) as plain datagrams; a gateway that
	// accepts them connects to the broker with that user name.
	u, err := net.DialUDP("udp4", nil, &net.UDPAddr{IP: net.IPv4(127, 0, 0, 1), Port: port})
	if err != nil {
		l.Inconclusive = err.Error()
		return
	}
	defer u.Close()
	u.Write(snref.Encode(snref.Pkt{Type: snref.CONNECT, Clean: true, Duration: 600, ClientID: "c31"}))
	u.Write(snref.Encode(snref.Pkt{Type: snref.AUTH, Method: "PLAIN", Data: []byte("\x00" + probeUser + "\x00" + probePass)}))
	bound := r.wait
	if given(c.Dtls) {
		bound = r.absent // a DTLS listener is not expected to react at all
	}
	ln.(*net.TCPListener).SetDeadline(time.Now().Add(bound))
	tc, err := ln.Accept()
	if err != nil {
		if given(c.Dtls) {
			l.PlainAuth = "none"
			return
		}
		if p.exited() {
			l.Inconclusive = fmt.Sprintf("bisquitt exited (rc %d) during the plaintext probe: %s", p.rc, lastLine(p.out.String()))
		} else {
			l.Inconclusive = fmt.Sprintf("plain listener did not react to CONNECT+AUTH within %v", bound)
		}
		return
	}
	defer tc.Close()
	mq := &mqConn{c: tc}
	pk, err := mq.next(time.Now().Add(r.wait))
	if err != nil || pk.Type != mqref.CONNECT {
		l.Inconclusive = fmt.Sprintf("expected MQTT CONNECT on the broker connection, got %v %v", pk.Name, err)
		return
	}
	if pk.HasUser && pk.User == probeUser {
		l.PlainAuth = "accepted"
		l.Wire = append(l.Wire, "AUTH-ACCEPTED")
	} else {
		l.PlainAuth = "none"
		l.Note = "broker CONNECT without the probe's user name"
	}
}

// ---------------------------------------------------------------- entry point

func TestDrive(t *testing.T) {
	in, out := os.Getenv("VERIF_SCHED"), os.Getenv("VERIF_TRACE")
	if in == "" || out == "" {
		t.Skip("VERIF_SCHED/VERIF_TRACE not set")
	}
	raw, err := os.ReadFile(in)
	if err != nil {
		t.Fatal(err)
	}
	var s Sched
	if err := json.Unmarshal(raw, &s); err != nil {
		t.Fatal(err)
	}
	if s.Workers <= 0 {
		s.Workers = 8
	}
	if s.WaitMs <= 0 {
		s.WaitMs = 30000
	}
	if s.AbsenceMs <= 0 {
		s.AbsenceMs = 400
	}
	if s.DeadlineS <= 0 {
		s.DeadlineS = 900
	}
	tmp, err := os.MkdirTemp(os.Getenv("VERIF_TMP"), "clidrv-")
	if err != nil {
		t.Fatal(err)
	}
	defer os.RemoveAll(tmp)
	r := &runner{s: s, tmp: tmp, wait: time.Duration(s.WaitMs) * time.Millisecond,
		absent: time.Duration(s.AbsenceMs) * time.Millisecond}
	f, err := os.Create(out)
	if err != nil {
		t.Fatal(err)
	}
	defer f.Close()
	w := bufio.NewWriter(f)
	var wmu sync.Mutex
	emit := func(v interface{}) {
		b, err := json.Marshal(v)
		if err != nil {
			panic(err)
		}
		wmu.Lock()
		w.Write(b)
		w.WriteByte('\n')
		w.Flush()
		wmu.Unlock()
	}
	// watchdog: never outlive the budget, never leave a tool running
	go func() {
		time.Sleep(time.Duration(s.DeadlineS) * time.Second)
		killAll()
		fmt.Fprintln(os.Stderr, "HARNESS: clidrv deadline exceeded")
		os.RemoveAll(tmp)
		os.Exit(3)
	}()
	defer killAll()
	jobs := make(chan Case)
	var wg sync.WaitGroup
	for i := 0; i < s.Workers; i++ {
		wg.Add(1)
		go func() {
			defer wg.Done()
			for c := range jobs {
				switch c.K {
				case "c30":
					emit(r.runC30(c))
				case "c31":
					emit(r.runC31(c))
				}
			}
		}()
	}
	begin := time.Now()
	for _, c := range s.Cases {
		if s.SoftS > 0 && time.Since(begin) > time.Duration(s.SoftS)*time.Second {
			break // budget used up: the remaining cases are simply not run (the caller counts)
		}
		jobs <- c
	}
	close(jobs)
	wg.Wait()
}
