package clidrv

// Library half of C31: client.Client.Connect() must send AUTH right after every
// CONNECT (first attempt, every retry after a timeout, every later Connect call)
// when a user is configured, and never otherwise.  The real client runs in a
// testing/synctest bubble on an in-memory connection; the schedules come from
// TLC (tla/Cli.tla, SpecLib: one schedule per transition of the model).

import (
	"bufio"
	"encoding/json"
	"fmt"
	"net"
	"os"
	"sync"
	"testing"
	"testing/synctest"
	"time"

	"github.com/energomonitor/bisquitt/client"
	"github.com/energomonitor/bisquitt/util"

	"verif/harness/memnet"
	"verif/harness/snref"
)

type LibCase struct {
	ID         string   `json:"id"`
	User       bool     `json:"user"`
	Pw         bool     `json:"pw"`
	RetryCount int      `json:"retrycount"`
	Events     []string `json:"events"`
	Expect     []string `json:"expect"`
}

type LibStep struct {
	E   string   `json:"e"`
	Out []string `json:"out"` // datagrams the client sent in reaction, by type name
	Ret string   `json:"ret"` // API calls that returned during the step
}

type LibLine struct {
	K      string    `json:"k"`
	ID     string    `json:"id"`
	User   bool      `json:"user"`
	Pw     bool      `json:"pw"`
	Events []string  `json:"events"`
	Steps  []LibStep `json:"steps"`
	AuthOK bool      `json:"authok"` // every AUTH seen carries the configured user/password
	NAuth  int       `json:"nauth"`
	NConn  int       `json:"nconn"`
	Expect []string  `json:"expect"`

	Inconclusive string `json:"inconclusive"`
}

type quietLogger struct{}

func (quietLogger) Debug(string, ...interface{}) {}
func (quietLogger) Info(string, ...interface{})  {}
func (quietLogger) Error(string, ...interface{}) {}
func (l quietLogger) WithTag(string) util.Logger { return l }
func (quietLogger) Sync()                        {}

const libConnectTimeout = 2 * time.Second

func TestDriveLib(t *testing.T) {
	in, out := os.Getenv("VERIF_SCHED"), os.Getenv("VERIF_TRACE")
	if in == "" || out == "" {
		t.Skip("VERIF_SCHED/VERIF_TRACE not set")
	}
	raw, err := os.ReadFile(in)
	if err != nil {
		t.Fatal(err)
	}
	var cases []LibCase
	if err := json.Unmarshal(raw, &cases); err != nil {
		t.Fatal(err)
	}
	f, err := os.Create(out)
	if err != nil {
		t.Fatal(err)
	}
	defer f.Close()
	w := bufio.NewWriter(f)
	defer w.Flush()
	prog := os.Getenv("VERIF_PROGRESS")
	for _, c := range cases {
		if prog != "" {
			os.WriteFile(prog, []byte(c.ID), 0o644)
		}
		c := c
		var line LibLine
		synctest.Test(t, func(t *testing.T) { line = runLib(c) })
		b, _ := json.Marshal(line)
		w.Write(b)
		w.WriteByte('\n')
		w.Flush()
	}
	if prog != "" {
		os.WriteFile(prog, []byte("DONE"), 0o644)
	}
}

func runLib(c LibCase) LibLine {
	l := LibLine{K: "lib", ID: c.ID, User: c.User, Pw: c.Pw, Events: c.Events, Steps: []LibStep{}, AuthOK: true,
		Expect: c.Expect}
	if l.Expect == nil {
		l.Expect = []string{}
	}
	var mu sync.Mutex
	var sent [][]byte
	var conn *memnet.Conn
	cfg := &client.ClientConfig{
		ClientID:       "lib",
		RetryDelay:     time.Second,
		RetryCount:     uint(c.RetryCount),
		ConnectTimeout: libConnectTimeout,
		KeepAlive:      60 * time.Second,
		CleanSession:   true,
	}
	wantData := ""
	if c.User {
		cfg.User = "u1"
		wantData = "\x00u1\x00"
	}
	if c.Pw {
		cfg.Password = []byte("p1")
		wantData += "p1"
	}
	cl := client.NewClient(quietLogger{}, cfg)
	cl.VerifSetDial(func() (net.Conn, error) {
		conn = memnet.NewDatagram("sn", func(b []byte) {
			mu.Lock()
			sent = append(sent, b)
			mu.Unlock()
		}, nil)
		return conn, nil
	})
	dialled := false
	rets := make(chan string, 16)
	lastMsgID := 0
	collect := func(e string) {
		mu.Lock()
		ds := sent
		sent = nil
		mu.Unlock()
		st := LibStep{E: e, Out: []string{}}
		for _, d := range ds {
			p, err := snref.Parse(d)
			if err != nil {
				st.Out = append(st.Out, "JUNK")
				continue
			}
			st.Out = append(st.Out, p.Name)
			switch p.Type {
			case snref.AUTH:
				l.NAuth++
				if p.Method != "PLAIN" || string(p.Data) != wantData {
					l.AuthOK = false
				}
			case snref.CONNECT:
				l.NConn++
			case snref.REGISTER:
				lastMsgID = p.MsgID
			}
		}
		for {
			select {
			case r := <-rets:
				if st.Ret != "" {
					st.Ret += ";"
				}
				st.Ret += r
				continue
			default:
			}
			break
		}
		l.Steps = append(l.Steps, st)
	}
	call := func(name string, f func() error) {
		go func() {
			err := f()
			if err != nil {
				rets <- name + ":" + err.Error()
			} else {
				rets <- name + ":ok"
			}
		}()
	}
	for _, e := range c.Events {
		switch e {
		case "connect":
			if !dialled {
				if err := cl.Dial("mem"); err != nil {
					l.Inconclusive = "Dial: " + err.Error()
					return l
				}
				dialled = true
			}
			call("Connect", cl.Connect)
		case "drop":
			time.Sleep(libConnectTimeout + time.Millisecond)
		case "accept":
			conn.Inject(snref.Encode(snref.Pkt{Type: snref.CONNACK, RC: 0}))
		case "reject":
			conn.Inject(snref.Encode(snref.Pkt{Type: snref.CONNACK, RC: 3}))
		case "register":
			call("Register", func() error { return cl.Register("top/a") })
			synctest.Wait()
			collect(e)
			conn.Inject(snref.Encode(snref.Pkt{Type: snref.REGACK, TopicID: 7, MsgID: lastMsgID, RC: 0}))
			synctest.Wait()
			collect("regack")
			continue
		case "disconnect":
			call("Disconnect", cl.Disconnect)
			synctest.Wait()
			collect(e)
			conn.Inject(snref.Encode(snref.Pkt{Type: snref.DISCONNECT}))
			synctest.Wait()
			collect("disconnected")
			// the client cancels itself after DISCONNECT: a later Connect needs a new Dial
			time.Sleep(2 * time.Second)
			synctest.Wait()
			dialled = false
			continue
		default:
			l.Inconclusive = "unknown event " + e
			return l
		}
		synctest.Wait()
		collect(e)
	}
	// epilogue: shut the client down and let every goroutine finish
	if dialled {
		done := make(chan struct{})
		go func() { cl.Close(); close(done) }()
		synctest.Wait()
		select {
		case <-done:
		default:
			if conn != nil {
				conn.Inject(snref.Encode(snref.Pkt{Type: snref.DISCONNECT}))
			}
		}
		time.Sleep(120 * time.Second)
		synctest.Wait()
		select {
		case <-done:
		default:
			l.Inconclusive = "client did not shut down"
			fmt.Fprintln(os.Stderr, "HARNESS: client did not shut down in", c.ID)
			os.Exit(3)
		}
	}
	collect("end")
	return l
}
