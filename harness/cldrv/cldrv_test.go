// Package cldrv drives one real client.Client (client library of bisquitt)
// inside a testing/synctest bubble against a scripted gateway end and records
// an NDJSON trace for TLC trace validation (tla/Trace_ClientLib.tla).
//
// Input : $VERIF_SCHED    JSON array of scenarios
// Output: $VERIF_TRACE    NDJSON, one line per step
//
//	$VERIF_PROGRESS "<scenario id> <event index>" of the step being executed
//	                (crash attribution), "DONE" at the end
//	$VERIF_SKIP     number of leading scenarios to skip (resume after a crash)
//
// Virtual time: 1 tick = 100 ms.  API calls run in their own goroutines inside
// the bubble; a line is written after synctest.Wait() following every injected
// event, i.e. when every client goroutine is durably blocked.
package cldrv

import (
	"bufio"
	"encoding/hex"
	"encoding/json"
	"fmt"
	"net"
	"os"
	"regexp"
	"runtime"
	"sort"
	"strconv"
	"strings"
	"sync"
	"sync/atomic"
	"testing"
	"testing/synctest"
	"time"

	"github.com/energomonitor/bisquitt/client"
	pkts1 "github.com/energomonitor/bisquitt/packets1"
	"github.com/energomonitor/bisquitt/topics"
	"github.com/energomonitor/bisquitt/util"

	"verif/harness/absmap"
	"verif/harness/memnet"
	"verif/harness/snref"
)

const tick = 100 * time.Millisecond

type PredefEntry struct {
	ID int      `json:"id"`
	N  string   `json:"n"`
	Tl []string `json:"tl"`
}

type Cfg struct {
	Cid    string        `json:"cid"`
	RD     int           `json:"rd"` // RetryDelay, ticks
	RC     int           `json:"rc"` // RetryCount
	CT     int           `json:"ct"` // ConnectTimeout, ticks
	KA     int           `json:"ka"` // KeepAlive, ticks (0 = off)
	Predef []PredefEntry `json:"predef"`
}

// Pk is absmap.Sn plus the topic split into levels (TLC cannot split strings).
type Pk struct {
	absmap.Sn
	Tl []string `json:"tl"`
}

type Event struct {
	E      string     `json:"e"` // api | gw | gwraw | adv
	Call   string     `json:"call,omitempty"`
	Api    string     `json:"api,omitempty"`
	Topic  string     `json:"topic,omitempty"`
	Qos    int        `json:"qos,omitempty"`
	Tid    int        `json:"tid,omitempty"`
	Dur    int        `json:"dur,omitempty"` // ticks
	H      string     `json:"h,omitempty"`
	Pl     string     `json:"pl,omitempty"`
	Retain bool       `json:"retain,omitempty"`
	P      *absmap.Sn `json:"p,omitempty"`
	Hex    string     `json:"hex,omitempty"`
	N      int        `json:"n,omitempty"`
	Midref string     `json:"midref,omitempty"` // gw: use the message ID the client chose for the exchange of this call
	Pat    string     `json:"pat,omitempty"`    // gate: substring of a Debug format of the client
	Until  string     `json:"until,omitempty"`
}

type Scenario struct {
	ID     string  `json:"id"`
	Cfg    Cfg     `json:"cfg"`
	Seed   int64   `json:"seed"`
	Events []Event `json:"events"`
	Tail   int     `json:"tail"`
}

type TraceEv struct {
	T      string   `json:"t"` // Reset | Api | G | GRaw | Adv | Skip | End
	Call   string   `json:"call"`
	Api    string   `json:"api"`
	Topic  string   `json:"topic"`
	Tl     []string `json:"tl"`
	Short  bool     `json:"short"` // topic is a 2-character (short) topic name
	Stid   int      `json:"stid"`  // its encoding as topic ID
	Qos    int      `json:"qos"`
	Tid    int      `json:"tid"`
	Dur    int      `json:"dur"`
	Dsec   int      `json:"dsec"` // Sleep duration in whole seconds (wire value)
	H      string   `json:"h"`
	Pl     string   `json:"pl"`
	Retain bool     `json:"retain"`
	P      Pk       `json:"p"`
	N      int      `json:"n"`
	Cfg    Cfg      `json:"cfg"`
}

type Ret struct {
	Call string `json:"call"`
	Api  string `json:"api"`
	Ok   bool   `json:"ok"`
	Err  string `json:"err"` // error class
	Txt  string `json:"txt"`
}

type Cb struct {
	H     string   `json:"h"`
	Topic string   `json:"topic"`
	Tl    []string `json:"tl"`
	Pl    string   `json:"pl"`
	Qos   int      `json:"qos"`
	Mid   int      `json:"mid"`
}

type RegEntry struct {
	N  string   `json:"n"`
	Tl []string `json:"tl"`
	ID int      `json:"id"`
}

type Line struct {
	Tr      string     `json:"tr"`
	I       int        `json:"i"`
	Now     int        `json:"now"`
	Ev      TraceEv    `json:"ev"`
	Out     []Pk       `json:"out"`
	Rets    []Ret      `json:"rets"`
	Cbs     []Cb       `json:"cbs"`
	St      string     `json:"st"`
	Pend    []int      `json:"pend"`
	Ptypes  []string   `json:"ptypes"`
	Reg     []RegEntry `json:"reg"`
	Ended   bool       `json:"ended"`  // Client.Wait() returned
	Werr    string     `json:"werr"`   // class of its error
	Closed  bool       `json:"closed"` // client closed its connection
	Gor     int        `json:"gor"`    // client goroutines: exact (bubble dump) on PreEnd/End lines, NumGoroutine delta elsewhere
	Napi    int        `json:"napi"`   // API calls still blocked
	Leaked  int        `json:"leaked"` // End line only
	Skipped bool       `json:"skipped"`
}

// gateLogger is silent; it is also the scheduler gate of the harness: when a
// gate pattern is armed, the goroutine whose Debug format contains it parks
// until the schedule releases it (log calls are used as gates only, never as
// evidence).
type gateLogger struct{ g *gates }

type gates struct {
	mu      sync.Mutex
	pat     string
	ch      chan struct{}
	waiting int
}

func (l gateLogger) Debug(format string, _ ...interface{}) {
	l.g.mu.Lock()
	if l.g.pat == "" || !strings.Contains(format, l.g.pat) {
		l.g.mu.Unlock()
		return
	}
	ch := l.g.ch
	l.g.waiting++
	l.g.mu.Unlock()
	<-ch
}
func (gateLogger) Info(string, ...interface{})  {}
func (gateLogger) Error(string, ...interface{}) {}
func (l gateLogger) WithTag(string) util.Logger { return l }
func (gateLogger) Sync()                        {}

func levels(s string) []string { return strings.Split(s, "/") }

var bubbleRe = regexp.MustCompile(`synctest bubble (\d+)`)

// clientGoroutines counts the goroutines of the calling goroutine's synctest
// bubble that belong to the code under test: everything started inside the
// bubble except the harness' own goroutines (frames of this package or of
// the synctest machinery).  Exact, unlike a runtime.NumGoroutine delta.
func clientGoroutines() int {
	buf := make([]byte, 4<<20)
	all := string(buf[:runtime.Stack(buf, true)])
	gs := strings.Split(all, "\n\n")
	hdr := gs[0]
	if i := strings.IndexByte(hdr, '\n'); i >= 0 {
		hdr = hdr[:i]
	}
	m := bubbleRe.FindStringSubmatch(hdr)
	if m == nil {
		return -1
	}
	n := 0
	for _, g := range gs[1:] {
		h := g
		if i := strings.IndexByte(h, '\n'); i >= 0 {
			h = h[:i]
		}
		m2 := bubbleRe.FindStringSubmatch(h)
		if m2 == nil || m2[1] != m[1] {
			continue
		}
		if strings.Contains(g, "verif/harness/cldrv.") || strings.Contains(g, "testing/synctest.") ||
			strings.Contains(g, "internal/synctest.") {
			continue
		}
		n++
	}
	return n
}

func pkFromWire(d []byte) Pk {
	s := absmap.SnFromWire(d, 8192)
	p := Pk{Sn: s, Tl: []string{}}
	if s.T != "JUNK" {
		if raw, err := snref.Parse(d); err == nil {
			switch raw.Type {
			case snref.REGISTER, snref.SUBSCRIBE, snref.UNSUBSCRIBE, snref.WILLTOPIC:
				if raw.Type == snref.REGISTER || raw.TIT == 0 {
					p.Tl = levels(raw.Topic)
				}
			}
			if raw.TIT == 2 && (raw.Type == snref.PUBLISH || raw.Type == snref.SUBSCRIBE || raw.Type == snref.UNSUBSCRIBE) {
				p.Tl = levels(string([]byte{byte(raw.TopicID >> 8), byte(raw.TopicID)}))
			}
		}
	}
	return p
}

// ErrClass maps an error returned by the client API to a stable class.
func ErrClass(err error) string {
	if err == nil {
		return "nil"
	}
	s := err.Error()
	switch {
	case strings.Contains(s, "no more retries"):
		return "noretries"
	case strings.Contains(s, "connect timeout"):
		return "conntimeout"
	case strings.Contains(s, "connection rejected"):
		return "rejected"
	case strings.Contains(s, "rejected with code"):
		return "rejected"
	case strings.Contains(s, "not registered"):
		return "notreg"
	case strings.Contains(s, "cannot call Sleep"):
		return "badstate"
	case strings.Contains(s, "did not receive PINGRESP"):
		return "pingwait"
	case strings.Contains(s, "invalid qos"):
		return "badqos"
	case strings.Contains(s, "invalid predefined topic ID"):
		return "badpredef"
	case strings.Contains(s, "invalid topic ID"), strings.Contains(s, "invalid Topic ID Type"),
		strings.Contains(s, "invalid QOS in"), strings.Contains(s, "unhandled MQTT-SN packet"):
		return "proto"
	case strings.Contains(s, "client terminated"):
		return "terminated"
	case strings.Contains(s, "closed"):
		return "closed"
	}
	return "other"
}

// watch is shared between the bubble root of the running scenario and a
// watchdog goroutine outside the bubble.  A goroutine of the code under test
// that blocks on a sync.Mutex for ever is not "durably blocked" for synctest:
// synctest.Wait() and the fake clock then never make progress.  The watchdog
// notices the missing heartbeat, confirms from two goroutine dumps that the
// same goroutine(s) of the bubble sit in a mutex acquisition, records a
// "Hang" line for the scenario (an observation about the code under test) and
// abandons the bubble.
type watch struct {
	beat   atomic.Int64
	bubble atomic.Value // string
	mu     sync.Mutex
	last   Line
}

var curWatch atomic.Pointer[watch]

func heartbeat() {
	if w := curWatch.Load(); w != nil {
		w.beat.Add(1)
	}
}

var (
	goidRe = regexp.MustCompile(`^goroutine (\d+) \[`)
	siteRe = regexp.MustCompile(`bisquitt/client\.\(\*(\w+)\)\.(\w+)`)
)

// mutexBlocked returns the IDs of the goroutines of the given bubble that are
// waiting for a mutex and the innermost client method of the first of them.
func mutexBlocked(bubble string) (ids string, where string) {
	buf := make([]byte, 4<<20)
	all := string(buf[:runtime.Stack(buf, true)])
	for _, g := range strings.Split(all, "\n\n") {
		h := g
		if i := strings.IndexByte(h, '\n'); i >= 0 {
			h = h[:i]
		}
		m := bubbleRe.FindStringSubmatch(h)
		if m == nil || m[1] != bubble {
			continue
		}
		if !(strings.Contains(h, "Mutex.Lock") || strings.Contains(h, "semacquire") || strings.Contains(h, "RWMutex")) {
			continue
		}
		if id := goidRe.FindStringSubmatch(h); id != nil {
			ids += id[1] + ","
		}
		if where == "" {
			if fn := siteRe.FindStringSubmatch(g); fn != nil {
				where = fn[1] + "." + fn[2]
			} else {
				where = "unknown"
			}
		}
	}
	return
}

func normEv(ev *TraceEv) {
	if ev.P.T == "" {
		ev.P = Pk{Sn: absmap.Sn{T: "NONE"}, Tl: []string{}}
	}
	if ev.Tl == nil {
		ev.Tl = []string{}
	}
	if ev.Cfg.Predef == nil {
		ev.Cfg.Predef = []PredefEntry{}
	}
}

func TestDrive(t *testing.T) {
	in := os.Getenv("VERIF_SCHED")
	out := os.Getenv("VERIF_TRACE")
	if in == "" || out == "" {
		t.Skip("VERIF_SCHED/VERIF_TRACE not set")
	}
	raw, err := os.ReadFile(in)
	if err != nil {
		t.Fatal(err)
	}
	var scs []Scenario
	if err := json.Unmarshal(raw, &scs); err != nil {
		t.Fatal(err)
	}
	skip, _ := strconv.Atoi(os.Getenv("VERIF_SKIP"))
	flags := os.O_CREATE | os.O_WRONLY | os.O_TRUNC
	if skip > 0 {
		flags = os.O_CREATE | os.O_WRONLY | os.O_APPEND
	}
	f, err := os.OpenFile(out, flags, 0o644)
	if err != nil {
		t.Fatal(err)
	}
	defer f.Close()
	w := bufio.NewWriter(f)
	defer w.Flush()
	prog := os.Getenv("VERIF_PROGRESS")
	abandon := make(chan struct{})
	abandoned := 0
	for n, sc := range scs {
		if n < skip {
			continue
		}
		sc := sc
		n := n
		wd := &watch{}
		curWatch.Store(wd)
		var emitMu sync.Mutex
		emit := func(l Line) {
			b, err := json.Marshal(l)
			if err != nil {
				panic(err)
			}
			emitMu.Lock()
			w.Write(b)
			w.WriteByte('\n')
			w.Flush()
			emitMu.Unlock()
			wd.mu.Lock()
			wd.last = l
			wd.mu.Unlock()
			wd.beat.Add(1)
		}
		progress := func(i int) {
			if prog != "" {
				os.WriteFile(prog, []byte(fmt.Sprintf("%d %s %d", n, sc.ID, i)), 0o644)
			}
		}
		progress(-1)
		// The bubble runs in its own goroutine: a scenario whose client
		// goroutines never exit (an observation, recorded in its End line)
		// cannot leave its bubble; it is parked on a channel from outside the
		// bubble (not durably blocked, so its clock stops) and abandoned.
		fin := make(chan bool, 1)
		go func() {
			synctest.Test(t, func(t *testing.T) {
				runScenario(sc, emit, progress, func() {
					fin <- true
					<-abandon
				})
			})
			fin <- false
		}()
		stop := make(chan struct{})
		go func() { // watchdog, outside the bubble: real time
			lastBeat, lastChange := wd.beat.Load(), time.Now()
			prevIDs := ""
			for {
				select {
				case <-stop:
					return
				case <-time.After(300 * time.Millisecond):
				}
				if b := wd.beat.Load(); b != lastBeat {
					lastBeat, lastChange, prevIDs = b, time.Now(), ""
					continue
				}
				if time.Since(lastChange) < 1500*time.Millisecond {
					continue
				}
				bubble, _ := wd.bubble.Load().(string)
				ids, where := mutexBlocked(bubble)
				if ids == "" || ids != prevIDs {
					prevIDs = ids
					if time.Since(lastChange) < 180*time.Second {
						continue
					}
					where = "" // no progress and no explanation: harness problem
				}
				if wd.beat.Load() != lastBeat {
					continue
				}
				wd.mu.Lock()
				l := wd.last
				wd.mu.Unlock()
				l.I++
				l.Ev = TraceEv{T: "Hang", H: where}
				normEv(&l.Ev)
				l.Out, l.Rets, l.Cbs = []Pk{}, []Ret{}, []Cb{}
				emit(l)
				fin <- true
				return
			}
		}()
		if <-fin {
			abandoned++
		}
		close(stop)
	}
	if prog != "" {
		os.WriteFile(prog, []byte("DONE"), 0o644)
	}
	if abandoned > 0 {
		w.Flush()
		f.Close()
		os.Exit(0)
	}
}

type collector struct {
	mu     sync.Mutex
	out    [][]byte
	rets   []Ret
	cbs    []Cb
	closed bool
	napi   int
	ended  bool
	werr   string
}

func runScenario(sc Scenario, emit func(Line), progress func(int), park func()) {
	if w := curWatch.Load(); w != nil {
		buf := make([]byte, 256)
		if m := bubbleRe.FindStringSubmatch(string(buf[:runtime.Stack(buf, false)])); m != nil {
			w.bubble.Store(m[1])
		}
	}
	col := &collector{}
	conn := memnet.NewDatagram("sn", func(b []byte) {
		col.mu.Lock()
		col.out = append(col.out, b)
		col.mu.Unlock()
	}, func() {
		col.mu.Lock()
		col.closed = true
		col.mu.Unlock()
	})
	predef := topics.PredefinedTopics{}
	for _, e := range sc.Cfg.Predef {
		predef.Add(sc.Cfg.Cid, string(absmap.DecName(e.N)), uint16(e.ID))
	}
	cfg := &client.ClientConfig{
		ClientID:         sc.Cfg.Cid,
		RetryDelay:       time.Duration(sc.Cfg.RD) * tick,
		RetryCount:       uint(sc.Cfg.RC),
		ConnectTimeout:   time.Duration(sc.Cfg.CT) * tick,
		KeepAlive:        time.Duration(sc.Cfg.KA) * tick,
		CleanSession:     true,
		PredefinedTopics: predef,
	}
	base := runtime.NumGoroutine()
	gt := &gates{}
	c := client.NewClient(gateLogger{gt}, cfg)
	c.VerifSetDial(func() (net.Conn, error) { return conn, nil })
	if err := c.Dial("mem"); err != nil {
		panic(err)
	}
	monitorDone := make(chan struct{})
	go func() {
		err := c.Wait()
		col.mu.Lock()
		col.ended = true
		col.werr = ErrClass(err)
		col.mu.Unlock()
		close(monitorDone)
	}()
	synctest.Wait()

	start := time.Now()
	nowTicks := func() int { return int(time.Since(start) / tick) }
	idx := 0
	emptyPk := Pk{Sn: absmap.Sn{T: "NONE"}, Tl: []string{}}
	snapshot := func(ev TraceEv) Line {
		col.mu.Lock()
		outs := col.out
		col.out = nil
		rets := col.rets
		col.rets = nil
		cbs := col.cbs
		col.cbs = nil
		l := Line{Tr: sc.ID, I: idx, Now: nowTicks(), Ev: ev, Out: []Pk{}, Rets: []Ret{}, Cbs: []Cb{},
			Pend: []int{}, Ptypes: []string{}, Reg: []RegEntry{}, Ended: col.ended, Werr: col.werr,
			Closed: col.closed, Napi: col.napi}
		col.mu.Unlock()
		idx++
		for _, d := range outs {
			l.Out = append(l.Out, pkFromWire(d))
		}
		l.Rets = append(l.Rets, rets...)
		sort.SliceStable(cbs, func(i, j int) bool { return cbs[i].H < cbs[j].H })
		l.Cbs = append(l.Cbs, cbs...)
		l.St = c.VerifState().String()
		for _, id := range c.VerifPendingIDs() {
			l.Pend = append(l.Pend, int(id))
		}
		for _, ty := range c.VerifPendingTypes() {
			l.Ptypes = append(l.Ptypes, snref.TypeName(ty))
		}
		for n, id := range c.VerifRegistered() {
			l.Reg = append(l.Reg, RegEntry{N: absmap.EncName([]byte(n)), Tl: levels(n), ID: int(id)})
		}
		sort.Slice(l.Reg, func(i, j int) bool { return l.Reg[i].N < l.Reg[j].N })
		own := l.Napi
		if !l.Ended {
			own++
		}
		l.Gor = runtime.NumGoroutine() - base - own
		if l.Ev.P.T == "" {
			l.Ev.P = emptyPk
		}
		if l.Ev.Tl == nil {
			l.Ev.Tl = []string{}
		}
		if l.Ev.Cfg.Predef == nil {
			l.Ev.Cfg.Predef = []PredefEntry{}
		}
		return l
	}
	rcfg := sc.Cfg
	for i := range rcfg.Predef {
		rcfg.Predef[i].Tl = levels(string(absmap.DecName(rcfg.Predef[i].N)))
	}
	emit(snapshot(TraceEv{T: "Reset", Cfg: rcfg}))

	type obs struct {
		st           string
		pend, ptypes string
		ended, cl    bool
	}
	mkobs := func(l Line) obs {
		return obs{l.St, fmt.Sprint(l.Pend), fmt.Sprint(l.Ptypes), l.Ended, l.Closed}
	}
	var last obs
	emit2 := func(l Line) {
		last = mkobs(l)
		emit(l)
	}
	advance := func(n int) {
		quiet := 0
		for i := 0; i < n; i++ {
			time.Sleep(tick)
			synctest.Wait()
			heartbeat()
			quiet++
			l := snapshot(TraceEv{T: "Adv", N: quiet})
			if len(l.Out) > 0 || len(l.Rets) > 0 || len(l.Cbs) > 0 || mkobs(l) != last {
				emit2(l)
				quiet = 0
			} else {
				idx--
			}
		}
		if quiet > 0 {
			emit2(snapshot(TraceEv{T: "Adv", N: quiet}))
		}
	}
	{
		l := snapshot(TraceEv{T: "Adv", N: 0})
		idx--
		last = mkobs(l)
	}

	handler := func(h string) client.MessageHandlerFunc {
		return func(_ *client.Client, topic string, pkt *pkts1.Publish) {
			col.mu.Lock()
			col.cbs = append(col.cbs, Cb{H: h, Topic: absmap.EncName([]byte(topic)), Tl: levels(topic),
				Pl: absmap.EncData(pkt.Data), Qos: int(pkt.QOS), Mid: int(pkt.MessageID())})
			col.mu.Unlock()
		}
	}
	apiCall := func(e Event) func() error {
		topic := string(absmap.DecName(e.Topic))
		pl := absmap.DecData(e.Pl, sc.Seed)
		switch e.Api {
		case "Connect":
			return c.Connect
		case "Register":
			return func() error { return c.Register(topic) }
		case "Subscribe":
			return func() error { return c.Subscribe(topic, uint8(e.Qos), handler(e.H)) }
		case "SubscribePredefined":
			return func() error { return c.SubscribePredefined(uint16(e.Tid), uint8(e.Qos), handler(e.H)) }
		case "Unsubscribe":
			return func() error { return c.Unsubscribe(topic) }
		case "UnsubscribePredefined":
			return func() error { return c.UnsubscribePredefined(uint16(e.Tid)) }
		case "Publish":
			return func() error { return c.Publish(topic, pl, uint8(e.Qos), e.Retain) }
		case "PublishPredefined":
			return func() error { return c.PublishPredefined(uint16(e.Tid), pl, uint8(e.Qos), e.Retain) }
		case "Ping":
			return c.Ping
		case "Sleep":
			return func() error { return c.Sleep(time.Duration(e.Dur) * tick) }
		case "Disconnect":
			return c.Disconnect
		case "Close":
			return c.Close
		}
		panic("unknown api " + e.Api)
	}
	startAPI := func(e Event) {
		fn := apiCall(e)
		col.mu.Lock()
		col.napi++
		col.mu.Unlock()
		go func() {
			err := fn()
			r := Ret{Call: e.Call, Api: e.Api, Ok: err == nil, Err: ErrClass(err)}
			if err != nil {
				r.Txt = err.Error()
			}
			col.mu.Lock()
			col.napi--
			col.rets = append(col.rets, r)
			col.mu.Unlock()
		}()
	}

	callMid := map[string]int{}
	for i, e := range sc.Events {
		progress(i)
		heartbeat()
		switch e.E {
		case "api":
			ev := TraceEv{T: "Api", Call: e.Call, Api: e.Api, Topic: e.Topic, Qos: e.Qos, Tid: e.Tid,
				Dur: e.Dur, H: e.H, Pl: e.Pl, Retain: e.Retain}
			switch e.Api {
			case "Register", "Subscribe", "Unsubscribe", "Publish":
				name := absmap.DecName(e.Topic)
				ev.Tl = levels(string(name))
				if len(name) == 2 {
					ev.Short = true
					ev.Stid = absmap.ShortID(name)
				}
			}
			ev.Dsec = int((time.Duration(e.Dur) * tick) / time.Second)
			if e.Pl != "" {
				ev.Pl = absmap.EncData(absmap.DecData(e.Pl, sc.Seed))
			}
			startAPI(e)
			synctest.Wait()
			l := snapshot(ev)
			for _, p := range l.Out {
				if p.T == "REGISTER" || p.T == "SUBSCRIBE" || p.T == "UNSUBSCRIBE" || p.T == "PUBLISH" {
					callMid[e.Call] = p.Mid // which ID the client allocates is its own choice
					break
				}
			}
			emit2(l)
		case "gw", "gwraw":
			var d []byte
			if e.E == "gw" {
				if m, ok := callMid[e.Midref]; ok && e.Midref != "" {
					e.P.Mid = m
				}
				d = snref.Encode(absmap.SnToPkt(*e.P, sc.Seed))
			} else {
				d, _ = hex.DecodeString(e.Hex)
			}
			ev := TraceEv{T: "G", P: pkFromWire(d)}
			if ev.P.T == "JUNK" {
				ev.T = "GRaw"
			}
			col.mu.Lock()
			dead := col.ended || col.closed
			col.mu.Unlock()
			if dead {
				// nobody reads any more
				ev.T = "Skip"
				l := snapshot(ev)
				l.Skipped = true
				emit2(l)
				continue
			}
			conn.Inject(d)
			synctest.Wait()
			emit2(snapshot(ev))
		case "adv":
			advance(e.N)
		case "gate":
			// park the next goroutine that logs a Debug message containing Pat
			gt.mu.Lock()
			gt.pat = e.Pat
			gt.ch = make(chan struct{})
			gt.waiting = 0
			gt.mu.Unlock()
		case "gwrace":
			if m, ok := callMid[e.Midref]; ok && e.Midref != "" {
				e.P.Mid = m
			}
			// Inject a packet while a goroutine is parked at the gate, give the
			// receive loop the chance to handle it (until the client state is
			// e.Until or a spin bound is reached: with correct locking the
			// receive loop cannot get past the parked goroutine), then open the gate.
			d := snref.Encode(absmap.SnToPkt(*e.P, sc.Seed))
			conn.Inject(d)
			for k := 0; k < 400000 && c.VerifState().String() != e.Until; k++ {
				runtime.Gosched()
				if k%1000 == 0 {
					heartbeat()
				}
			}
			reached := c.VerifState().String() == e.Until
			gt.mu.Lock()
			n := gt.waiting
			gt.pat = ""
			if gt.ch != nil {
				close(gt.ch)
				gt.ch = nil
			}
			gt.mu.Unlock()
			synctest.Wait()
			ev := TraceEv{T: "Race", P: pkFromWire(d), N: n}
			if reached {
				ev.H = "reached"
			}
			emit2(snapshot(ev))
		case "release":
			gt.mu.Lock()
			n := gt.waiting
			gt.pat = ""
			if gt.ch != nil {
				close(gt.ch)
				gt.ch = nil
			}
			gt.mu.Unlock()
			synctest.Wait()
			emit2(snapshot(TraceEv{T: "Release", N: n}))
		default:
			panic("unknown event " + e.E)
		}
	}
	progress(len(sc.Events))
	gt.mu.Lock()
	gt.pat = ""
	if gt.ch != nil {
		close(gt.ch)
		gt.ch = nil
	}
	gt.mu.Unlock()
	synctest.Wait()
	if sc.Tail > 0 {
		advance(sc.Tail)
	}
	// Epilogue: close the client (if the schedule did not) and look for leaks.
	pre := snapshot(TraceEv{T: "PreEnd"})
	pre.Gor = clientGoroutines()
	emit2(pre)
	closeDone := make(chan struct{})
	go func() {
		c.Close()
		close(closeDone)
	}()
	horizon := (sc.Cfg.RC+2)*sc.Cfg.RD + sc.Cfg.CT + 30
	for i := 0; i < horizon; i++ {
		time.Sleep(tick)
		synctest.Wait()
		heartbeat()
	}
	closed := false
	select {
	case <-closeDone:
		closed = true
	default:
	}
	l := snapshot(TraceEv{T: "End"})
	l.Gor = clientGoroutines()
	l.Leaked = l.Gor
	if l.Leaked > 0 && os.Getenv("VERIF_DEBUG") != "" {
		buf := make([]byte, 1<<20)
		os.WriteFile(os.Getenv("VERIF_DEBUG")+"-"+sc.ID+".txt", buf[:runtime.Stack(buf, true)], 0o644)
	}
	if !closed {
		l.Leaked += 1000
	}
	emit2(l)
	stuck := l.Napi > 0 || !closed
	select {
	case <-monitorDone:
	default:
		stuck = true
	}
	if stuck {
		park()
	}
}
