// Package topicsdrv runs predefined-topic lookups on the real
// topics.PredefinedTopics and records them as NDJSON for TLC
// (tla/Trace_Topics.tla) and for comparison with the test vectors that TLC
// generated from tla/Topics.tla (property C05).
//
// Input (env):
//
//	VERIF_VECTORS  NDJSON file, one Topics!Vector per line (cfg, names, ids) – every
//	               listed query is executed on a map built with Add
//	VERIF_YAML     ':'-separated YAML files read with ReadPredefinedTopicsFile; all
//	               queries over the clients/ids/names they mention (+ unknown ones)
//	VERIF_RANDOM   number of random configurations (seed VERIF_SEED) built through
//	               Add / ParsePredefinedTopicOptions / YAML / Merge
//	VERIF_REPS     repetitions of every GetTopicID query, fresh map each time (map
//	               iteration order is random); default 20
//
// Output: VERIF_TRACE (NDJSON, uniform records, see Trace_Topics.tla),
// VERIF_PROGRESS (label of the configuration being executed: crash attribution).
package topicsdrv

import (
	"bufio"
	"encoding/json"
	"fmt"
	"math/rand"
	"os"
	"path/filepath"
	"sort"
	"strconv"
	"strings"
	"testing"

	"github.com/energomonitor/bisquitt/topics"
)

type Entry struct {
	C  string `json:"c"`
	ID int    `json:"id"`
	N  string `json:"n"`
}

type NameQ struct {
	C  string `json:"c"`
	ID int    `json:"id"`
}

type IDQ struct {
	C string `json:"c"`
	N string `json:"n"`
}

type Vector struct {
	Cfg   []Entry `json:"cfg"`
	Names []NameQ `json:"names"`
	IDs   []IDQ   `json:"ids"`
}

// Rec is one trace line; all fields always present (TLC needs uniform records).
type Rec struct {
	Kind  string  `json:"kind"` // cfg | name | id
	V     int     `json:"v"`    // index of the configuration in this run
	Cfg   []Entry `json:"cfg"`
	C     string  `json:"c"`
	ID    int     `json:"id"`
	N     string  `json:"n"`
	Found bool    `json:"found"`
	RID   int     `json:"rid"`
	RN    string  `json:"rn"`
	Src   string  `json:"src"`
	Cnt   int     `json:"cnt"` // how many repetitions gave this result
}

func dump(t topics.PredefinedTopics) []Entry {
	out := []Entry{}
	for c, m := range t {
		for id, n := range m {
			out = append(out, Entry{c, int(id), n})
		}
	}
	sort.Slice(out, func(i, j int) bool {
		if out[i].C != out[j].C {
			return out[i].C < out[j].C
		}
		return out[i].ID < out[j].ID
	})
	return out
}

func sameEntries(a, b []Entry) bool {
	if len(a) != len(b) {
		return false
	}
	for i := range a {
		if a[i] != b[i] {
			return false
		}
	}
	return true
}

// builder returns a fresh real map holding the configuration; variant changes the
// insertion order.
type builder func(variant int) (topics.PredefinedTopics, error)

func addBuilder(cfg []Entry) builder {
	return func(variant int) (topics.PredefinedTopics, error) {
		t := topics.PredefinedTopics{}
		n := len(cfg)
		for k := 0; k < n; k++ {
			e := cfg[(k+variant)%n]
			if variant%2 == 1 {
				e = cfg[(n-1-k+variant)%n]
			}
			t.Add(e.C, e.N, uint16(e.ID))
		}
		return t, nil
	}
}

type runner struct {
	w    *bufio.Writer
	reps int
	nv   int
	prog string
}

func (r *runner) emit(rec Rec) {
	if rec.Cfg == nil {
		rec.Cfg = []Entry{}
	}
	b, err := json.Marshal(rec)
	if err != nil {
		panic(err)
	}
	r.w.Write(b)
	r.w.WriteByte('\n')
}

func (r *runner) progress(label string) {
	if r.prog != "" {
		os.WriteFile(r.prog, []byte(label), 0o644)
	}
}

// run executes all queries on the real map(s) produced by b.
func (r *runner) run(src string, b builder, names []NameQ, ids []IDQ) error {
	v := r.nv
	r.nv++
	r.progress(fmt.Sprintf("%d %s", v, src))
	t, err := b(0)
	if err != nil {
		return err
	}
	cfg := dump(t)
	r.emit(Rec{Kind: "cfg", V: v, Cfg: cfg, Src: src})
	for _, q := range names {
		n, ok := t.GetTopicName(q.C, uint16(q.ID))
		r.emit(Rec{Kind: "name", V: v, C: q.C, ID: q.ID, Found: ok, RN: n, Cnt: 1})
	}
	type res struct {
		id int
		ok bool
	}
	for _, q := range ids {
		seen := map[res]int{}
		for k := 0; k < r.reps; k++ {
			tt, err := b(k)
			if err != nil {
				return err
			}
			if k > 0 && k < 3 && !sameEntries(dump(tt), cfg) {
				return fmt.Errorf("builder for %s is not reproducible", src)
			}
			id, ok := tt.GetTopicID(q.C, q.N)
			seen[res{int(id), ok}]++
		}
		keys := make([]res, 0, len(seen))
		for k := range seen {
			keys = append(keys, k)
		}
		sort.Slice(keys, func(i, j int) bool {
			return keys[i].id < keys[j].id || (keys[i].id == keys[j].id && !keys[i].ok && keys[j].ok)
		})
		for _, k := range keys {
			r.emit(Rec{Kind: "id", V: v, C: q.C, N: q.N, Found: k.ok, RID: k.id, Cnt: seen[k]})
		}
	}
	return nil
}

// allQueries: every client/id/name the configuration mentions plus unknown ones.
func allQueries(cfg []Entry) ([]NameQ, []IDQ) {
	cs := map[string]bool{"*": true, "no-such-client": true}
	is := map[int]bool{0: true, 65535: true}
	ns := map[string]bool{"no/such/topic": true}
	for _, e := range cfg {
		cs[e.C] = true
		is[e.ID] = true
		ns[e.N] = true
	}
	var cl []string
	for c := range cs {
		cl = append(cl, c)
	}
	sort.Strings(cl)
	var il []int
	for i := range is {
		il = append(il, i)
	}
	sort.Ints(il)
	var nl []string
	for n := range ns {
		nl = append(nl, n)
	}
	sort.Strings(nl)
	var nq []NameQ
	var iq []IDQ
	for _, c := range cl {
		for _, i := range il {
			nq = append(nq, NameQ{c, i})
		}
		for _, n := range nl {
			iq = append(iq, IDQ{c, n})
		}
	}
	return nq, iq
}

func writeYAML(dir string, k int, cfg []Entry) (string, error) {
	by := map[string][]Entry{}
	var cl []string
	for _, e := range cfg {
		if _, ok := by[e.C]; !ok {
			cl = append(cl, e.C)
		}
		by[e.C] = append(by[e.C], e)
	}
	var sb strings.Builder
	sb.WriteString("---\n")
	for _, c := range cl {
		sb.WriteString(strconv.Quote(c) + ":\n")
		for _, e := range by[c] {
			sb.WriteString(fmt.Sprintf("  %d: %s\n", e.ID, strconv.Quote(e.N)))
		}
	}
	if len(cl) == 0 {
		sb.WriteString("{}\n")
	}
	p := filepath.Join(dir, fmt.Sprintf("cfg-%d.yaml", k))
	return p, os.WriteFile(p, []byte(sb.String()), 0o644)
}

// randomBuilder makes a random configuration and a builder that constructs it
// through one of the construction routes of the package.
func randomBuilder(rng *rand.Rand, dir string, k int) (string, builder, error) {
	clients := []string{"a", "b", "c", "*"}
	idpool := []int{0, 1, 2, 3, 65535}
	names := []string{"t/1", "t/2", "t/3", "t/10"}
	n := rng.Intn(11)
	seen := map[[2]string]bool{}
	cfg := []Entry{}
	for len(cfg) < n {
		e := Entry{clients[rng.Intn(len(clients))], idpool[rng.Intn(len(idpool))], names[rng.Intn(len(names))]}
		if rng.Intn(6) == 0 {
			e.ID = rng.Intn(65536)
		}
		key := [2]string{e.C, strconv.Itoa(e.ID)}
		if seen[key] {
			continue
		}
		seen[key] = true
		cfg = append(cfg, e)
	}
	switch rng.Intn(4) {
	case 0:
		return "random/add", addBuilder(cfg), nil
	case 1:
		opts := []string{}
		// earlier options that later ones override
		for _, e := range cfg {
			if rng.Intn(3) == 0 {
				opts = append(opts, fmt.Sprintf("%s;%s;%d", e.C, "overridden/"+e.N, e.ID))
			}
		}
		for _, e := range cfg {
			if e.C == "*" && rng.Intn(2) == 0 {
				opts = append(opts, fmt.Sprintf("%s;%d", e.N, e.ID))
			} else {
				opts = append(opts, fmt.Sprintf("%s;%s;%d", e.C, e.N, e.ID))
			}
		}
		return "random/options", func(int) (topics.PredefinedTopics, error) {
			return topics.ParsePredefinedTopicOptions(opts...)
		}, nil
	case 2:
		p, err := writeYAML(dir, k, cfg)
		if err != nil {
			return "", nil, err
		}
		return "random/yaml", func(int) (topics.PredefinedTopics, error) {
			return topics.ReadPredefinedTopicsFile(p)
		}, nil
	default:
		// dst.Merge(src): src entries win; afterwards dst is modified again (Add)
		var dst, src, post []Entry
		for _, e := range cfg {
			switch rng.Intn(4) {
			case 0:
				dst = append(dst, e)
			case 1:
				src = append(src, e)
			case 2:
				dst = append(dst, Entry{e.C, e.ID, "overridden/" + e.N})
				src = append(src, e)
			default:
				post = append(post, e)
			}
		}
		return "random/merge", func(int) (topics.PredefinedTopics, error) {
			d, _ := addBuilder(dst)(0)
			s, _ := addBuilder(src)(0)
			d.Merge(s)
			for _, e := range post {
				d.Add(e.C, e.N, uint16(e.ID))
			}
			return d, nil
		}, nil
	}
}

// mergeAliasingNote reports (informational, not a verdict) whether Merge shares
// inner maps between source and destination.
func mergeAliasingNote() string {
	dst := topics.PredefinedTopics{}
	src := topics.PredefinedTopics{}
	src.Add("c", "x", 1)
	dst.Merge(src)
	dst.Add("c", "y", 2)
	if _, ok := src["c"][2]; ok {
		return "NOTE merge-aliasing: dst.Merge(src) shares src's inner map for clients new to dst (a later dst.Add shows up in src)"
	}
	return "NOTE merge-aliasing: not observed"
}

func TestDrive(t *testing.T) {
	out := os.Getenv("VERIF_TRACE")
	if out == "" {
		t.Skip("VERIF_TRACE not set")
	}
	f, err := os.Create(out)
	if err != nil {
		t.Fatal(err)
	}
	defer f.Close()
	r := &runner{w: bufio.NewWriterSize(f, 1<<20), reps: 20, prog: os.Getenv("VERIF_PROGRESS")}
	defer r.w.Flush()
	if s := os.Getenv("VERIF_REPS"); s != "" {
		if r.reps, err = strconv.Atoi(s); err != nil || r.reps < 1 {
			t.Fatalf("bad VERIF_REPS %q", s)
		}
	}

	if p := os.Getenv("VERIF_VECTORS"); p != "" {
		vf, err := os.Open(p)
		if err != nil {
			t.Fatal(err)
		}
		sc := bufio.NewScanner(vf)
		sc.Buffer(make([]byte, 1<<20), 1<<26)
		k := 0
		for sc.Scan() {
			var v Vector
			if err := json.Unmarshal(sc.Bytes(), &v); err != nil {
				t.Fatalf("vector %d: %v", k, err)
			}
			want := append([]Entry{}, v.Cfg...)
			sort.Slice(want, func(i, j int) bool {
				if want[i].C != want[j].C {
					return want[i].C < want[j].C
				}
				return want[i].ID < want[j].ID
			})
			b := addBuilder(v.Cfg)
			m, _ := b(0)
			if !sameEntries(dump(m), want) {
				t.Fatalf("HARNESS: vector %d: the map built with Add does not hold the intended configuration", k)
			}
			if err := r.run(fmt.Sprintf("vector/%d", k), b, v.Names, v.IDs); err != nil {
				t.Fatalf("HARNESS: vector %d: %v", k, err)
			}
			k++
		}
		vf.Close()
	}

	for _, p := range strings.Split(os.Getenv("VERIF_YAML"), ":") {
		if p == "" {
			continue
		}
		m, err := topics.ReadPredefinedTopicsFile(p)
		if err != nil {
			t.Fatalf("HARNESS: %s: %v", p, err)
		}
		nq, iq := allQueries(dump(m))
		err = r.run("yaml/"+filepath.Base(p), func(int) (topics.PredefinedTopics, error) {
			return topics.ReadPredefinedTopicsFile(p)
		}, nq, iq)
		if err != nil {
			t.Fatalf("HARNESS: %s: %v", p, err)
		}
	}

	if s := os.Getenv("VERIF_RANDOM"); s != "" {
		n, err := strconv.Atoi(s)
		if err != nil {
			t.Fatalf("bad VERIF_RANDOM %q", s)
		}
		seed, _ := strconv.ParseInt(os.Getenv("VERIF_SEED"), 10, 64)
		rng := rand.New(rand.NewSource(seed))
		dir := t.TempDir()
		for k := 0; k < n; k++ {
			src, b, err := randomBuilder(rng, dir, k)
			if err != nil {
				t.Fatal(err)
			}
			m, err := b(0)
			if err != nil {
				t.Fatalf("HARNESS: %s #%d: %v", src, k, err)
			}
			nq, iq := allQueries(dump(m))
			if err := r.run(fmt.Sprintf("%s/%d", src, k), b, nq, iq); err != nil {
				t.Fatalf("HARNESS: %s #%d: %v", src, k, err)
			}
		}
	}
	fmt.Println(mergeAliasingNote())
	fmt.Printf("CONFIGS %d\n", r.nv)
}
