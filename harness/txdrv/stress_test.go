package txdrv

// Free-running instruments (real goroutines, real time, no bubble) for the
// clauses of C18 that a step-wise replay cannot observe: data races on the
// fields the model treats as atomic (build with -race) and the nil-timer
// window of NewTimedTransaction with a zero / minimal timeout.  A report of
// the race detector or a panic is the observation; nothing else is judged.

import (
	"context"
	"math/rand"
	"os"
	"strconv"
	"sync"
	"testing"
	"time"

	"github.com/energomonitor/bisquitt/transactions"
)

func envInt(name string, def int) int {
	if v, err := strconv.Atoi(os.Getenv(name)); err == nil {
		return v
	}
	return def
}

// TestStress runs the operation multisets of the model (<= 3 calls out of
// Success/Fail/Proceed/cancel) concurrently with a retry timer of a few
// microseconds.
func TestStress(t *testing.T) {
	ms := envInt("VERIF_STRESS_MS", 0)
	if ms == 0 {
		t.Skip("VERIF_STRESS_MS not set")
	}
	rng := rand.New(rand.NewSource(int64(envInt("VERIF_SEED", 1))))
	deadline := time.Now().Add(time.Duration(ms) * time.Millisecond)
	n := 0
	for time.Now().Before(deadline) {
		n++
		delay := time.Duration(1+rng.Intn(40)) * time.Microsecond
		count := uint(rng.Intn(3))
		ctx, cancel := context.WithCancel(context.Background())
		var tx interface {
			Success()
			Fail(error)
			Done() <-chan struct{}
		}
		var rt *transactions.RetryTransaction
		if rng.Intn(4) > 0 {
			rt = transactions.NewRetryTransaction(ctx, delay, count, func(interface{}) error { return nil }, func() {})
			rt.Proceed(nil, nil)
			tx = rt
		} else {
			// (immediate expiry of a timed transaction is TestNilTimer's business)
			tx = transactions.NewTimedTransaction(ctx, delay+20*time.Microsecond, func() {})
		}
		var wg sync.WaitGroup
		for i := 0; i < 3; i++ {
			op := rng.Intn(4)
			pause := time.Duration(rng.Intn(int(3*delay))) * time.Nanosecond
			wg.Add(1)
			go func() {
				defer wg.Done()
				time.Sleep(pause)
				switch op {
				case 0:
					tx.Success()
				case 1:
					tx.Fail(errUser)
				case 2:
					if rt != nil {
						rt.Proceed(nil, nil)
					}
				case 3:
					cancel()
				}
			}()
		}
		wg.Wait()
		tx.Success() // whatever happened: finish, so that no timer / watcher stays behind
		cancel()
	}
	t.Logf("STRESS-ITERATIONS %d", n)
}

// TestNilTimer creates timed transactions whose timer expires immediately.
func TestNilTimer(t *testing.T) {
	ms := envInt("VERIF_STRESS_MS", 0)
	if ms == 0 {
		t.Skip("VERIF_STRESS_MS not set")
	}
	deadline := time.Now().Add(time.Duration(ms) * time.Millisecond)
	n := 0
	for time.Now().Before(deadline) {
		for i := 0; i < 1000; i++ {
			n++
			ctx, cancel := context.WithCancel(context.Background())
			tx := transactions.NewTimedTransaction(ctx, time.Duration(i%2), func() {})
			<-tx.Done()
			cancel()
		}
	}
	t.Logf("NILTIMER-ITERATIONS %d", n)
}
