// Package txdrv drives the real transactions.{TransactionBase,RetryTransaction,
// TimedTransaction} through their public API.
//
// TestDrive: executes TLC-generated schedules (tla/Transactions.tla, forced
// mode) inside a testing/synctest bubble (exact virtual time).  The retry
// callback doubles as scheduler gate: it parks until the schedule releases it,
// which places Success()/Fail()/Proceed() *inside* RetryTransaction.timeout().
// After every step an observation line (NDJSON) is recorded; the lines are
// judged by tla/Trace_Transactions.tla.
//
//	$VERIF_SCHED    in : JSON array of Sched
//	$VERIF_TRACE    out: NDJSON
//	$VERIF_PROGRESS out: id of the schedule being executed (crash attribution)
//
// TestStress / TestNilTimer: free-running real goroutines (no bubble); used
// with a -race build as auxiliary instrument for the "no data race / no nil
// dereference" clause of C18.
package txdrv

import (
	"bufio"
	"context"
	"encoding/json"
	"errors"
	"os"
	"sync"
	"testing"
	"testing/synctest"
	"time"

	"github.com/energomonitor/bisquitt/transactions"
)

const tick = time.Second

type Ev struct {
	E   string `json:"e"`   // S | F | P | C | tick | rel | tS | tF | tP (tick with the call racing the expiry)
	Err bool   `json:"err"` // rel: the retry callback returns an error
}

type Sched struct {
	ID   string `json:"id"`
	Kind string `json:"kind"` // base | retry | timed
	RC   int    `json:"rc"`
	RD   int    `json:"rd"` // ticks
	TO   int    `json:"to"` // ticks (timed)
	Ev   []Ev   `json:"ev"`
	Tail int    `json:"tail"` // ticks to keep observing after the schedule
}

// Line is one observation after an event of the schedule; all fields always present (uniform records for TLC).
type Line struct {
	Tr      string `json:"tr"`
	I       int    `json:"i"`
	Kind    string `json:"kind"`
	RC      int    `json:"rc"`
	RD      int    `json:"rd"`
	TO      int    `json:"to"`
	Ev      string `json:"ev"`      // new | S | F | P | C | tick | rel | skip | end
	CbErr   bool   `json:"cberr"`   // rel: error returned by the callback
	Now     int    `json:"now"`     // virtual ticks since creation
	Exact   bool   `json:"exact"`   // virtual time is a whole number of ticks
	Done    bool   `json:"done"`    // Done() closed
	Err     string `json:"err"`     // nil | user | nomore | timeout | cb | other
	Fin     int    `json:"fin"`     // finally callback runs so far
	FinAD   int    `json:"finad"`   // ... of which started with Done already closed
	Cb      int    `json:"cb"`      // retry callback invocations so far
	CbAD    int    `json:"cbad"`    // ... of which started with Done already closed
	Parked  bool   `json:"parked"`  // a retry callback is parked on the gate
	PRet    int    `json:"pret"`    // Proceed calls that returned during this step
	Blocked int    `json:"blocked"` // API calls started and not yet returned
}

var (
	errUser = errors.New("user failure")
	errCb   = errors.New("retry callback failure")
)

type tx interface {
	Success()
	Fail(error)
	Done() <-chan struct{}
	Err() error
}

func errClass(e error) string {
	switch e {
	case nil:
		return "nil"
	case errUser:
		return "user"
	case errCb:
		return "cb"
	case transactions.ErrNoMoreRetries:
		return "nomore"
	case transactions.ErrTimeout:
		return "timeout"
	}
	return "other"
}

func isDone(t tx) bool {
	select {
	case <-t.Done():
		return true
	default:
		return false
	}
}

// world is the instrumented environment of one transaction.
type world struct {
	mu      sync.Mutex
	t       tx
	fin     int
	finad   int
	cb      int
	cbad    int
	parked  bool
	closed  bool // schedule over / racing step: callbacks return immediately
	release chan error
	pret    int
	started int
	ret     int
}

func (w *world) finally() {
	// the completion callback must have run by the time Done is closed: a callback that starts
	// with Done already closed was preceded by a window in which waiters saw "done, 0 callbacks"
	late := w.t != nil && isDone(w.t)
	w.mu.Lock()
	w.fin++
	if late {
		w.finad++
	}
	w.mu.Unlock()
}

func (w *world) retry(interface{}) error {
	w.mu.Lock()
	w.cb++
	// w.t is set before any timer can be armed (only Proceed arms it)
	if w.t != nil && isDone(w.t) {
		w.cbad++
	}
	if w.closed {
		w.mu.Unlock()
		return nil
	}
	w.parked = true
	w.mu.Unlock()
	err := <-w.release
	return err
}

func TestDrive(t *testing.T) {
	in, out := os.Getenv("VERIF_SCHED"), os.Getenv("VERIF_TRACE")
	if in == "" || out == "" {
		t.Skip("VERIF_SCHED/VERIF_TRACE not set")
	}
	raw, err := os.ReadFile(in)
	if err != nil {
		t.Fatal(err)
	}
	var scs []Sched
	if err := json.Unmarshal(raw, &scs); err != nil {
		t.Fatal(err)
	}
	f, err := os.Create(out)
	if err != nil {
		t.Fatal(err)
	}
	defer f.Close()
	bw := bufio.NewWriterSize(f, 1<<20)
	defer bw.Flush()
	prog := os.Getenv("VERIF_PROGRESS")
	for _, sc := range scs {
		if prog != "" {
			bw.Flush()
			os.WriteFile(prog, []byte(sc.ID), 0o644)
		}
		sc := sc
		emit := func(l Line) {
			b, _ := json.Marshal(l)
			bw.Write(b)
			bw.WriteByte('\n')
		}
		synctest.Test(t, func(t *testing.T) { runSched(sc, emit) })
	}
	if prog != "" {
		bw.Flush()
		os.WriteFile(prog, []byte("DONE"), 0o644)
	}
}

func runSched(sc Sched, emit func(Line)) {
	w := &world{release: make(chan error)}
	ctx, cancel := context.WithCancel(context.Background())
	start := time.Now()
	var rt *transactions.RetryTransaction
	switch sc.Kind {
	case "base":
		w.t = transactions.NewTransactionBase(w.finally)
	case "retry":
		rt = transactions.NewRetryTransaction(ctx, time.Duration(sc.RD)*tick, uint(sc.RC), w.retry, w.finally)
		w.mu.Lock()
		w.t = rt
		w.mu.Unlock()
	case "timed":
		tt := transactions.NewTimedTransaction(ctx, time.Duration(sc.TO)*tick, w.finally)
		w.mu.Lock()
		w.t = tt
		w.mu.Unlock()
	default:
		panic("unknown kind " + sc.Kind)
	}
	idx := 0
	observe := func(ev string, cberr bool) {
		synctest.Wait()
		el := time.Since(start)
		w.mu.Lock()
		l := Line{Tr: sc.ID, I: idx, Kind: sc.Kind, RC: sc.RC, RD: sc.RD, TO: sc.TO, Ev: ev, CbErr: cberr,
			Now: int(el / tick), Exact: el%tick == 0, Fin: w.fin, FinAD: w.finad, Cb: w.cb, CbAD: w.cbad, Parked: w.parked,
			PRet: w.pret, Blocked: w.started - w.ret}
		w.pret = 0
		w.mu.Unlock()
		l.Done = isDone(w.t)
		l.Err = errClass(w.t.Err())
		idx++
		emit(l)
	}
	call := func(isProceed bool, f func()) {
		w.mu.Lock()
		w.started++
		w.mu.Unlock()
		go func() {
			f()
			w.mu.Lock()
			w.ret++
			if isProceed {
				w.pret++
			}
			w.mu.Unlock()
		}()
	}
	isParked := func() bool {
		w.mu.Lock()
		defer w.mu.Unlock()
		return w.parked
	}
	rel := func(e error) {
		w.mu.Lock()
		w.parked = false
		w.mu.Unlock()
		w.release <- e
	}
	step := func(e Ev) {
		switch e.E {
		case "S":
			call(false, w.t.Success)
			observe("S", false)
		case "F":
			call(false, func() { w.t.Fail(errUser) })
			observe("F", false)
		case "P":
			// a Proceed issued while a callback is parked would block on the
			// retry mutex (not a durable block for synctest) and is equivalent to
			// a Proceed right after the release: the model never schedules it
			if rt == nil || isParked() {
				observe("skip", false)
				return
			}
			call(true, func() { rt.Proceed(nil, nil) })
			observe("P", false)
		case "C":
			cancel()
			observe("C", false)
		case "rel":
			if !isParked() {
				observe("skip", false)
				return
			}
			if e.Err {
				rel(errCb)
			} else {
				rel(nil)
			}
			observe("rel", e.Err)
		case "tS", "tF", "tP":
			// the call is issued at the very instant the timer expires: the root
			// wakes up together with the timer goroutine and does not wait for it
			// (either order may happen); the retry callback must not park because
			// the call may have to wait for timeout() to return
			if e.E == "tP" && rt == nil {
				observe("skip", false)
				return
			}
			for isParked() {
				rel(nil)
				observe("rel", false)
			}
			w.mu.Lock()
			w.closed = true
			w.mu.Unlock()
			time.Sleep(tick)
			switch e.E {
			case "tS":
				w.t.Success()
			case "tF":
				w.t.Fail(errUser)
			case "tP":
				rt.Proceed(nil, nil)
				w.mu.Lock()
				w.pret++
				w.mu.Unlock()
			}
			synctest.Wait()
			w.mu.Lock()
			w.closed = false
			w.mu.Unlock()
			observe(e.E, false)
		case "tick":
			// time never advances while a callback is parked: release it first
			for isParked() {
				rel(nil)
				observe("rel", false)
			}
			time.Sleep(tick)
			observe("tick", false)
		default:
			panic("unknown event " + e.E)
		}
	}
	observe("new", false)
	for _, e := range sc.Ev {
		step(e)
	}
	for i := 0; i < sc.Tail; i++ {
		step(Ev{E: "tick"})
	}
	for isParked() {
		rel(nil)
		observe("rel", false)
	}
	// leave the bubble: callbacks no longer park, the ctx watcher exits
	w.mu.Lock()
	w.closed = true
	w.mu.Unlock()
	cancel()
	observe("end", false)
}
