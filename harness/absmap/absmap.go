// Package absmap is the single, shared mapping between concrete wire data and
// the abstract records used by the TLA+ specifications (both directions):
// snref/mqref packets <-> uniform JSON records with derived attributes.
package absmap

import (
	"crypto/sha1"
	"encoding/hex"
	"fmt"
	"strings"

	"verif/harness/mqref"
	"verif/harness/snref"
)

// EncName maps a byte string used as a name to a JSON-safe token.
func EncName(b []byte) string {
	ok := !strings.HasPrefix(string(b), "x:")
	for _, c := range b {
		if c < 0x20 || c > 0x7e {
			ok = false
		}
	}
	if ok {
		return string(b)
	}
	return "x:" + hex.EncodeToString(b)
}

// DecName is the inverse of EncName.
func DecName(s string) []byte {
	if strings.HasPrefix(s, "x:") {
		b, err := hex.DecodeString(s[2:])
		if err == nil {
			return b
		}
	}
	return []byte(s)
}

// EncData maps a payload to a token: short printable payloads verbatim
// ("s:..."), others by length and hash.
func EncData(b []byte) string {
	if len(b) <= 24 {
		p := true
		for _, c := range b {
			if c < 0x20 || c > 0x7e {
				p = false
			}
		}
		if p {
			return "s:" + string(b)
		}
	}
	h := sha1.Sum(b)
	return fmt.Sprintf("h:%d:%s", len(b), hex.EncodeToString(h[:6]))
}

// Payload tokens: "s:text", "z:<n>" (n pseudo-random bytes from seed), "x:<hex>".
func DecData(tok string, seed int64) []byte {
	switch {
	case strings.HasPrefix(tok, "s:"):
		return []byte(tok[2:])
	case strings.HasPrefix(tok, "x:"):
		b, _ := hex.DecodeString(tok[2:])
		return b
	case strings.HasPrefix(tok, "z:"):
		var n int
		fmt.Sscanf(tok[2:], "%d", &n)
		b := make([]byte, n)
		x := uint64(seed)*6364136223846793005 + uint64(n) + 1442695040888963407
		for i := range b {
			x = x*6364136223846793005 + 1442695040888963407
			b[i] = byte(x >> 33)
		}
		return b
	}
	return []byte(tok)
}

func HasWild(s string) bool { return strings.ContainsAny(s, "+#") }

// Sn is the uniform abstract MQTT-SN packet record.
type Sn struct {
	T       string `json:"t"`
	Dup     bool   `json:"dup"`
	Qos     int    `json:"qos"`
	Retain  bool   `json:"retain"`
	Tit     int    `json:"tit"`
	Tid     int    `json:"tid"`
	Mid     int    `json:"mid"`
	Rc      int    `json:"rc"`
	Dur     int    `json:"dur"`
	HasDur  bool   `json:"hasdur"`
	Topic   string `json:"topic"`
	Wild    bool   `json:"wild"`
	Short   bool   `json:"short"`
	Sname   string `json:"sname"`
	Swild   bool   `json:"swild"`
	Data    string `json:"data"`
	Dlen    int    `json:"dlen"`
	Will    bool   `json:"will"`
	Clean   bool   `json:"clean"`
	Cid     string `json:"cid"`
	Method  string `json:"method"`
	Plain   bool   `json:"plain"`
	PlainOk bool   `json:"plainok"`
	User    string `json:"user"`
	Pass    string `json:"pass"`
	Empty   bool   `json:"empty"`
	// observation only
	Wf   bool   `json:"wf"`
	Size int    `json:"size"`
	Hex  string `json:"hex,omitempty"`
}

func shortName(id int) []byte { return []byte{byte(id >> 8), byte(id)} }

// ShortID of a 2-byte name.
func ShortID(name []byte) int {
	if len(name) != 2 {
		return -1
	}
	return int(name[0])<<8 | int(name[1])
}

// SnFromWire builds the abstract record for a datagram (observation side).
func SnFromWire(d []byte, max int) Sn {
	p, err := snref.Parse(d)
	r := Sn{Size: len(d)}
	if len(d) <= 40 {
		r.Hex = hex.EncodeToString(d)
	} else {
		r.Hex = hex.EncodeToString(d[:40]) + "..."
	}
	if err != nil {
		r.T = "JUNK"
		return r
	}
	r = SnFromPkt(p)
	r.Size = len(d)
	r.Hex = ""
	if len(d) <= 16 {
		r.Hex = hex.EncodeToString(d)
	}
	r.Wf = p.LenField == len(d) && len(d) <= max && p.Long == (len(d) > 255)
	return r
}

// SnFromPkt builds the abstract record of a parsed packet.
func SnFromPkt(p snref.Pkt) Sn {
	r := Sn{T: p.Name, Dup: p.Dup, Qos: p.QoS, Retain: p.Retain, Tit: p.TIT, Tid: p.TopicID,
		Mid: p.MsgID, Rc: p.RC, Dur: p.Duration, HasDur: p.HasDur, Will: p.Will, Clean: p.Clean,
		Empty: p.Empty}
	r.Topic = EncName([]byte(p.Topic))
	r.Wild = HasWild(p.Topic)
	r.Short = len(p.Topic) == 2
	r.Cid = EncName([]byte(p.ClientID))
	switch p.Type {
	case snref.PUBLISH, snref.SUBSCRIBE, snref.UNSUBSCRIBE:
		if p.TIT == 2 {
			sn := shortName(p.TopicID)
			r.Sname = EncName(sn)
			r.Swild = HasWild(string(sn))
		}
	}
	switch p.Type {
	case snref.PUBLISH, snref.WILLMSG, snref.WILLMSGUPD, snref.GWINFO:
		r.Data = EncData(p.Data)
		r.Dlen = len(p.Data)
	case snref.AUTH:
		r.Method = EncName([]byte(p.Method))
		r.Plain = p.Method == "PLAIN"
		parts := strings.Split(string(p.Data), "\x00")
		if len(parts) == 3 {
			r.PlainOk = true
			r.User = EncName([]byte(parts[1]))
			r.Pass = EncName([]byte(parts[2]))
		}
		r.Dlen = len(p.Data)
	}
	return r
}

// SnToPkt converts a schedule record to a concrete packet (generation side).
func SnToPkt(r Sn, seed int64) snref.Pkt {
	p := snref.Pkt{Type: snref.TypeCode(r.T), Name: r.T, Dup: r.Dup, QoS: r.Qos, Retain: r.Retain,
		TIT: r.Tit, TopicID: r.Tid, MsgID: r.Mid, RC: r.Rc, Duration: r.Dur, HasDur: r.HasDur || r.Dur != 0,
		Will: r.Will, Clean: r.Clean, Empty: r.Empty}
	p.Topic = string(DecName(r.Topic))
	p.ClientID = string(DecName(r.Cid))
	if r.Sname != "" && r.Tit == 2 {
		p.TopicID = ShortID(DecName(r.Sname))
	}
	switch p.Type {
	case snref.PUBLISH, snref.WILLMSG, snref.WILLMSGUPD, snref.GWINFO:
		p.Data = DecData(r.Data, seed)
	case snref.AUTH:
		p.Method = string(DecName(r.Method))
		if r.Data != "" {
			p.Data = DecData(r.Data, seed)
		} else {
			p.Data = []byte("\x00" + string(DecName(r.User)) + "\x00" + string(DecName(r.Pass)))
		}
	}
	return p
}

// Mq is the uniform abstract MQTT packet record.
type Mq struct {
	T          string `json:"t"`
	Dup        bool   `json:"dup"`
	Qos        int    `json:"qos"`
	Retain     bool   `json:"retain"`
	Topic      string `json:"topic"`
	Wild       bool   `json:"wild"`
	Short      bool   `json:"short"`
	Sid        int    `json:"sid"`
	Mid        int    `json:"mid"`
	Pl         string `json:"pl"`
	Plen       int    `json:"plen"`
	Tlen       int    `json:"tlen"` // length of the topic name in bytes
	Rc         int    `json:"rc"`
	Codes      []int  `json:"codes"`
	Ntopics    int    `json:"ntopics"`
	Rqos       int    `json:"rqos"`
	Cid        string `json:"cid"`
	Ka         int    `json:"ka"`
	Clean      bool   `json:"clean"`
	WillFlag   bool   `json:"willflag"`
	WillTopic  string `json:"willtopic"`
	WillMsg    string `json:"willmsg"`
	WillQos    int    `json:"willqos"`
	WillRetain bool   `json:"willretain"`
	HasUser    bool   `json:"hasuser"`
	User       string `json:"user"`
	HasPass    bool   `json:"haspass"`
	Pass       string `json:"pass"`
	// observation only
	Valid    bool     `json:"valid"`
	Problems []string `json:"problems"`
}

// MqFromPkt builds the abstract record of a parsed MQTT packet.
func MqFromPkt(p mqref.Pkt) Mq {
	r := Mq{T: p.Name, Dup: p.Dup, Qos: p.QoS, Retain: p.Retain, Mid: p.MsgID, Rc: p.RC,
		Codes: append([]int{}, p.Codes...), Ntopics: len(p.Topics), Ka: p.KeepAlive, Clean: p.Clean,
		WillFlag: p.WillFlag, WillQos: p.WillQoS, WillRetain: p.WillRetain, HasUser: p.HasUser,
		HasPass: p.HasPass, Sid: -1}
	if r.T == "" {
		r.T = "JUNK"
	}
	topic := p.Topic
	if len(p.Topics) > 0 {
		topic = p.Topics[0]
	}
	if len(p.QoSs) > 0 {
		r.Rqos = p.QoSs[0]
	}
	r.Topic = EncName([]byte(topic))
	r.Wild = HasWild(topic)
	r.Short = len(topic) == 2
	if r.Short {
		r.Sid = ShortID([]byte(topic))
	}
	r.Pl = EncData(p.Payload)
	r.Plen = len(p.Payload)
	r.Tlen = len(topic)
	r.Cid = EncName([]byte(p.ClientID))
	r.WillTopic = EncName([]byte(p.WillTopic))
	r.WillMsg = EncData(p.WillMsg)
	r.User = EncName([]byte(p.User))
	r.Pass = EncName(p.Pass)
	r.Problems = append([]string{}, p.Problems...)
	// semantic validity beyond syntax (MQTT 3.1.1)
	switch p.Type {
	case mqref.PUBLISH:
		if topic == "" {
			r.Problems = append(r.Problems, "empty topic name")
		}
		if HasWild(topic) {
			r.Problems = append(r.Problems, "wildcard in topic name")
		}
	case mqref.SUBSCRIBE, mqref.UNSUBSCRIBE:
		for _, t := range p.Topics {
			if t == "" {
				r.Problems = append(r.Problems, "empty topic filter")
			}
		}
	case mqref.CONNECT:
		if p.WillFlag && p.WillTopic == "" {
			r.Problems = append(r.Problems, "will flag with empty will topic")
		}
	}
	r.Valid = len(r.Problems) == 0
	return r
}

// MqToPkt converts a schedule record (broker -> gateway) to a concrete packet.
func MqToPkt(r Mq, seed int64) mqref.Pkt {
	p := mqref.Pkt{Name: r.T, Dup: r.Dup, QoS: r.Qos, Retain: r.Retain, MsgID: r.Mid, RC: r.Rc,
		Codes: r.Codes}
	for c, n := range map[int]string{1: "CONNECT", 2: "CONNACK", 3: "PUBLISH", 4: "PUBACK", 5: "PUBREC",
		6: "PUBREL", 7: "PUBCOMP", 8: "SUBSCRIBE", 9: "SUBACK", 10: "UNSUBSCRIBE", 11: "UNSUBACK",
		12: "PINGREQ", 13: "PINGRESP", 14: "DISCONNECT"} {
		if n == r.T {
			p.Type = c
		}
	}
	p.Topic = string(DecName(r.Topic))
	p.Payload = DecData(r.Pl, seed)
	if p.Type == mqref.SUBSCRIBE || p.Type == mqref.UNSUBSCRIBE {
		p.Topics = []string{p.Topic}
		p.QoSs = []int{r.Rqos}
	}
	return p
}
