// Package mqref is a strict MQTT 3.1.1 parser/serialiser used as the broker
// side observation function of the verification harness (the gateway itself
// uses paho's lenient codec).
package mqref

import (
	"encoding/binary"
	"fmt"
)

const (
	CONNECT     = 1
	CONNACK     = 2
	PUBLISH     = 3
	PUBACK      = 4
	PUBREC      = 5
	PUBREL      = 6
	PUBCOMP     = 7
	SUBSCRIBE   = 8
	SUBACK      = 9
	UNSUBSCRIBE = 10
	UNSUBACK    = 11
	PINGREQ     = 12
	PINGRESP    = 13
	DISCONNECT  = 14
)

var names = map[int]string{1: "CONNECT", 2: "CONNACK", 3: "PUBLISH", 4: "PUBACK", 5: "PUBREC",
	6: "PUBREL", 7: "PUBCOMP", 8: "SUBSCRIBE", 9: "SUBACK", 10: "UNSUBSCRIBE", 11: "UNSUBACK",
	12: "PINGREQ", 13: "PINGRESP", 14: "DISCONNECT"}

func TypeName(t int) string { return names[t] }

// Pkt is one MQTT control packet as found on the wire.
type Pkt struct {
	Type  int
	Name  string
	Flags int // low nibble of byte 1
	// publish
	Dup, Retain bool
	QoS         int
	Topic       string
	MsgID       int
	Payload     []byte
	// connect
	ProtoName                   string
	ProtoLevel                  int
	ConnFlags                   int
	Clean, WillFlag, WillRetain bool
	WillQoS                     int
	HasUser, HasPass            bool
	KeepAlive                   int
	ClientID                    string
	WillTopic                   string
	WillMsg                     []byte
	User                        string
	Pass                        []byte
	// connack
	SessionPresent bool
	RC             int
	// (un)subscribe
	Topics []string
	QoSs   []int
	Codes  []int
	// Syntax problems found by the strict parser (empty = valid MQTT 3.1.1 syntax).
	Problems []string
}

// Split extracts complete packets from a byte stream; returns packets and the rest.
func Split(buf []byte) (pkts [][]byte, rest []byte, err error) {
	for {
		if len(buf) < 2 {
			return pkts, buf, nil
		}
		rl, n := 0, 0
		mult := 1
		for i := 1; ; i++ {
			if i >= len(buf) {
				return pkts, buf, nil
			}
			if i > 4 {
				return pkts, buf, fmt.Errorf("bad remaining length")
			}
			rl += int(buf[i]&0x7f) * mult
			mult *= 128
			if buf[i]&0x80 == 0 {
				n = i + 1
				break
			}
		}
		if len(buf) < n+rl {
			return pkts, buf, nil
		}
		pkts = append(pkts, buf[:n+rl])
		buf = buf[n+rl:]
	}
}

type rd struct {
	b   []byte
	pos int
	bad bool
}

func (r *rd) u8() int {
	if r.pos+1 > len(r.b) {
		r.bad = true
		return 0
	}
	v := r.b[r.pos]
	r.pos++
	return int(v)
}
func (r *rd) u16() int {
	if r.pos+2 > len(r.b) {
		r.bad = true
		r.pos = len(r.b)
		return 0
	}
	v := binary.BigEndian.Uint16(r.b[r.pos:])
	r.pos += 2
	return int(v)
}
func (r *rd) bytes() []byte {
	n := r.u16()
	if r.bad || r.pos+n > len(r.b) {
		r.bad = true
		r.pos = len(r.b)
		return nil
	}
	v := r.b[r.pos : r.pos+n]
	r.pos += n
	return v
}
func (r *rd) restb() []byte { v := r.b[r.pos:]; r.pos = len(r.b); return v }
func (r *rd) more() bool    { return r.pos < len(r.b) }

// Parse parses exactly one complete packet (as returned by Split).
func Parse(raw []byte) Pkt {
	var p Pkt
	prob := func(f string, a ...interface{}) { p.Problems = append(p.Problems, fmt.Sprintf(f, a...)) }
	p.Type = int(raw[0] >> 4)
	p.Flags = int(raw[0] & 0x0f)
	p.Name = names[p.Type]
	if p.Name == "" {
		prob("reserved packet type %d", p.Type)
		return p
	}
	i := 1
	for raw[i]&0x80 != 0 {
		i++
	}
	r := &rd{b: raw[i+1:]}
	wantFlags := func(f int) {
		if p.Flags != f {
			prob("%s fixed header flags %d, want %d", p.Name, p.Flags, f)
		}
	}
	switch p.Type {
	case CONNECT:
		wantFlags(0)
		p.ProtoName = string(r.bytes())
		p.ProtoLevel = r.u8()
		p.ConnFlags = r.u8()
		f := p.ConnFlags
		p.Clean, p.WillFlag, p.WillQoS, p.WillRetain = f&2 != 0, f&4 != 0, (f>>3)&3, f&0x20 != 0
		p.HasPass, p.HasUser = f&0x40 != 0, f&0x80 != 0
		p.KeepAlive = r.u16()
		p.ClientID = string(r.bytes())
		if p.WillFlag {
			p.WillTopic = string(r.bytes())
			p.WillMsg = r.bytes()
		}
		if p.HasUser {
			p.User = string(r.bytes())
		}
		if p.HasPass {
			p.Pass = r.bytes()
		}
		if p.ProtoName != "MQTT" || p.ProtoLevel != 4 {
			prob("protocol %q level %d", p.ProtoName, p.ProtoLevel)
		}
		if f&1 != 0 {
			prob("reserved connect flag set")
		}
		if p.WillQoS > 2 {
			prob("will qos 3")
		}
		if !p.WillFlag && (p.WillQoS != 0 || p.WillRetain) {
			prob("will qos/retain without will flag")
		}
		if p.HasPass && !p.HasUser {
			prob("password without user name")
		}
	case CONNACK:
		wantFlags(0)
		p.SessionPresent = r.u8()&1 != 0
		p.RC = r.u8()
	case PUBLISH:
		p.Dup, p.QoS, p.Retain = p.Flags&8 != 0, (p.Flags>>1)&3, p.Flags&1 != 0
		p.Topic = string(r.bytes())
		if p.QoS > 0 {
			p.MsgID = r.u16()
		}
		p.Payload = r.restb()
		if p.QoS > 2 {
			prob("publish qos 3")
		}
		if p.QoS == 0 && p.Dup {
			prob("dup with qos 0")
		}
		if p.QoS > 0 && p.MsgID == 0 {
			prob("packet id 0")
		}
	case PUBACK, PUBREC, PUBCOMP, UNSUBACK:
		wantFlags(0)
		p.MsgID = r.u16()
	case PUBREL:
		wantFlags(2)
		p.MsgID = r.u16()
	case SUBSCRIBE:
		wantFlags(2)
		p.MsgID = r.u16()
		for r.more() && !r.bad {
			p.Topics = append(p.Topics, string(r.bytes()))
			q := r.u8()
			p.QoSs = append(p.QoSs, q)
			if q > 2 {
				prob("requested qos %d", q)
			}
		}
		if len(p.Topics) == 0 {
			prob("no topic filter")
		}
		if p.MsgID == 0 {
			prob("packet id 0")
		}
	case SUBACK:
		wantFlags(0)
		p.MsgID = r.u16()
		for r.more() {
			p.Codes = append(p.Codes, r.u8())
		}
	case UNSUBSCRIBE:
		wantFlags(2)
		p.MsgID = r.u16()
		for r.more() && !r.bad {
			p.Topics = append(p.Topics, string(r.bytes()))
		}
		if len(p.Topics) == 0 {
			prob("no topic filter")
		}
		if p.MsgID == 0 {
			prob("packet id 0")
		}
	case PINGREQ, PINGRESP, DISCONNECT:
		wantFlags(0)
	}
	if r.bad {
		prob("truncated")
	}
	if r.more() {
		prob("trailing bytes")
	}
	return p
}

func encLen(n int) []byte {
	var b []byte
	for {
		d := byte(n % 128)
		n /= 128
		if n > 0 {
			d |= 0x80
		}
		b = append(b, d)
		if n == 0 {
			return b
		}
	}
}
func str(s []byte) []byte { return append([]byte{byte(len(s) >> 8), byte(len(s))}, s...) }
func be(v int) []byte     { return []byte{byte(v >> 8), byte(v)} }

// Encode serialises a broker -> gateway packet (CONNACK, PUBLISH, PUBACK, PUBREC,
// PUBREL, PUBCOMP, SUBACK, UNSUBACK, PINGRESP) or any other type from its fields.
func Encode(p Pkt) []byte {
	var body []byte
	b0 := byte(p.Type << 4)
	switch p.Type {
	case CONNACK:
		sp := byte(0)
		if p.SessionPresent {
			sp = 1
		}
		body = []byte{sp, byte(p.RC)}
	case PUBLISH:
		if p.Dup {
			b0 |= 8
		}
		b0 |= byte(p.QoS&3) << 1
		if p.Retain {
			b0 |= 1
		}
		body = str([]byte(p.Topic))
		if p.QoS > 0 {
			body = append(body, be(p.MsgID)...)
		}
		body = append(body, p.Payload...)
	case PUBACK, PUBREC, PUBCOMP, UNSUBACK:
		body = be(p.MsgID)
	case PUBREL:
		b0 |= 2
		body = be(p.MsgID)
	case SUBACK:
		body = be(p.MsgID)
		for _, c := range p.Codes {
			body = append(body, byte(c))
		}
	case SUBSCRIBE:
		b0 |= 2
		body = be(p.MsgID)
		for i, t := range p.Topics {
			body = append(body, str([]byte(t))...)
			body = append(body, byte(p.QoSs[i]))
		}
	case UNSUBSCRIBE:
		b0 |= 2
		body = be(p.MsgID)
		for _, t := range p.Topics {
			body = append(body, str([]byte(t))...)
		}
	case CONNECT:
		body = append(str([]byte("MQTT")), 4, byte(p.ConnFlags))
		body = append(body, be(p.KeepAlive)...)
		body = append(body, str([]byte(p.ClientID))...)
	case PINGREQ, PINGRESP, DISCONNECT:
	}
	out := append([]byte{b0}, encLen(len(body))...)
	return append(out, body...)
}
