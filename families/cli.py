"""Family cli: C30 (predefined-topic configuration means the same in every tool) and
C31 (credentials never in plaintext unless allowed).

Method (see docs/cli.md): the TLA+ spec tla/Cli.tla is checked by TLC (Prop_C30 / Prop_C31 /
Prop_C31Lib, plus deviation runs that must FAIL, as a vacuity guard) and EMITS the cases
(configurations, the flag matrix, Connect()-retry schedules).  harness/clidrv runs the real
binaries built from VERIF_REPO over loopback (and the real client library in a synctest
bubble) and records what they did; tla/Trace_Cli.tla (TLC again, one batch run) judges the
records against the spec's tables and names the mechanism of every deviation.
"""
import json, os, random, signal, subprocess, time

import vlib

TOOLS = ["bisquitt", "bisquitt-pub", "bisquitt-sub"]
QCLIENTS = ["c1", "c2"]
QIDS = [1, 2]
QNAMES = ["top/x", "top/y"]

ASSUMPTIONS = [
    "A-tlc/A-go: TLC 1.8 + CommunityModules Json, go1.26.8",
    "the binaries are built from VERIF_REPO with -tags verif (the tag adds exported accessors only)",
    "real time over loopback UDP/TCP: every wait is event driven with a generous bound; a missed bound is "
    "exit 2 (inconclusive), never a violation",
    "observation functions are the independent codecs harness/snref and harness/mqref",
    "the tools run with an empty environment except for the variables a case sets",
    "'gateway is listening' = the process owns a bound UDP socket on 127.0.0.1 (procfs)",
]


def canon(x):
    return json.dumps(x, sort_keys=True)


# ---------------------------------------------------------------- TLC on the spec

def spec_check(cfg, marker=None, timeout=300):
    res = vlib.tlc("Cli", cfg, workers=1, timeout=timeout)
    if not vlib.tlc_ok(res):
        # a counterexample on the spec is a spec problem, not a verdict about the code (DESIGN 5.1)
        raise vlib.Inconclusive("TLC did not verify %s on the spec:\n%s" % (cfg, res["out"][-3000:]))
    items = []
    if marker:
        items = [json.loads(x) for x in vlib.tlc_printed(res, marker)]
    return res, items


def must_fail(cfg, invariant):
    """Vacuity guard: with the deviation switched on TLC must find a counterexample."""
    res = vlib.tlc("Cli", cfg, workers=1, timeout=300)
    if ("Invariant %s is violated" % invariant) not in res["out"]:
        raise vlib.Inconclusive("vacuity guard: %s did not violate %s\n%s" % (cfg, invariant, res["out"][-2000:]))
    return res


# ---------------------------------------------------------------- running the driver

def run_driver(binary, test, sched_obj, timeout, tag):
    """Run the driver in its own process group so that no tool survives it."""
    sc = vlib.scratch()
    sched = os.path.join(sc, "sched-%s.json" % tag)
    trace = os.path.join(sc, "trace-%s.ndjson" % tag)
    with open(sched, "w") as fh:
        json.dump(sched_obj, fh)
    if os.path.exists(trace):
        os.remove(trace)
    env = dict(os.environ)
    env.update(VERIF_SCHED=sched, VERIF_TRACE=trace, VERIF_TMP=sc)
    cmd = [binary, "-test.run", "^%s$" % test, "-test.count=1", "-test.timeout", "%ds" % (timeout + 60)]
    p = subprocess.Popen(cmd, env=env, cwd=sc, stdout=subprocess.PIPE, stderr=subprocess.STDOUT, text=True,
                         start_new_session=True)
    try:
        out, _ = p.communicate(timeout=timeout)
        rc = p.returncode
    except subprocess.TimeoutExpired:
        rc, out = 124, "[driver timeout]"
    finally:
        try:
            os.killpg(p.pid, signal.SIGKILL)
        except (ProcessLookupError, PermissionError):
            pass
        try:
            p.wait(timeout=10)
        except Exception:
            pass
    lines = []
    if os.path.exists(trace):
        for ln in open(trace):
            ln = ln.strip()
            if ln:
                lines.append(json.loads(ln))
    return rc, out, lines


def drive_cli(drv, bins, cases, timeout, tag, soft=0):
    """Run CLI cases; cases whose observation was inconclusive are retried once with little load.
    soft > 0: cases not started after `soft` seconds are skipped (returned as such, not inconclusive)."""
    def sched(cs, workers):
        return dict(bins=bins, workers=workers, wait_ms=30000, absence_ms=400, deadline_s=max(30, timeout - 10),
                    soft_s=soft, cases=cs)
    rc, out, lines = run_driver(drv, "TestDrive", sched(cases, vlib.NCPU), timeout, tag)
    got = {l["id"]: l for l in lines}
    if rc != 0:
        raise vlib.Inconclusive("clidrv failed (rc %d) after %d/%d cases:\n%s" % (rc, len(got), len(cases), out[-3000:]))
    if soft:
        cases = [c for c in cases if c["id"] in got]     # the rest was not started: budget
    redo = [c for c in cases if c["id"] not in got or got[c["id"]].get("inconclusive")]
    if redo and len(redo) <= max(10, len(cases) // 10):
        rc2, out2, lines2 = run_driver(drv, "TestDrive", sched(redo, 2), min(timeout, 300), tag + "-retry")
        for l in lines2:
            got[l["id"]] = l
    bad = [(c["id"], got.get(c["id"], {}).get("inconclusive", "no record")) for c in cases
           if c["id"] not in got or got[c["id"]].get("inconclusive")]
    return [got[c["id"]] for c in cases if c["id"] in got and not got[c["id"]].get("inconclusive")], bad


# ---------------------------------------------------------------- TLC as the judge

def judge(lines, timeout=900):
    text = "".join(json.dumps(l) + "\n" for l in lines)
    res = vlib.tlc("Trace_Cli", "Trace_Cli.cfg", workers=1, files={"Trace_Cli.ndjson": text}, timeout=timeout)
    got = vlib.tlc_printed(res, "RESULT:")
    if not vlib.tlc_ok(res) or not got:
        raise vlib.Inconclusive("trace validation did not complete (model gap or TLC problem):\n%s" % res["out"][-3000:])
    r = json.loads(got[-1])
    if r["consumed"] != len(lines) or r["lines"] != len(lines):
        raise vlib.Inconclusive("trace validation consumed %s of %d lines" % (r["consumed"], len(lines)))
    return r, res


def to_violations(result, by_id, case_of):
    vs = []
    for v in result["viol"]:
        line = by_id.get(v["id"], {})
        what = "case %s: observed %s, spec allows %s" % (v["id"], canon(v["obs"]), canon(v["exp"]))
        vs.append(dict(sig=v["sig"], what=what[:600],
                       replay=dict(sig=v["sig"], case=case_of.get(v["id"]), observed=v["obs"], allowed=v["exp"],
                                   record=line)))
    vs.sort(key=lambda v: (v["sig"], v["replay"]["case"]["id"] if v["replay"]["case"] else ""))
    return vs


# ---------------------------------------------------------------- C30

def c30_features(c):
    """What a configuration exercises (used to make the quick sample cover every clause of the property)."""
    f = set()
    key = lambda o: o["c"] if o["hasc"] else "*"
    fmap = {(e["c"], e["id"]): e["n"] for e in c["file"]}
    o = c["opts"]
    f.add("file" if c["hasfile"] else "nofile")
    f.add("opts%d" % len(o))
    if len(o) == 2 and key(o[0]) == key(o[1]) and o[0]["id"] == o[1]["id"] and o[0]["n"] != o[1]["n"]:
        f.add("later-overrides-earlier")
    for x in o:
        k = (key(x), x["id"])
        f.add("option-overrides-file" if k in fmap and fmap[k] != x["n"] else "option-adds" if k not in fmap else "option-same")
        f.add("option-without-client" if not x["hasc"] else "option-with-client")
    for i in QIDS:
        if ("c1", i) in fmap and ("*", i) in fmap and fmap[("c1", i)] != fmap[("*", i)]:
            f.add("client-entry-shadows-star")
    # (sampling aid only, never used for a verdict) the effective map, to make sure the sample contains
    # configurations in which a "*" id is overridden for c1 and c1 has no id of its own for that name
    eff = dict(fmap)
    for x in o:
        eff[(key(x), x["id"])] = x["n"]
    own = {n for (k, i), n in eff.items() if k == "c1"}
    for i in QIDS:
        if ("c1", i) in eff and ("*", i) in eff and eff[("c1", i)] != eff[("*", i)] and eff[("*", i)] not in own:
            f.add("lookup-by-name-must-skip-shadowed-star-id")
    if c["hasfile"] and not o:
        f.add("file-only")
    if not c["hasfile"] and o:
        f.add("options-only")
    if c["hasfile"] and not c["file"]:
        f.add("empty-file")
    return f


def sample_c30(cases, rng, n=32, per_feature=2):
    feats = {}
    for c in cases:
        for f in c30_features(c):
            feats.setdefault(f, []).append(c)
    pick = {}
    for f in sorted(feats):
        for c in rng.sample(feats[f], min(per_feature, len(feats[f]))):
            pick[c["id"]] = c
    rest = [c for c in cases if c["id"] not in pick]
    for c in rng.sample(rest, max(0, n - len(pick))):
        pick[c["id"]] = c
    return sorted(pick.values(), key=lambda c: c["id"])


def sample_c31(cases, rng, per_tool=20):
    """Quick sample of the flag matrix: for every tool, every flag whose value decides the outcome is present
    once as a flag and once as an environment variable with the other flags set so that it does decide."""
    pick = {}
    given = lambda c, k: c[k] in ("flag", "env")
    for tool in TOOLS:
        mine = [c for c in cases if c["tool"] == tool]
        plain = [c for c in mine if not c["empty"]]
        def one(pred):
            cand = [c for c in plain if pred(c) and c["id"] not in pick]
            if cand:
                c = rng.choice(cand)
                pick[c["id"]] = c
        for src in ("flag", "env"):
            one(lambda c: c["cred"] == src and not given(c, "dtls") and not given(c, "insec"))   # must refuse
            one(lambda c: c["insec"] == src and given(c, "cred") and not given(c, "dtls"))       # may talk in clear
            one(lambda c: c["dtls"] == src and given(c, "cred") and not given(c, "insec"))       # must use DTLS
            one(lambda c: c["pw"] == src and not given(c, "cred") and not given(c, "dtls"))      # password only: no AUTH
        for src in ("flag0", "env0"):
            # an option explicitly set to false is not given: credentials + "--insecure=false" must refuse, ...
            one(lambda c: c["insec"] == src and given(c, "cred") and not given(c, "dtls"))
            one(lambda c: c["dtls"] == src and given(c, "cred") and not given(c, "insec"))
            one(lambda c: c["cred"] == src and not given(c, "dtls"))
        one(lambda c: not given(c, "cred") and not given(c, "dtls") and not given(c, "insec") and not given(c, "pw"))
        one(lambda c: not given(c, "cred") and given(c, "dtls"))
        empties = [c for c in mine if c["empty"]]
        for c in rng.sample(empties, min(2, len(empties))):
            pick[c["id"]] = c
        have = len([c for c in pick.values() if c["tool"] == tool])
        rest = [c for c in mine if c["id"] not in pick]
        for c in rng.sample(rest, max(0, per_tool - have)):
            pick[c["id"]] = c
    return sorted(pick.values(), key=lambda c: c["id"])


def c30_cases(tier):
    r1, items = spec_check("Cli_C30.cfg", "CASE:")
    if len(items) != r1["distinct"]:
        raise vlib.Inconclusive("TLC emitted %d configurations for %d states" % (len(items), r1["distinct"]))
    r2 = must_fail("Cli_C30_dev.cfg", "Prop_C30")
    items.sort(key=lambda c: (len(c["opts"]), c["hasfile"], canon(c["file"]), canon(c["opts"])))
    cases = []
    for n, it in enumerate(items):
        cases.append(dict(k="c30", id="cfg-%04d" % n, hasfile=it["hasfile"], file=it["file"], opts=it["opts"],
                          clients=QCLIENTS, ids=QIDS, names=QNAMES, expect=dict(gw=it["gw"], pub=it["pub"])))
    total = len(cases)
    if tier == "thorough":
        # representatives of the name-swap / id-swap symmetry classes first: if the time budget does not
        # allow all configurations, what was run is still a complete set of classes
        cases.sort(key=lambda c: (not is_representative(c), c["id"]))
    if tier == "quick":
        cases = sample_c30(cases, random.Random(vlib.seed()))
    return cases, total, [r1, r2]


def _image(c, swap_names, swap_ids):
    nm = {"top/x": "top/y", "top/y": "top/x"} if swap_names else {}
    im = {1: 2, 2: 1} if swap_ids else {}
    f = sorted(canon(dict(c=e["c"], id=im.get(e["id"], e["id"]), n=nm.get(e["n"], e["n"]))) for e in c["file"])
    o = [canon(dict(hasc=e["hasc"], c=e["c"], id=im.get(e["id"], e["id"]), n=nm.get(e["n"], e["n"]))) for e in c["opts"]]
    return canon([c["hasfile"], f, o])


def is_representative(c):
    imgs = [_image(c, a, b) for a in (False, True) for b in (False, True)]
    return imgs[0] == min(imgs)


def strip_case(c):
    return {k: v for k, v in c.items() if k != "expect"}


def run_c30(tier, replay):
    t0 = time.time()
    tlc_runs = []
    if replay:
        payload = json.load(open(replay))
        cases, total = [payload["case"]], 1
    else:
        cases, total, tlc_runs = c30_cases(tier)
    bins = {t: vlib.build_cmd("./cmd/" + t, t) for t in TOOLS}
    drv = vlib.build_driver("clidrv")
    budget = 400 if tier == "quick" else 1050   # hard bound only; idle: quick ~10 s, thorough ~6 min
    lines, bad = drive_cli(drv, bins, [strip_case(c) for c in cases], budget, "c30",
                           soft=0 if tier == "quick" else 840)
    skipped = len(cases) - len(lines) - len(bad)
    if skipped:
        print("C30 %s: time budget reached, %d configurations not run" % (tier, skipped))
    case_of = {c["id"]: strip_case(c) for c in cases}
    viol, result = [], dict(nontrivial=0)
    if lines:
        result, jres = judge(lines)
        tlc_runs.append(jres)
        viol = to_violations(result, {l["id"]: l for l in lines}, case_of)
    rc, n_new, n_known = vlib.verdict("C30", viol)
    nobs = sum(len(l["obs"]) for l in lines)
    cov = dict(states=sum(r["distinct"] for r in tlc_runs) or 1, transitions=sum(r["generated"] for r in tlc_runs) or 1,
               traces_validated_against_impl=len(lines),
               evaluations=nobs, distinct_nontrivial=result.get("nontrivial", 0),
               rule="TLC enumerates every configuration (file in all partial maps {c1,*}x{1,2}->{top/x,top/y} or no file; "
                    "option lists of length <=2 with/without client id) = %d; %s; each is given to bisquitt (4 sessions: "
                    "clients c1,c2 x predefined ids 1,2), bisquitt-pub and bisquitt-sub (clients c1,c2 x names) = 12 "
                    "queries per configuration; non-trivial = the spec predicts a predefined mapping for the query"
                    % (total, "all of them scheduled, representatives of the name/id-swap symmetry classes first" if tier == "thorough" else "%d sampled by VERIF_SEED" % len(cases)),
               exhaustive=(tier == "thorough" and not replay and len(lines) == total),
               configurations_total=total, configurations_run=len(lines), inconclusive_cases=len(bad),
               symmetry_representatives_run=sum(1 for l in lines if is_representative(case_of[l["id"]])),
               violating_observations=len(viol), distinct_signatures=sorted({v["sig"] for v in viol}),
               samples=[dict(case=case_of[l["id"]], argv=l["argv"], obs=l["obs"][:12]) for l in
                        sorted(lines, key=lambda l: (-sum(o["kind"] in ("sub", "predef") for o in l["obs"]), l["id"]))[:2]]
               or [dict(none=True)])
    if bad and rc == 0:
        rc = 2
        print("INCONCLUSIVE property=C30: %d case(s) could not be observed, e.g. %s: %s" % (len(bad), bad[0][0], bad[0][1]))
    print("C30 %s: %d/%d configurations, %d observations judged by TLC, %d deviating (%d new / %d known signatures)"
          % (tier, len(lines), total, nobs, len(viol), n_new, n_known))
    vlib.write_evidence("C30", tier, "model_checking", cov, time.time() - t0, violations=n_new, assumptions=ASSUMPTIONS)
    return rc


# ---------------------------------------------------------------- C31

def c31_cases(tier):
    r1, runs = spec_check("Cli_C31.cfg", "RUN:")
    if len(runs) == 0:
        raise vlib.Inconclusive("TLC emitted no runs")
    r2, libs = spec_check("Cli_C31lib.cfg", "LIB:")
    guards = [must_fail("Cli_C31_dev1.cfg", "Prop_C31"), must_fail("Cli_C31_dev2.cfg", "Prop_C31"),
              must_fail("Cli_C31lib_dev1.cfg", "Prop_C31Lib"), must_fail("Cli_C31lib_dev2.cfg", "Prop_C31Lib")]
    runs.sort(key=canon)
    cases = []
    for n, it in enumerate(runs):
        r = it["run"]
        cases.append(dict(k="c31", id="run-%03d" % n, tool=r["tool"], cred=r["cred"], pw=r["pw"], dtls=r["dtls"],
                          insec=r["insec"], empty=r["empty"], expect=it["exp"]))
    total = len(cases)
    if tier == "quick":
        cases = sample_c31(cases, random.Random(vlib.seed()))
    seen, libcases = set(), []
    for it in sorted(libs, key=canon):
        key = canon([it["user"], it["pw"], it["events"]])
        if key in seen:
            continue
        seen.add(key)
        libcases.append(dict(id="lib-%03d" % len(libcases), user=it["user"], pw=it["pw"], retrycount=it["retrycount"],
                             events=it["events"], expect=it["expect"]))
    return cases, total, libcases, [r1, r2] + guards


def run_c31(tier, replay):
    t0 = time.time()
    tlc_runs = []
    if replay:
        payload = json.load(open(replay))
        c = payload["case"]
        cases, libcases, total = ([c], [], 1) if c.get("k") == "c31" else ([], [c], 1)
    else:
        cases, total, libcases, tlc_runs = c31_cases(tier)
    bins = {t: vlib.build_cmd("./cmd/" + t, t) for t in TOOLS} if cases else {}
    drv = vlib.build_driver("clidrv")
    lines, bad = [], []
    if cases:
        lines, bad = drive_cli(drv, bins, [strip_case(c) for c in cases], 400 if tier == "quick" else 900, "c31")
    liblines = []
    if libcases:
        prog = os.path.join(vlib.scratch(), "lib-progress")
        os.environ["VERIF_PROGRESS"] = prog
        rc, out, liblines = run_driver(drv, "TestDriveLib", libcases, 300, "c31lib")
        os.environ.pop("VERIF_PROGRESS", None)
        if rc != 0 or len(liblines) != len(libcases):
            at = open(prog).read() if os.path.exists(prog) else "?"
            raise vlib.Inconclusive("library driver failed (rc %d) at schedule %s after %d/%d:\n%s"
                                    % (rc, at, len(liblines), len(libcases), out[-3000:]))
        for l in liblines:
            if l.get("inconclusive"):
                bad.append((l["id"], l["inconclusive"]))
        liblines = [l for l in liblines if not l.get("inconclusive")]
        # non-vacuity of the library half: the client really sent the CONNECTs the schedule asks for
        for l in liblines:
            if l["nconn"] < l["events"].count("connect"):
                bad.append((l["id"], "fewer CONNECTs on the wire than Connect() calls"))
    case_of = {c["id"]: strip_case(c) for c in cases}
    case_of.update({c["id"]: c for c in libcases})
    alllines = lines + liblines
    viol, result = [], dict(nontrivial=0)
    if alllines:
        result, jres = judge(alllines)
        tlc_runs.append(jres)
        viol = to_violations(result, {l["id"]: l for l in alllines}, case_of)
    rc, n_new, n_known = vlib.verdict("C31", viol)
    nsteps = sum(len(l["steps"]) for l in liblines)
    cov = dict(states=sum(r["distinct"] for r in tlc_runs) or 1, transitions=sum(r["generated"] for r in tlc_runs) or 1,
               traces_validated_against_impl=len(alllines),
               evaluations=len(lines) + nsteps, distinct_nontrivial=result.get("nontrivial", 0),
               rule="command line: TLC enumerates {--auth|--user, --password, --dtls(+--self-signed), --insecure} x "
                    "{absent, flag, env; boolean options also flag=false, env=false, one at a time} for the three tools "
                    "plus the empty-user variants = %d runs; %s. "
                    "library: one Connect()/retry/re-connect schedule per transition of SpecLib (%d), all executed on the "
                    "real client in a synctest bubble.  non-trivial = runs with credentials configured + schedule steps "
                    "in which the client sent a CONNECT" % (total, "all run" if tier == "thorough" else
                                                             "%d sampled by VERIF_SEED" % len(cases), len(libcases)),
               exhaustive=(tier == "thorough" and not replay),
               runs_total=total, runs_executed=len(lines), lib_schedules=len(liblines), lib_steps=nsteps,
               inconclusive_cases=len(bad), violating_observations=len(viol),
               distinct_signatures=sorted({v["sig"] for v in viol}),
               samples=([{k: l[k] for k in ("id", "tool", "cred", "pw", "dtls", "insec", "empty", "argv", "env", "obs",
                                            "wire", "plainauth", "rc")} for l in lines[:3]]
                        + [dict(id=l["id"], user=l["user"], pw=l["pw"], steps=l["steps"]) for l in liblines[-2:]])
               or [dict(none=True)])
    if bad and rc == 0:
        rc = 2
        print("INCONCLUSIVE property=C31: %d case(s) could not be observed, e.g. %s: %s" % (len(bad), bad[0][0], bad[0][1]))
    print("C31 %s: %d/%d command-line runs + %d library schedules (%d steps) judged by TLC, %d deviating "
          "(%d new / %d known signatures)" % (tier, len(lines), total, len(liblines), nsteps, len(viol), n_new, n_known))
    vlib.write_evidence("C31", tier, "model_checking", cov, time.time() - t0, violations=n_new, assumptions=ASSUMPTIONS)
    return rc


def run(prop, tier, replay=None):
    if prop == "C30":
        return run_c30(tier, replay)
    if prop == "C31":
        return run_c31(tier, replay)
    raise vlib.Inconclusive("family cli does not serve " + prop)
