"""Listener half of C15: the real gateway.Gateway (UDP accept loop, one handler + one broker connection per peer
address) over loopback sockets.  tla/Listener.tla is the model, tla/MC_Listener.tla enumerates every event sequence of
up to MaxEvents events of up to three peers (peers named in order of first appearance) and checks the model against its
own clauses, harness/lsndrv executes the maximal sequences in real time, tla/Trace_Listener.tla judges the records."""
import json, os
import vlib

DEPTH = {"quick": 3, "thorough": 4}


def mc_cfg(depth, emit):
    return "\n".join(["SPECIFICATION Spec", "CHECK_DEADLOCK FALSE", "INVARIANTS DesignOK TypeOK", "CONSTANTS", "  NPeers = 3",
                      "  MaxEvents = %d" % depth, "  Emit = %s" % ("TRUE" if emit else "FALSE")]) + "\n"


def run_half(tier, rnd, replay=None):
    """returns (violations, coverage)"""
    if replay:
        scheds = [replay]
        res = dict(distinct=0, generated=0)
    else:
        depth = DEPTH[tier]
        res = vlib.tlc("MC_Listener", "mc.cfg", files={"mc.cfg": mc_cfg(depth, True)}, workers=4, timeout=1200)
        if not vlib.tlc_ok(res):
            raise vlib.Inconclusive("design check of the listener model failed:\n" + res["out"][-2000:])
        scheds = [json.loads(x) for x in vlib.tlc_printed(res, "SCHED:")]
        scheds = [d for d in scheds if len(d["events"]) == depth]
        if tier == "quick" and len(scheds) > 400:
            # all sequences that involve at least two peers first, then a seeded sample of the rest
            multi = [d for d in scheds if len({e["p"] for e in d["events"]}) > 1]
            solo = [d for d in scheds if len({e["p"] for e in d["events"]}) == 1]
            scheds = (multi if len(multi) <= 400 else rnd.sample(multi, 400)) + rnd.sample(solo, min(40, len(solo)))
        for i, d in enumerate(scheds):
            d["id"] = "C15-lsn-%d" % i
    binary = vlib.build_driver("lsndrv")
    sc = vlib.scratch()

    def execute(todo, nproc, tag):
        parts = vlib.chunks(todo, max(1, nproc))

        def one(arg):
            k, part = arg
            sp, tp, pp = (os.path.join(sc, "lsn%s-%s-%d" % (tag, x, k)) for x in ("sched", "trace", "prog"))
            json.dump(part, open(sp, "w"))
            rc, out = vlib.run_driver(binary, {"VERIF_SCHED": sp, "VERIF_TRACE": tp, "VERIF_PROGRESS": pp}, run="TestListener", timeout=1500)
            if rc != 0:
                if "panic:" in out:
                    return [], {"scenario": part, "output": out[-2500:], "at": open(pp).read() if os.path.exists(pp) else "?"}
                raise vlib.Inconclusive("lsndrv failed (rc=%d): %s" % (rc, out[-1500:]))
            return [json.loads(l) for l in open(tp)], None

        lines, crashes = [], []
        for ls, crash in vlib.pmap(one, list(enumerate(parts))):
            lines += ls
            if crash:
                crashes.append(crash)
        return lines, crashes

    def judge(lines):
        txt = "".join(json.dumps(l) + "\n" for l in lines)
        r = vlib.tlc("Trace_Listener", "Trace_Listener.cfg", files={"trace.ndjson": txt}, workers=1, timeout=1200)
        out = vlib.tlc_printed(r, "RESULT:")
        if not vlib.tlc_ok(r) or not out:
            raise vlib.Inconclusive("listener trace validation did not complete:\n" + r["out"][-2500:])
        d = json.loads(out[-1])
        if d["stat"]["lines"] != len(lines):
            raise vlib.Inconclusive("listener trace not fully consumed")
        return d

    lines, crashes = execute(scheds, vlib.NCPU, "a")
    violations = []
    for crash in crashes:
        violations.append({"sig": "C15/listener-process-died/x", "what": "the gateway process died at schedule " + crash["at"],
                           "replay": {"listener": True, "schedule": next((s for s in crash["scenario"] if s["id"] == crash["at"]), crash["scenario"][0]),
                                      "output": crash["output"]}})
    d = judge(lines)
    if d["stat"]["setup"] > max(2, len(scheds) // 10):
        raise vlib.Inconclusive("the listener driver could not set up %d of %d runs" % (d["stat"]["setup"], len(scheds)))
    byid = {s["id"]: s for s in scheds}
    # real sockets in real time: a schedule that produced a violation is executed once more, alone, and the
    # violation stands only if the same clause is violated again (a delayed datagram on a loaded machine is not a
    # property violation; a defect shows up every time)
    suspects = sorted({v["tr"] for v in d["viol"]})
    confirmed, unconfirmed = [], 0
    if suspects:
        lines2, _ = execute([byid[t] for t in suspects[:200]], 2, "b")
        d2 = judge(lines2)
        again = {(v["tr"], v["tag"]) for v in d2["viol"]}
        bytr = {}
        for l in lines2:
            bytr.setdefault(l["tr"], []).append(l)
        for v in d["viol"]:
            if (v["tr"], v["tag"]) in again:
                confirmed.append(v)
            else:
                unconfirmed += 1
        for v in confirmed:
            violations.append({"sig": v["tag"], "what": "listener run %s event %d (reproduced in a second, isolated run)" % (v["tr"], v["i"]),
                               "replay": {"listener": True, "schedule": byid.get(v["tr"]), "line": v["i"], "trace": bytr.get(v["tr"], [])}})
    if unconfirmed > max(3, len(scheds) // 20):
        raise vlib.Inconclusive("%d listener observations did not reproduce in an isolated second run: machine too loaded for the real-time runs" % unconfirmed)
    cov = dict(model_states=res["distinct"], schedules=len(scheds), steps=d["stat"], situations=sorted(d["cover"]),
               rerun_schedules=len(suspects), not_reproduced=unconfirmed)
    return violations, cov
