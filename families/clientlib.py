"""Check family `clientlib`: the MQTT-SN client library /repo/client (C17, C27, C28, C33 and the
client halves of C06, C16(F16), C23, C25).

Technique: tla/ClientLib.tla (explicit TLA+ model of one client.Client) checked by TLC;
TLC-generated schedules (one per transition of the state graph, counterexamples of the named
deviations, random walks, matching vectors) are executed on the real Client by harness/cldrv
inside a testing/synctest bubble; the recorded NDJSON traces are judged by TLC with
tla/Trace_ClientLib.tla (named clauses -> signatures).  See docs/clientlib.md.
"""
import json, os, random, re, sys, time

sys.path.insert(0, os.path.join(os.path.dirname(os.path.dirname(os.path.abspath(__file__))), "lib"))
import vlib

TECH = "TLA+ spec tla/ClientLib.tla checked by TLC + conformance (schedules from TLC replayed on the real client, traces judged by TLC)"

# property -> model-checking configurations (cfg file, MaxEv quick, MaxEv thorough, deviations that
# must yield a counterexample to this property, simulate depth)
FAMILIES = {
    "C17": dict(cfgs=[("MC_ClientLib_C17.cfg", 8, 9), ("MC_ClientLib_C17x.cfg", 8, 8, "all")], devs=["NoDupPublish", "PubrelDropped", "NilOnTerminate"],
                devsigs=["C17/retransmit-no-dup", "C17/pubrel-unanswered", "C17/publish-result-vs-ack"],
                devmax=7, quick_sample=900, sim=(60, 30)),
    "C27": dict(cfgs=[("MC_ClientLib_C27.cfg", 7, 8), ("MC_ClientLib_C27u.cfg", 10, 11, "all"),
                      ("MC_ClientLib_C27q.cfg", 13, 15, "all"),
                      ("MC_ClientLib_C27w.cfg", 15, 16, "all")], devs=[], quick_sample=150, sim=(60, 30),
                repeat=1, repeat_thorough=3, vectors=True),
    "C28": dict(cfgs=[("MC_ClientLib_C28.cfg", 5, 6), ("MC_ClientLib_C28ka.cfg", 5, 6),
                      ("MC_ClientLib_C28r.cfg", 5, 6, "all"),
                      ("MC_ClientLib_C28g.cfg", 8, 9, "all")], devs=["KaSync", "NilOnTerminate"],
                devsigs=["C28/goroutines-after-end"],
                devcfg="MC_ClientLib_C28ka.cfg", quick_sample=2600, sim=(60, 25)),
    "C33": dict(cfgs=[("MC_ClientLib_C33.cfg", 7, 9), ("MC_ClientLib_C33b.cfg", 7, 8), ("MC_ClientLib_C33c.cfg", 7, 8),
                      ("MC_ClientLib_C33w.cfg", 10, 12, "all"),
                      ("MC_ClientLib_C33d.cfg", 9, 10, "all")], devs=["KaSync"],
                devsigs=["C33/keepalive-ping-while-not-active"],
                devcfg="MC_ClientLib_C33.cfg", quick_sample=900, sim=(60, 30)),
    "C16": dict(cfgs=[("MC_ClientLib_C16.cfg", 8, 9)], devs=["RegisterReject"], devsigs=["C16/register-retransmit-rejected"], devmax=6,
                quick_sample=600, sim=(40, 25)),
    "C06": dict(cfgs=[("MC_ClientLib_C06.cfg", 8, 9), ("MC_ClientLib_C06x.cfg", 9, 10, "all")], devs=["SharedStore"], devsigs=["C06/pubrec-missing"], devmax=6, quick_sample=300, sim=(40, 25)),
}
# client halves served from the runs of these families
HALF = {"C06": ["C06"], "C16": ["C16"], "C23": ["C28", "C17", "C33"], "C25": ["C28", "C17"], "C18": ["C33"]}


def read_cfg(name):
    return open(os.path.join(vlib.TLA_DIR, name)).read()


def cfg_consts(text):
    c = {}
    for k in ("CfgRD", "CfgRC", "CfgCT", "CfgKA"):
        c[k] = int(re.search(r"%s\s*=\s*(\d+)" % k, text).group(1))
    return dict(cid="vc", rd=c["CfgRD"], rc=c["CfgRC"], ct=c["CfgCT"], ka=c["CfgKA"],
                predef=[dict(id=1, n="pre/one")])


def patch_cfg(text, maxev=None, dev=None):
    if maxev is not None:
        text = re.sub(r"MaxEv\s*=\s*\d+", "MaxEv = %d" % maxev, text)
    if dev is not None:
        text = re.sub(r"Dev\s*=\s*\{[^}]*\}", "Dev = {%s}" % ", ".join('"%s"' % d for d in dev), text)
    return text


# ------------------------------------------------------------------ schedules

def hist_to_events(hist):
    evs = []
    for h in hist:
        if h["e"] == "api":
            a = h["a"]
            evs.append(dict(e="api", call=a["call"], api=a["api"], topic="/".join(a["tl"]), qos=a["qos"], tid=a["tid"],
                            dur=a["dur"], h=a["h"], pl=a["pl"]))
        elif h["e"] == "gw":
            p = h["p"]
            sn = dict(t=p["t"], qos=p["qos"], tit=p["tit"], tid=p["tid"], mid=p["mid"], rc=p["rc"],
                      topic="/".join(p["tl"]) if p["t"] == "REGISTER" else "", data=p["data"], dup=p["dup"])
            evs.append(dict(e="gw", p=sn, midref=h.get("ref", "")))
        elif h["e"] == "adv":
            evs.append(dict(e="adv", n=h["n"]))
    return evs


def tail_for(cfg, events):
    t = (cfg["rc"] + 1) * max(cfg["rd"], cfg["ct"]) + 14
    if any(e.get("api") == "Sleep" for e in events):
        t += max(e.get("dur", 0) for e in events if e.get("api") == "Sleep") + 600 + cfg["rd"]
    return t


def scenario(sid, cfg, hist):
    evs = hist_to_events(hist)
    return dict(id=sid, cfg=cfg, seed=vlib.seed(), events=evs, tail=tail_for(cfg, evs))


def maximal(hists):
    """Drop histories that are a proper prefix of another one."""
    keys = [json.dumps(h, sort_keys=True) for h in hists]
    pref = set()
    for h in hists:
        for k in range(1, len(h)):
            pref.add(json.dumps(h[:k], sort_keys=True))
    return [h for h, k in zip(hists, keys) if k not in pref]


def parse_hists(res, marker="SCHED:"):
    out = []
    for x in vlib.tlc_printed(res, marker):
        try:
            out.append(json.loads(x) if isinstance(x, str) else x)
        except Exception:
            pass
    return out


def match_scenarios(vecs, cfg):
    """One scenario per filter: Subscribe(filter) + SUBACK, then for every name a gateway
    REGISTER + PUBLISH; the expected callbacks are decided by the trace spec (Matches)."""
    by_f = {}
    for v in vecs:
        by_f.setdefault(tuple(v["f"]), []).append(v)
    scs = []
    for f, vs in sorted(by_f.items()):
        ftxt = "/".join(f)
        if ftxt == "":
            continue  # an empty topic filter cannot be put on the wire
        evs = [dict(e="api", call="c0", api="Connect"), dict(e="gw", p=dict(t="CONNACK", rc=0)),
               dict(e="api", call="c1", api="Subscribe", topic=ftxt, qos=0, h="hv"),
               dict(e="gw", p=dict(t="SUBACK", mid=1, tid=0, rc=0), midref="c1")]
        tid = 100
        for v in sorted(vs, key=lambda v: v["n"]):
            ntxt = "/".join(v["n"])
            if ntxt == "":
                continue
            tid += 1
            evs.append(dict(e="gw", p=dict(t="REGISTER", mid=tid, tid=tid, topic=ntxt)))
            evs.append(dict(e="gw", p=dict(t="PUBLISH", qos=0, tit=0, tid=tid, data="s:" + ("Y" if v["m"] else "N"))))
        scs.append(dict(id="match-" + ftxt.replace("/", "_").replace("#", "H").replace("+", "P"), cfg=cfg, seed=vlib.seed(), events=evs, tail=2,
                        expect={"/".join(v["n"]): v["m"] for v in vs}))
    return scs


# ------------------------------------------------------------------ driver / trace validation

def run_batch(binary, scs, tag):
    """Execute scenarios; returns (lines, crashes). A crash of the driver process (panic in the code
    under test) is attributed to the scenario in the progress file and the batch is resumed."""
    sp = os.path.join(vlib.scratch(), "sched-%s.json" % tag)
    tp = os.path.join(vlib.scratch(), "trace-%s.ndjson" % tag)
    pp = tp + ".prog"
    plain = [{k: v for k, v in s.items() if k != "expect"} for s in scs]
    json.dump(plain, open(sp, "w"))
    crashes, skip = [], 0
    if os.path.exists(tp):
        os.remove(tp)
    for _ in range(50):
        rc, out = vlib.run_driver(binary, {"VERIF_SCHED": sp, "VERIF_TRACE": tp, "VERIF_PROGRESS": pp,
                                           "VERIF_SKIP": str(skip)}, timeout=900)
        prog = open(pp).read() if os.path.exists(pp) else ""
        if prog == "DONE":
            break
        m = re.match(r"(\d+) (\S+) (-?\d+)", prog)
        if not m or rc == 124:
            raise vlib.Inconclusive("driver failed without progress information (rc=%s):\n%s" % (rc, out[-3000:]))
        n = int(m.group(1))
        crashes.append(dict(scenario=scs[n], event=int(m.group(3)), output=out[-3000:], panic="panic:" in out or "fatal error" in out))
        skip = n + 1
        if skip >= len(scs):
            break
    lines = []
    if os.path.exists(tp):
        for l in open(tp):
            l = l.strip()
            if l:
                try:
                    lines.append(json.loads(l))
                except Exception:
                    pass  # torn last line of a crashed run
    # drop partial traces of crashed scenarios
    bad = {c["scenario"]["id"] for c in crashes}
    lines = [l for l in lines if l["tr"] not in bad]
    return lines, crashes


def validate(lines, tag):
    txt = "\n".join(json.dumps(l) for l in lines) + "\n"
    res = vlib.tlc("Trace_ClientLib", "Trace_ClientLib.cfg", workers=1, files={"trace.ndjson": txt}, timeout=1200,
                   javaopts="-Xmx4g -XX:ParallelGCThreads=2")
    got = vlib.tlc_printed(res, "RESULT:")
    if not got:
        raise vlib.Inconclusive("trace validation (%s) did not finish:\n%s" % (tag, res["out"][-3000:]))
    d = json.loads(got[-1]) if isinstance(got[-1], str) else got[-1]
    if d["lines"] != len(lines):
        raise vlib.Inconclusive("trace validation (%s) consumed %d of %d lines:\n%s" % (tag, d["lines"], len(lines), res["out"][-2000:]))
    d["tlc_states"] = res["distinct"]
    return d


def execute(binary, scs, tag):
    """Run scenarios in parallel batches and judge the traces with TLC. Returns dict."""
    if not scs:
        return dict(viol=[], lines=0, traces=0, judged=0, soft=0, softl=[], cov=set(), crashes=[], all_lines={})
    nb = max(1, min(vlib.NCPU, len(scs) // 40 + 1))
    parts = vlib.chunks(scs, nb)
    t0 = time.time()
    outs = vlib.pmap(lambda ip: run_batch(binary, ip[1], "%s-%d" % (tag, ip[0])), list(enumerate(parts)))
    t1 = time.time()
    # few, large TLC runs (JVM start-up dominates small ones)
    all_lines = [l for lines, _ in outs for l in lines]
    bytr = {}
    for l in all_lines:
        bytr.setdefault(l["tr"], []).append(l)
    trs = list(bytr)
    njv = max(1, min(6, len(all_lines) // 2500 + 1))
    groups = [[l for tr in part for l in bytr[tr]] for part in vlib.chunks(trs, njv)] if trs else []
    vres = vlib.pmap(lambda ip: validate(ip[1], "%s-%d" % (tag, ip[0])), list(enumerate(groups)), n=njv)
    t2 = time.time()
    agg = dict(viol=[], lines=0, traces=0, judged=0, soft=0, softl=[], cov=set(), crashes=[], all_lines={}, t_drive=t1 - t0, t_judge=t2 - t1)
    for lines, crashes in outs:
        agg["crashes"] += crashes
    agg["all_lines"] = bytr
    for d in vres:
        agg["viol"] += d["viol"]
        for k in ("lines", "traces", "judged", "soft"):
            agg[k] += d[k]
        agg["softl"] += d.get("softl", [])
        agg["cov"] |= set(d["cov"])
    return agg


# ------------------------------------------------------------------ the check

def design_and_generate(fam, tier, notes):
    """TLC on the spec: exhaustive check of the properties for the family's configurations
    (Dev = {}), generation of one schedule per transition, counterexamples for the deviations.
    The TLC runs are independent and run in parallel."""
    F = FAMILIES[fam]
    seed = vlib.seed()
    jobs = []
    for cf in F["cfgs"]:
        cfgname, q, t = cf[:3]
        text = read_cfg(cfgname)
        jobs.append(("mc:all" if len(cf) > 3 and cf[3] == "all" else "mc", cfgname, patch_cfg(text, maxev=q if tier == "quick" else t), dict(workers=6, timeout=1100, javaopts="-Xmx6g")))
        if tier == "thorough" and F.get("sim"):
            num, depth = F["sim"]
            jobs.append(("sim", cfgname, patch_cfg(text, maxev=depth),
                         dict(workers=1, timeout=600, simulate="num=%d" % num, depth=depth + 2, extra=("-seed", str(seed)))))
    if F.get("devs"):
        # all deviations of the family switched on in one run; -continue collects every signature
        cfgname = F.get("devcfg", F["cfgs"][0][0])
        q = F.get("devmax", [c for c in F["cfgs"] if c[0] == cfgname][0][1])
        jobs.append(("dev", cfgname, patch_cfg(read_cfg(cfgname), maxev=q, dev=F["devs"]),
                     dict(workers=4, timeout=600, extra=("-continue",), javaopts="-Xmx4g")))

    def go(job):
        kind, cfgname, text, kw = job
        return vlib.tlc("MC_ClientLib", "mc.cfg", files={"mc.cfg": text}, **kw)

    results = vlib.pmap(go, jobs, n=len(jobs))
    states = trans = 0
    scheds, devhits = [], {}
    for (kind, cfgname, text, kw), res in zip(jobs, results):
        conf = cfg_consts(text)
        if kind in ("mc", "mc:all"):
            if not vlib.tlc_ok(res):
                bad = vlib.tlc_printed(res, "BAD:")
                raise vlib.Inconclusive("TLC does not prove the properties on the specification %s (spec-level counterexample, "
                                        "not a verdict about the code): %s\n%s" % (cfgname, bad[:1], res["out"][-1500:]))
            states += res["distinct"]
            trans += res["generated"]
            hs = parse_hists(res)
            notes.append("%s: %d distinct states, %d transitions, depth %d, %d schedules" % (cfgname, res["distinct"], res["generated"], res["depth"], len(hs)))
            if kind == "mc:all":   # small focused configuration: every (maximal) schedule is executed in both tiers
                scheds += [(conf, h, "transition-all") for h in maximal(hs)]
            else:
                scheds += [(conf, h, "transition") for h in hs]
        elif kind == "sim":
            # in simulation mode TLC evaluates (and our Next prints) every successor of the states on a walk:
            # the printed histories are the walks plus all their one-step side branches
            hs = maximal(parse_hists(res))
            if not hs:
                raise vlib.Inconclusive("TLC simulation produced no walk for %s:\n%s" % (cfgname, res["out"][-1500:]))
            nall = len(hs)
            hs.sort(key=lambda h: (-len(h), json.dumps(h, sort_keys=True)))
            deep, side = hs[:2 * F["sim"][0]], hs[2 * F["sim"][0]:]
            random.Random(seed).shuffle(side)
            hs = deep + side[:1200]
            notes.append("%s: %d random walks (depth <= %d, seed %d) with %d side branches, %d executed" % (cfgname, F["sim"][0], F["sim"][1], seed, nall, len(hs)))
            scheds += [(conf, h, "walk") for h in hs]
        else:
            bad = parse_hists(res, "BAD:")
            sigs = {}
            for b in bad:
                sigs.setdefault(b["sig"], []).append(b["hist"])
            need = set(F.get("devsigs", []))
            if not bad or not need <= set(sigs):
                raise vlib.Inconclusive("deviations %s: TLC finds %s, expected counterexamples for %s (vacuous deviation):\n%s"
                                        % (F["devs"], sorted(sigs), sorted(need), res["out"][-1500:]))
            devhits = {sg: len(hs) for sg, hs in sigs.items()}
            for sg, hs in sigs.items():
                hs.sort(key=len)
                scheds += [(conf, h, "dev:%s" % sg) for h in hs[:3]]   # shortest counterexamples per signature
            notes.append("deviations %s: TLC finds counterexamples %s" % ("+".join(F["devs"]), ", ".join("%s x%d" % kv for kv in sorted(devhits.items()))))
    return states, trans, scheds, devhits


def extra_schedules(fam):
    """A few directed schedules (same event format as TLC's) for timings the generator's
    time steps (always to the next timer) cannot express."""
    A0 = dict(api="", call="", tl=[], short=False, stid=0, qos=0, tid=0, dur=0, dsec=0, h="", pl="s:p1")
    G0 = dict(t="", qos=0, tit=0, tid=0, mid=0, rc=0, tl=[], data="s:m1", dup=False, midsrc="none")
    api = lambda call, a, **kw: dict(e="api", a=dict(A0, api=a, call=call, **kw))
    gw = lambda t, **kw: dict(e="gw", p=dict(G0, t=t, **kw))
    adv = lambda n: dict(e="adv", n=n)
    conn = [api("c0", "Connect"), gw("CONNACK")]
    out = []
    if fam == "C28":
        conf = cfg_consts(read_cfg("MC_ClientLib_C28.cfg"))
        # a duplicated DISCONNECT reply late in the sleep period
        out.append((conf, conn + [api("c1", "Sleep", dur=10, dsec=1), gw("DISCONNECT"), adv(9), gw("DISCONNECT")], "extra:late-duplicate-disconnect"))
        out.append((conf, conn + [api("c1", "Sleep", dur=10, dsec=1), adv(1), gw("DISCONNECT"), adv(5), gw("DISCONNECT"), adv(9), gw("DISCONNECT")],
                    "extra:repeated-duplicate-disconnect"))
    return out


def select(scheds, tier, fam, quick_sample=None):
    """Which schedules are executed: deviation counterexamples, walks, directed and "all" suites
    completely; of the one-per-transition suites a seeded sample in quick (2/3 maximal schedules,
    which cover every transition on their paths, 1/3 proper prefixes = silence from that point on),
    up to 14000 maximal ones in thorough."""
    rnd = random.Random(vlib.seed())
    trans = [x for x in scheds if x[2] == "transition"]
    others = [x for x in scheds if x[2] != "transition"]
    cap = (quick_sample or FAMILIES[fam]["quick_sample"]) if tier == "quick" else 14000
    if len(trans) > cap:
        bycfg = {}
        for c, h, k in trans:
            bycfg.setdefault(json.dumps(c, sort_keys=True), []).append((c, h, k))
        mxs, rest = [], []
        for items in bycfg.values():
            mx = {json.dumps(h, sort_keys=True) for h in maximal([h for _, h, _ in items])}
            for it in items:
                (mxs if json.dumps(it[1], sort_keys=True) in mx else rest).append(it)
        # canonical order first: TLC's output order depends on its worker threads
        mxs.sort(key=lambda it: json.dumps(it[:2], sort_keys=True))
        rest.sort(key=lambda it: json.dumps(it[:2], sort_keys=True))
        rnd.shuffle(mxs)
        rnd.shuffle(rest)
        if tier == "quick":
            trans = mxs[:cap * 2 // 3] + rest[:cap // 3]
        else:
            trans = mxs[:cap]
    return trans + others


def run_family(fam, tier, want_props, quick_sample=None):
    """Returns dict(violations by property, gaps, coverage...).  quick_sample overrides the family's sample
    size of the quick tier (client halves of other families' properties have a smaller budget)."""
    t0 = time.time()
    binary = vlib.build_driver("cldrv")
    notes = []
    states, trans, scheds, devhits = design_and_generate(fam, tier, notes)
    t_design = time.time() - t0
    chosen = select(scheds, tier, fam, quick_sample) + extra_schedules(fam)
    scs = []
    meta = {}
    # repetitions: Go map iteration order decides which of several matching handlers / names is used (C27)
    rep = FAMILIES[fam].get("repeat", 1) if tier == "quick" else FAMILIES[fam].get("repeat_thorough", 1)
    for n, (conf, h, kind) in enumerate(chosen):
        for r in range(rep if kind.startswith("transition") else 1):
            sid = "%s-%05d-%d" % (fam, n, r)
            scs.append(scenario(sid, conf, h))
            meta[sid] = kind
    vec_info = None
    if FAMILIES[fam].get("vectors"):
        res = vlib.tlc("MC_ClientLibMatch", "MC_ClientLibMatch.cfg", workers=1, timeout=300)
        if not vlib.tlc_ok(res):
            raise vlib.Inconclusive("matching cross-check failed on the specification:\n" + res["out"][-2000:])
        vecs = json.loads(vlib.tlc_printed(res, "VECS:")[-1])
        stat = json.loads(vlib.tlc_printed(res, "VECSTAT:")[-1])
        ms = match_scenarios(vecs, dict(cid="vc", rd=2, rc=1, ct=3, ka=0, predef=[]))
        for m in ms:
            meta[m["id"]] = "match"
        scs += ms
        vec_info = dict(stat, replayed_filters=len(ms), replayed_pairs=sum(len(m["expect"]) for m in ms))
        notes.append("matching: %s" % vec_info)
    agg = execute(binary, scs, fam)
    byid = {s["id"]: s for s in scs}
    viols = []
    gaps = []
    for v in agg["viol"]:
        sc = byid.get(v["tr"], {})
        rec = dict(sig=v["sig"], what="trace %s line %d (%s)" % (v["tr"], v["i"], meta.get(v["tr"], "")),
                   replay=dict(scenario={k: x for k, x in sc.items() if k != "expect"}, line=v["i"], sig=v["sig"],
                               trace=agg["all_lines"].get(v["tr"], [])[: v["i"] + 2]))
        if v["sig"].startswith("DESYNC/"):
            gaps.append(rec)
        else:
            viols.append(rec)
    for c in agg["crashes"]:
        sc = c["scenario"]
        evs = sc["events"]
        ev = evs[c["event"]] if 0 <= c["event"] < len(evs) else {"e": "epilogue"}
        what = ev.get("api") or (ev.get("p") or {}).get("t") or ev["e"]
        if c["panic"]:
            sig = "C25/client-panic/%s/%s" % (what, panic_site(c["output"]))
        else:
            sig = "HARNESS/driver-died/%s" % what
        rec = dict(sig=sig, what="driver process died in scenario %s at event %d: %s" % (sc["id"], c["event"], c["output"][-400:]),
                   replay=dict(scenario={k: x for k, x in sc.items() if k != "expect"}, event=c["event"], output=c["output"]))
        (viols if c["panic"] else gaps).append(rec)
    # deviations found by TLC must be reproduced as violations when present in the code: report which
    # dev schedules ended in a violation (information only)
    devrepro = {}
    for sid, kind in meta.items():
        if kind.startswith("dev:"):
            hit = sorted({v["sig"] for v in agg["viol"] if v["tr"] == sid})
            devrepro[kind] = hit
    samples = []
    for sid in list(agg["all_lines"])[:2]:
        ls = agg["all_lines"][sid]
        samples.append(dict(schedule=byid[sid]["events"][:12], trace_head=[dict(ev=l["ev"]["t"], now=l["now"], out=[p["t"] for p in l["out"]],
                       rets=[(r["call"], r["err"]) for r in l["rets"]], cbs=[c["h"] for c in l["cbs"]], st=l["st"]) for l in ls[:12]]))
    return dict(fam=fam, tier=tier, states=states, transitions=trans, notes=notes, devhits=devhits, devrepro=devrepro,
                violations=viols, gaps=gaps, traces=agg["traces"], lines=agg["lines"], judged=agg["judged"], soft=agg["soft"],
                softl=agg["softl"][:10], soft_traces={x["tr"]: agg["all_lines"].get(x["tr"], []) for x in agg["softl"][:3]}, cov=sorted(agg["cov"]), samples=samples, n_sched=len(scs), n_generated=len(scheds),
                vec_info=vec_info, wall=time.time() - t0, t_design=t_design, t_drive=agg.get("t_drive", 0), t_judge=agg.get("t_judge", 0))


def coverage_of(R, prop):
    return dict(states=R["states"], transitions=R["transitions"], traces_validated_against_impl=R["traces"],
                samples=R["samples"][:2] or [dict(note="no trace")], evaluations=R["judged"],
                distinct_nontrivial=len(R["cov"]) + (R["vec_info"]["replayed_pairs"] if R["vec_info"] else 0),
                rule="evaluations = trace lines of the real client judged by TLC (ClientLib step of the logged input event vs. observed "
                     "datagrams / API returns / callbacks / termination, named clauses of Trace_ClientLib.JudgeFull, signatures %s/...); "
                     "distinct_nontrivial = distinct abstract transitions exercised on the real code (event kind x packet/API type x client "
                     "state x kind of the exchange addressed, counted by the trace spec) plus, for C27, the distinct (filter, name) vectors replayed" % prop,
                exhaustive=False,
                schedules_generated=R["n_generated"], schedules_executed=R["n_sched"], trace_lines=R["lines"],
                soft_internal_diffs=R["soft"], model_gaps=len(R["gaps"]), tlc=R["notes"],
                deviations_with_counterexample=R["devhits"], deviation_schedules_on_code=R["devrepro"],
                matching_vectors=R["vec_info"], abstract_transitions_seen=R["cov"][:400],
                timing=dict(design_and_generation_s=round(R["t_design"], 1), drive_s=round(R["t_drive"], 1), judge_s=round(R["t_judge"], 1)))


ASSUMPTIONS = [
    "A-timer: harness module go 1.26.8 => asynctimerchan=0 timer semantics",
    "A-net: in-memory datagram connection, writes never fail",
    "A-quiescent: one environment event at a time, judged when all client goroutines are durably blocked (synctest.Wait)",
    "A-app: life-cycle API calls (Connect/Sleep/Disconnect) are not issued concurrently with each other; data calls only while active",
    "A-tlc/A-go: TLC 1.8.0 (tla2tools), CommunityModules Json, go1.26.8 testing/synctest",
]


def run(prop, tier, replay=None):
    if replay:
        return run_replay(prop, replay)
    if prop not in ("C17", "C27", "C28", "C33"):
        print("clientlib: property %s is not served by this family" % prop)
        return 2
    t0 = time.time()
    R = run_family(prop, tier, [prop])
    mine = [v for v in R["violations"] if v["sig"].startswith(prop + "/")]
    others = sorted({v["sig"] for v in R["violations"] if not v["sig"].startswith(prop + "/")})
    for n in R["notes"]:
        print("  tlc:", n)
    print("  executed %d schedules (%d generated), %d traces / %d lines judged, %d abstract transitions, soft=%d, gaps=%d"
          % (R["n_sched"], R["n_generated"], R["traces"], R["lines"], len(R["cov"]), R["soft"], len(R["gaps"])))
    print("  timing: design+generation %.0fs, driver %.0fs, trace validation %.0fs" % (R["t_design"], R["t_drive"], R["t_judge"]))
    if others:
        print("  note: signatures of other properties seen on these traces (not part of this verdict): %s" % ", ".join(others))
    rc, n_new, n_known = vlib.verdict(prop, mine)
    vlib.write_evidence(prop, tier, "model_checking", coverage_of(R, prop), time.time() - t0, violations=n_new + n_known,
                        assumptions=ASSUMPTIONS)
    panics = [v for v in R["violations"] if v["sig"].startswith("C25/client-panic/")]
    if rc == 0 and panics:
        print("INCONCLUSIVE property=%s: the client panicked in %d schedule(s) (a C25 finding: %s); their traces could not be judged"
              % (prop, len(panics), panics[0]["sig"]))
        vlib.replay_path(prop + "-panic", 1, panics[0]["replay"])
        return 2
    if rc == 0 and R["gaps"]:
        g = R["gaps"][0]
        print("INCONCLUSIVE property=%s: %d model gap(s), first: %s %s" % (prop, len(R["gaps"]), g["sig"], g["what"]))
        vlib.replay_path(prop + "-gap", 1, g["replay"])
        return 2
    return rc


def panic_site(output):
    """Innermost client-package method on the panicking stack, preferring a transaction method."""
    fns = re.findall(r"bisquitt/client\.\(\*(\w+)\)\.(\w+)", output)
    for t, m in fns:
        if t.endswith("ransaction"):
            return "%s.%s" % (t, m)
    plain = re.findall(r"bisquitt/client\.(\w+)\(", output)
    if plain:
        return plain[0]
    return "%s.%s" % fns[0] if fns else "unknown"


def race_scenarios():
    """Gated schedules (harness Logger as scheduler gate, DESIGN 4.2): a goroutine of the client is parked
    at one of its existing Debug() calls while the packet it races with is handled, then released.
    They are outside the quiescent-step specification: only a death of the process is judged (C25/C18)."""
    cfg = dict(cid="vc", rd=3, rc=2, ct=4, ka=0, predef=[])
    api = lambda call, a, **kw: dict(e="api", call=call, api=a, **kw)
    gw = lambda t, **kw: dict(e="gw", p=dict(t=t, **kw))
    conn = [api("c0", "Connect"), gw("CONNACK", rc=0)]
    reg = [api("c1", "Register", topic="a/b"), dict(gw("REGACK", mid=1, tid=7, rc=0), midref="c1")]
    return [
        # sleepTransaction.resendDisconnect (timer) vs Disconnect() (reply): t.disconnect = nil
        dict(id="race-sleep-resend-vs-reply", cfg=cfg, seed=1, tail=8, events=conn + [
            api("c1", "Sleep", dur=20), dict(e="gate", pat="DISCONNECT resend no"), dict(e="adv", n=3),
            dict(e="gwrace", p=dict(t="DISCONNECT"), until="asleep"), dict(e="adv", n=4)]),
        # sleepTransaction.wakeup (timer) vs PINGRESP / DISCONNECT
        dict(id="race-wakeup-vs-pingresp", cfg=cfg, seed=1, tail=8, events=conn + [
            api("c1", "Sleep", dur=10), gw("DISCONNECT"), dict(e="gate", pat="Awake"), dict(e="adv", n=10),
            dict(e="gwrace", p=dict(t="PINGRESP"), until="none"), dict(e="adv", n=4)]),
        # RetryTransaction retry callback vs acknowledgement (PUBLISH QoS 1, SUBSCRIBE, DISCONNECT)
        dict(id="race-publish-resend-vs-puback", cfg=cfg, seed=1, tail=8, events=conn + reg + [
            api("c2", "Publish", topic="a/b", qos=1, pl="s:p1"), dict(e="gate", pat="Resend."), dict(e="adv", n=3),
            dict(e="gwrace", p=dict(t="PUBACK", mid=2, tid=7), midref="c2", until="none"), dict(e="adv", n=4)]),
        dict(id="race-disconnect-resend-vs-reply", cfg=cfg, seed=1, tail=8, events=conn + [
            api("c1", "Disconnect"), dict(e="gate", pat="Resend."), dict(e="adv", n=3),
            dict(e="gwrace", p=dict(t="DISCONNECT"), until="none"), dict(e="adv", n=4)]),
        dict(id="race-sleep-final-resend-vs-reply", cfg=dict(cfg, rc=0), seed=1, tail=8, events=conn + [
            api("c1", "Sleep", dur=20), dict(e="gate", pat="DISCONNECT reply timeout"), dict(e="adv", n=3),
            dict(e="gwrace", p=dict(t="DISCONNECT"), until="asleep"), dict(e="adv", n=25)]),
    ]


def run_races(binary):
    scs = race_scenarios()
    lines, crashes = run_batch(binary, scs, "race")
    viols = []
    for c in crashes:
        sc = c["scenario"]
        if c["panic"]:
            m = re.search(r"panic: ([^\n]*)", c["output"])
            where = panic_site(c["output"])
            viols.append(dict(sig="C25/client-panic/%s/%s" % (sc["id"], where),
                              what="client panics in gated schedule %s: %s" % (sc["id"], m.group(1) if m else ""),
                              replay=dict(scenario=sc, event=c["event"], output=c["output"])))
        else:
            raise vlib.Inconclusive("driver died without panic in %s:\n%s" % (sc["id"], c["output"][-1500:]))
    return viols, len(scs), len(lines)


def match_vector_scenarios():
    """The exhaustive (filter, name) vectors of MC_ClientLibMatch as client schedules (one per filter:
    Subscribe + SUBACK, then REGISTER + PUBLISH for every name of <= 3 levels: among them names that are a
    proper level-prefix of the filter, names longer than the filter, empty levels)."""
    res = vlib.tlc("MC_ClientLibMatch", "MC_ClientLibMatch.cfg", workers=1, timeout=300)
    if not vlib.tlc_ok(res):
        raise vlib.Inconclusive("matching cross-check failed on the specification:\n" + res["out"][-2000:])
    vecs = json.loads(vlib.tlc_printed(res, "VECS:")[-1])
    stat = json.loads(vlib.tlc_printed(res, "VECSTAT:")[-1])
    return match_scenarios(vecs, dict(cid="vc", rd=2, rc=1, ct=3, ka=0, predef=[])), stat


def run_crash_only(binary, scs, tag):
    """Execute schedules and judge only a death of the process (C25)."""
    outs = vlib.pmap(lambda ip: run_batch(binary, ip[1], "%s-%d" % (tag, ip[0])), list(enumerate(vlib.chunks(scs, 8))))
    viols, nlines = [], 0
    for lines, crashes in outs:
        nlines += len(lines)
        for c in crashes:
            sc = c["scenario"]
            if not c["panic"]:
                raise vlib.Inconclusive("driver died without panic in %s:\n%s" % (sc["id"], c["output"][-1500:]))
            m = re.search(r"panic: ([^\n]*)", c["output"])
            evs = sc["events"]
            ev = evs[c["event"]] if 0 <= c["event"] < len(evs) else {"e": "epilogue"}
            what = ev.get("api") or (ev.get("p") or {}).get("t") or ev["e"]
            viols.append(dict(sig="C25/client-panic/%s/%s" % (what, panic_site(c["output"])),
                              what="client panics in schedule %s at event %d: %s" % (sc["id"], c["event"], m.group(1) if m else ""),
                              replay=dict(scenario={k: x for k, x in sc.items() if k != "expect"}, event=c["event"], output=c["output"])))
    return viols, len(scs), nlines


def run_client_half(prop, tier):
    """Client-library half of a property owned by another family.
    Returns (violations, coverage_dict).  For C25 only deaths of the process (panics in the code under
    test) are violations; model/code differences are counted in the coverage, never raised.  For the
    other properties a model gap raises vlib.Inconclusive."""
    fams = HALF.get(prop)
    if not fams:
        raise vlib.Inconclusive("clientlib has no client half for %s" % prop)
    viols, cov = [], None
    races = None
    vecrun = None
    if prop == "C25":
        ms, stat = match_vector_scenarios()
        vecrun = run_crash_only(vlib.build_driver("cldrv"), ms, "vec")
        viols += vecrun[0]
    if prop in ("C25", "C18"):
        races = run_races(vlib.build_driver("cldrv"))
        for v in races[0]:
            if prop == "C18":
                v = dict(v, sig=v["sig"].replace("C25/client-panic/", "C18/sleep-or-retry-timer-after-completion/"))
            viols.append(v)
        if prop == "C18":
            return viols, dict(evaluations=races[1], distinct_nontrivial=races[1], traces_validated_against_impl=0, states=0, transitions=0,
                               samples=[s["events"] for s in race_scenarios()[:1]], exhaustive=False,
                               rule="gated timer/reply races of sleepTransaction and RetryTransaction users; only process death is judged")
    if tier == "quick":
        fams = fams[:1]     # one family run fits the quick budget; thorough uses all
    for fam in fams:
        # C23 (well-formedness of every datagram) rides on the C28 suite: a sample is enough in quick
        R = run_family(fam, tier, [prop], quick_sample=500 if prop == "C23" else None)
        if R["gaps"] and prop != "C25":
            raise vlib.Inconclusive("clientlib model gap: %s %s" % (R["gaps"][0]["sig"], R["gaps"][0]["what"]))
        viols += [v for v in R["violations"] if v["sig"].startswith(prop + "/")]
        c = coverage_of(R, prop)
        c["desync_traces"] = len(R["gaps"])
        if races:
            c["gated_race_schedules"] = races[1]
        if vecrun:
            c["matching_vector_schedules_crash_only"] = vecrun[1]
            c["matching_vector_trace_lines"] = vecrun[2]
        if cov is None:
            cov = c
        else:
            for k in ("states", "transitions", "traces_validated_against_impl", "evaluations", "schedules_generated",
                      "schedules_executed", "trace_lines"):
                cov[k] += c[k]
            cov["tlc"] += c["tlc"]
            cov["desync_traces"] = cov.get("desync_traces", 0) + c["desync_traces"]
    return viols, cov


def run_replay(prop, path):
    """Re-execute the schedule of a replay file on the tree under test and judge it again."""
    d = json.load(open(path))
    sc = d.get("scenario")
    if not sc:
        print("replay file has no scenario")
        return 2
    binary = vlib.build_driver("cldrv")
    agg = execute(binary, [sc], "replay")
    sigs = sorted({v["sig"] for v in agg["viol"]})
    for c in agg["crashes"]:
        sigs.append("C25/client-panic/%s" % panic_site(c["output"]) if c["panic"] else "HARNESS/driver-died")
    print("replay %s: signatures %s" % (sc["id"], sigs or "none"))
    known = [k for k in vlib.load_findings().get("known", []) if k.get("property") == prop]
    rc = 0
    for sg in sigs:
        if not sg.startswith(prop + "/"):
            continue
        if any(re.fullmatch(k["sig"], sg) for k in known):
            print("KNOWN-FINDING: property=%s [sig=%s]" % (prop, sg))
        else:
            print("VIOLATION property=%s replay=%s" % (prop, path))
            print("  sig=%s" % sg)
            rc = 1
    if rc == 0 and any(sg.startswith("DESYNC/") or sg.startswith("HARNESS/") for sg in sigs):
        return 2
    return rc


if __name__ == "__main__":
    sys.exit(run(sys.argv[1], sys.argv[2] if len(sys.argv) > 2 else "quick"))
