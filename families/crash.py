"""C25: no packet sequence crashes the gateway session or the client library.

Spec side: GatewaySession.Step / ClientLib are total functions of (state, event) - TLC evaluates
them for every event of the full alphabets in every reachable state (any evaluation error would
abort the model check).  Conformance: every TLC-generated schedule (transition tests of all
gateway alphabets, seeded -simulate random walks) plus seeded malformed-input schedules is
executed on the real code in a subprocess; a process death while a scenario is being executed
(panic in a session goroutine) is the observation.  The traces of surviving scenarios are still
consumed by the trace spec (model gaps are reported as inconclusive, not as violations).
"""
import json, os, random, re, time
import vlib, gateway, gw_scenarios

CONFIGS = ["CONNECT", "DATA_PUB", "DATA_BPUB", "DATA_CTRL", "DATA_IDS", "DATA_MIX", "SLEEP", "TERM"]


def raw_scenarios(rnd, n):
    """decodable-or-not raw datagrams and broker bytes at every stage of a session"""
    pre = [[], [gw_scenarios.P("CONNECT", dur=2, cid="c1")], list(gw_scenarios.CONNECT),
           list(gw_scenarios.CONNECT) + [gw_scenarios.P("DISCONNECT", dur=3)]]
    special = ["", "00", "01", "0100", "010000", "01000004", "0100040c", "02", "0203", "0303", "0403ff", "050300ff",
               "0803000501", "ff03" + "00" * 253, "0303" + "00fe", "0403" + "00ff41", "04030001", "0204", "030401", "0604000100",
               "0218", "031800", "05180001ff", "020c", "070c0000010001"[:12], "0212", "051200000100"[:10], "0512030001",
               "021a", "031a00", "0207", "030700", "0209", "020a", "060a00010001", "0216", "0217", "021d", "031d00"]
    out = []
    for i in range(n):
        ev = list(rnd.choice(pre))
        for _ in range(rnd.randrange(1, 6)):
            k = rnd.random()
            if k < 0.5:
                hx = rnd.choice(special)
            elif k < 0.8:
                ln = rnd.choice([2, 3, 4, 5, 6, 7, 9, 12, 40, 255, 256, 300])
                b = bytearray(rnd.randrange(256) for _ in range(ln))
                if rnd.random() < 0.7:
                    b[0] = ln if ln < 256 else 1
                    if ln >= 256 and ln > 3:
                        b[1], b[2] = ln >> 8, ln & 255
                        b[3] = rnd.randrange(0, 0x1e)
                    else:
                        b[1] = rnd.randrange(0, 0x1e)
                hx = bytes(b).hex()
            else:
                hx = None
            if hx is not None:
                ev.append({"e": "clraw", "hex": hx})
            else:
                ev.append({"e": "brraw", "hex": bytes(rnd.randrange(256) for _ in range(rnd.choice([1, 2, 3, 4, 8, 20]))).hex()})
            if rnd.random() < 0.3:
                ev.append(gw_scenarios.adv(rnd.choice([1, 5, 10])))
        out.append(gw_scenarios.sc("raw-%d" % i, ev, tail=15, auth=rnd.random() < 0.3))
    return out


def panic_sig(output):
    m = re.search(r"^panic: (.*)$", output, re.M)
    msg = m.group(1) if m else "process died"
    msg = re.sub(r"\[[^\]]*\]", "[..]", msg)
    msg = re.sub(r"0x[0-9a-f]+", "0x..", msg)
    msg = re.sub(r"\d+", "N", msg)[:80]
    fr = re.findall(r"^(github\.com/energomonitor/bisquitt/[\w/\.\(\)\*]+)\(", output, re.M)
    where = fr[0].replace("github.com/energomonitor/bisquitt/", "") if fr else "?"
    return "C25/panic/%s/%s" % (where, msg.strip().replace(" ", "-"))


def run(prop, tier, replay=None):
    t0 = time.time()
    rnd = random.Random(vlib.seed())
    binary = vlib.build_driver("gwdrv")
    scenarios, states, transitions, mc_info = [], 0, 0, []
    halves = {}
    if not replay:
        from concurrent.futures import ThreadPoolExecutor
        import clientlib, interop

        def client_half():
            try:
                return clientlib.run_client_half("C25", tier)
            except vlib.Inconclusive as ex:
                # a model gap of the client-library spec is not a crash; the crash oracle of the
                # client half is then reported as not evaluated in the evidence
                return [], {"not_evaluated": str(ex)[:300]}
        pool = ThreadPoolExecutor(max_workers=2)
        halves = {"client": pool.submit(client_half),
                  "interop": pool.submit(lambda: interop.crash_half(tier, random.Random(vlib.seed() + 7)))}
    if replay:
        payload = json.load(open(replay))
        if payload.get("interop"):
            import interop
            _, problems = interop.execute([payload["scenario"]], vlib.build_driver("iodrv"))
            vs = [{"sig": panic_sig(p["output"]), "what": "process died (real client + real gateway)",
                   "replay": payload} for p in problems if "panic:" in p["output"]]
            for p in problems:
                print(p["output"][-1500:])
            return vlib.verdict(prop, vs)[0]
        scenarios = [payload["scenario"]]
    else:
        per = 120 if tier == "quick" else 2500
        for k, name in enumerate(CONFIGS):
            c = getattr(gateway, name)
            res, scheds = gateway.run_mc(dict(c, pairs=False), "quick")
            states += res["distinct"]
            transitions += res["generated"]
            if len(scheds) > per:
                scheds = rnd.sample(scheds, per)
            mc_info.append(dict(config=name, distinct=res["distinct"], generated=res["generated"], executed=len(scheds)))
            scenarios += gateway.to_scenarios(scheds, "C25-mc%d" % k, tail=30)
        walks = gateway.run_walks(30 if tier == "quick" else 400, 25, family="connect", auth=(False, True),
                                  groups=gateway.ALLGROUPS)
        scenarios += gateway.to_scenarios(walks, "C25-walk", tail=30)
        scenarios += raw_scenarios(rnd, 150 if tier == "quick" else 3000)
    lines, crashes = gateway.execute(scenarios, binary)
    violations = []
    for c in crashes:
        if "HARNESS:" in c["output"] and "panic:" not in c["output"]:
            raise vlib.Inconclusive("harness failure: " + c["output"][-500:])
        violations.append({"sig": panic_sig(c["output"]), "what": "gateway session process died in scenario %s" % c["scenario"]["id"],
                           "replay": {"scenario": c["scenario"], "output": c["output"][-2500:], "trace": c["partial"]}})
    # the client-library half (families/clientlib.py) and the two implementations talking to each other
    # (families/interop.py) were started in the background at the beginning
    client_cov = interop_cov = None
    if halves:
        cv, client_cov = halves["client"].result()
        violations += cv
        iv, interop_cov = halves["interop"].result()
        violations += iv
    # consume the surviving traces with the trace spec (totality of the model on what the code was given)
    viol, stat, cover, traces = gateway.judge(lines, ["C25"])
    gaps = [v for v in viol if v["tag"].startswith("desync/")]
    code, n_new, n_known = vlib.verdict(prop, violations)
    sample = scenarios[rnd.randrange(len(scenarios))] if scenarios else None
    cov = dict(states=states, transitions=transitions, traces_validated_against_impl=len(traces),
               samples=[{"scenario": sample["events"][:30] if sample else None}], evaluations=len(scenarios),
               distinct_nontrivial=len(cover),
               rule="every schedule = a packet/time sequence generated by TLC (transition tests of all gateway alphabets, "
                    "-simulate walks) or seeded malformed datagrams; non-trivial = distinct (state, event, post-state) "
                    "combinations reached on the real code; a process death is attributed to the scenario being executed",
               exhaustive=False, mc=mc_info, crashes=len(crashes), model_gaps=len(gaps), steps=stat,
               client=client_cov, interop=interop_cov, known_findings=n_known)
    vlib.write_evidence(prop, tier, "model_checking", cov, time.time() - t0, violations=n_new,
                        assumptions=["crash = death of the subprocess executing the schedule",
                                     "the client-library half is executed by families/clientlib.py when present"])
    return code
