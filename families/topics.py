"""Family `topics`: C05 (predefined-topic lookups) and C29 (IDSequence / TransactionStore /
ClientState atomicity).

Deciding method (see docs/topics.md):
 C05  tla/Topics.tla checked exhaustively by TLC (MC_Topics.cfg); TLC emits one test vector per
      configuration (every query with its admissible results); harness/topicsdrv executes all of
      them on the real topics.PredefinedTopics (each GetTopicID query repeated on fresh maps); the
      recorded lookups are judged twice: against the TLC vectors and by TLC itself
      (tla/Trace_Topics.tla, which also judges the repository's testdata/topics.yaml and random
      configurations built through Add/ParseOptions/YAML/Merge).
 C29  tla/IdSeq.tla, tla/TxStore.tla, tla/CState.tla checked by TLC; sequential runs of the real
      objects judged by tla/Trace_IdSeq.tla / tla/Trace_TxStore.tla; concurrent histories recorded
      from real goroutines (programs enumerated by tla/AtomProgs.tla) judged for linearizability by
      TLC (tla/Lin_IdSeq.tla, Lin_TxStore.tla, Lin_CState.tla); the race detector is an auxiliary
      instrument.
"""
import collections, json, os, random, re, threading, time

import vlib

ASSUME_C05 = [
    "A-tlc/A-go: TLC (tla2tools) with CommunityModules Json; go1.26.8",
    "configurations are judged as the entries the real map holds (dumped from the map); client ids / names are "
    "opaque strings, topic ids uint16",
    "map iteration order is sampled by repetition (each GetTopicID query on >= 20 freshly built maps), not enumerated",
]
ASSUME_C29 = [
    "A-tlc/A-go: TLC (tla2tools) with CommunityModules Json; go1.26.8, real goroutines (no synctest bubble)",
    "call/return stamps come from one atomic counter taken immediately before the call and after the return, so "
    "recorded precedence implies real precedence (sound: never rejects a linearizable execution)",
    "interleavings are sampled by repetition on the Go scheduler (not enumerated); the race detector (-race build of "
    "the same driver) complements this for missing synchronisation",
]


_T0 = time.time()
JAVAOPTS = "-XX:ParallelGCThreads=4"   # many TLC JVMs run side by side


def _phase(msg):
    print("[%6.1fs] %s" % (time.time() - _T0, msg), flush=True)


def _parallel(jobs):
    """jobs: {name: thunk}; run in threads; re-raise the first exception."""
    res, err = {}, {}

    def wrap(k, f):
        try:
            res[k] = f()
        except BaseException as ex:  # noqa
            err[k] = ex

    ts = [threading.Thread(target=wrap, args=(k, f)) for k, f in jobs.items()]
    for t in ts:
        t.start()
    for t in ts:
        t.join()
    for k in jobs:
        if k in err:
            raise err[k]
    return res


def _need_ok(res, what):
    if not vlib.tlc_ok(res):
        raise vlib.Inconclusive("TLC did not complete cleanly for %s (rc=%s):\n%s" % (what, res["rc"], res["out"][-3000:]))


def _post(res, what):
    """CONSUMED / BAD printed by the POSTCONDITION of a trace spec."""
    _need_ok(res, what)
    c = vlib.tlc_printed(res, "CONSUMED:")
    b = vlib.tlc_printed(res, "BAD:")
    if not c or not b:
        raise vlib.Inconclusive("%s: postcondition output missing\n%s" % (what, res["out"][-2000:]))
    return int(c[-1]), json.loads(b[-1])


def _driver_failed(prop, rc, out, progress_file, what):
    """A driver that died: harness problem -> Inconclusive; panic in the code under test -> violation."""
    where = ""
    if progress_file and os.path.exists(progress_file):
        where = open(progress_file).read().strip()
    if "HARNESS" in out or rc == 124 or "panic" not in out and "fatal error" not in out:
        raise vlib.Inconclusive("%s failed (rc=%d, at %s):\n%s" % (what, rc, where, out[-3000:]))
    m = re.search(r"(panic: .*|fatal error: .*)", out)
    first = m.group(1)[:120] if m else "died"
    frame = re.search(r"(topics\.PredefinedTopics\.\w+|util\.\(\*IDSequence\)\.\w+|"
                      r"transactions\.\(\*TransactionStore\)\.\w+|util\.\(\*ClientState\)\.\w+)", out)
    if not frame:
        raise vlib.Inconclusive("%s died outside the code under test (at %s):\n%s" % (what, where, out[-3000:]))
    kind = "fatal-concurrent-map-access" if "concurrent map" in first else "panic"
    return dict(sig="%s/%s/%s" % (prop, kind, frame.group(1).replace("(*", "").replace(")", "")),
                what="%s while executing %s: %s" % (first, where, frame.group(1)),
                replay=dict(kind="crash", at=where, output=out[-4000:]))


# =============================================================================================== C05

def _c05_vectors(res):
    vecs = [json.loads(x) for x in vlib.tlc_printed(res, "VEC:")]
    # deterministic order (TLC workers print in any order)
    vecs.sort(key=lambda v: json.dumps(v["cfg"], sort_keys=True))
    return vecs


def _c05_judge_by_vectors(vecs, lines):
    """Compare recorded lookups with the admissible results TLC put into the vectors."""
    bad = []
    for ln, r in enumerate(lines, 1):
        if r["v"] >= len(vecs) or r["kind"] == "cfg":
            continue
        v = vecs[r["v"]]
        if r["kind"] == "name":
            exp = next(x for x in v["names"] if x["c"] == r["c"] and x["id"] == r["id"])
            if r["found"] != exp["found"]:
                sig = "getname-found-mismatch"
            elif r["found"] and r["rn"] != exp["n"]:
                own = any(e["c"] == r["c"] and e["id"] == r["id"] for e in v["cfg"])
                sig = "getname-ignores-client-entry" if own else "getname-wrong-name"
            else:
                continue
            bad.append(dict(line=ln, sig=sig, cfg=v["cfg"], rec=r, expected=exp))
        else:
            exp = next(x for x in v["ids"] if x["c"] == r["c"] and x["n"] == r["n"])
            if r["found"]:
                if r["rid"] in exp["adm"]:
                    continue
                sig = "getid-returns-shadowed-star-id" if r["rid"] in exp["shadowed"] else "getid-returns-wrong-id"
            else:
                if not exp["adm"]:
                    continue
                sig = "getid-misses-admissible-id"
            bad.append(dict(line=ln, sig=sig, cfg=v["cfg"], rec=r, expected=exp))
    return bad


def _c05_what(b):
    r = b["rec"]
    if r["kind"] == "name":
        return "GetTopicName(%r, %d) returned (%r, %s) for configuration %s" % (
            r["c"], r["id"], r["rn"], r["found"], json.dumps(b["cfg"]))
    return "GetTopicID(%r, %r) returned (%d, %s) for configuration %s" % (
        r["c"], r["n"], r["rid"], r["found"], json.dumps(b["cfg"]))


def _c05_drive_and_judge(binary, sc, env, tag):
    trace = os.path.join(sc, "topics_trace_%s.ndjson" % tag)
    progress = os.path.join(sc, "topics_progress_%s" % tag)
    e = dict(env)
    e.update(VERIF_TRACE=trace, VERIF_PROGRESS=progress, VERIF_SEED=str(vlib.seed()))
    rc, out = vlib.run_driver(binary, e, timeout=900)
    if rc != 0:
        return None, None, [_driver_failed("C05", rc, out, progress, "topicsdrv")], out
    text = open(trace).read()
    lines = [json.loads(l) for l in text.splitlines()]
    _phase("driver done: %d trace lines" % len(lines))
    res = vlib.tlc("Trace_Topics", "Trace_Topics.cfg", workers=1, files={"topics_trace.ndjson": text}, timeout=900, javaopts=JAVAOPTS)
    consumed, bad = _post(res, "Trace_Topics")
    if consumed != len(lines):
        raise vlib.Inconclusive("Trace_Topics consumed %d of %d lines (model gap)" % (consumed, len(lines)))
    if any(b["sig"] == "model-gap" for b in bad):
        raise vlib.Inconclusive("Trace_Topics: record of unknown kind")
    # TLC reports (line, signature); attach the record and the configuration it was judged against
    cur, cfg_at = [], {}
    for ln, l in enumerate(lines, 1):
        if l["kind"] == "cfg":
            cur = l["cfg"]
        cfg_at[ln] = cur
    for b in bad:
        b["rec"] = lines[b["line"] - 1]
        b["cfg"] = cfg_at[b["line"]]
    return lines, res, bad, out


def run_c05(tier, replay=None):
    t0 = time.time()
    sc = vlib.scratch()
    quick = tier != "thorough"
    reps = 20 if quick else 100
    nrandom = 300 if quick else 2000

    if replay:
        return _c05_replay(replay)

    jobs = dict(
        mc=lambda: vlib.tlc("Topics", "MC_Topics.cfg", workers=4, timeout=900, javaopts=JAVAOPTS),
        dev=lambda: vlib.tlc("Topics", "MC_Topics_dev.cfg", workers=1, timeout=300, javaopts=JAVAOPTS),
        merge=lambda: vlib.tlc("Topics", "MC_TopicsMerge.cfg", workers=2, timeout=600, javaopts=JAVAOPTS),
        build=lambda: vlib.build_driver("topicsdrv"),
    )
    r = _parallel(jobs)
    _need_ok(r["mc"], "MC_Topics (Prop_C05 on the spec)")
    _need_ok(r["merge"], "MC_TopicsMerge")
    if "Invariant Prop_C05 is violated" not in r["dev"]["out"]:
        raise vlib.Inconclusive("MC_Topics_dev: the ShadowedStar deviation does not break Prop_C05 (vacuous model?)\n"
                                + r["dev"]["out"][-2000:])
    _phase("spec checked (MC_Topics %d states), driver built" % r["mc"]["distinct"])
    vecs = _c05_vectors(r["mc"])
    if len(vecs) != 4096:
        raise vlib.Inconclusive("expected 4096 vectors from TLC, got %d" % len(vecs))
    vecfile = os.path.join(sc, "vectors.ndjson")
    with open(vecfile, "w") as fh:
        for v in vecs:
            fh.write(json.dumps(v) + "\n")

    yaml = os.path.join(vlib.REPO, "topics", "testdata", "topics.yaml")
    env = dict(VERIF_VECTORS=vecfile, VERIF_YAML=yaml, VERIF_RANDOM=str(nrandom), VERIF_REPS=str(reps))
    lines, tres, bad, out = _c05_drive_and_judge(r["build"], sc, env, "main")
    _phase("real lookups recorded and judged by Trace_Topics")

    violations = []
    if lines is None:
        violations = bad
        cov = dict(states=r["mc"]["distinct"], transitions=r["mc"]["generated"], traces_validated_against_impl=0,
                   samples=[dict(note="driver died", detail=bad[0]["what"])], evaluations=0, distinct_nontrivial=0,
                   rule="driver died before a trace was recorded", exhaustive=False)
    else:
        vbad = _c05_judge_by_vectors(vecs, lines)
        # the two judges must agree on the lines both see
        vb = {(b["line"], b["sig"]) for b in vbad}
        nvec_lines = sum(1 for l in lines if l["v"] < len(vecs))
        for b in bad:
            if b["line"] <= nvec_lines and (b["line"], b["sig"]) not in vb:
                raise vlib.Inconclusive("judges disagree on trace line %d: TLC says %s, vectors say nothing"
                                        % (b["line"], b["sig"]))
        tl = {(b["line"], b["sig"]) for b in bad}
        if vbad and not bad:
            raise vlib.Inconclusive("judges disagree: vector comparison flags line %d (%s), TLC accepts the trace"
                                    % (vbad[0]["line"], vbad[0]["sig"]))
        cfg_of = {}
        for l in lines:
            if l["kind"] == "cfg":
                cfg_of[l["v"]] = l
        seen = set()
        for b in sorted(list(bad) + vbad, key=lambda b: (len(b["cfg"]), b["line"])):
            k = (b["line"], b["sig"])
            if k in seen:
                continue
            seen.add(k)
            rec = b["rec"]
            c = cfg_of.get(rec.get("v"), {})
            q = ([dict(c=rec["c"], id=rec["id"])], []) if rec["kind"] == "name" else ([], [dict(c=rec["c"], n=rec["n"])])
            violations.append(dict(
                sig="C05/" + b["sig"], what=_c05_what(b),
                replay=dict(kind="lookup", source=c.get("src", ""), judged_by="TLC Trace_Topics" if k in tl else "TLC vector",
                            vector=dict(cfg=b["cfg"], names=q[0], ids=q[1]), record=rec,
                            how="bin/vcheck C05 quick --replay <this file>")))
        nq = sum(1 for l in lines if l["kind"] != "cfg")
        nontrivial = len({(l["v"], l["kind"], l["c"], l["id"], l["n"], l["found"], l["rid"], l["rn"])
                          for l in lines if l["kind"] != "cfg" and cfg_of[l["v"]]["cfg"]})
        samples = [l for l in lines if l["v"] == len(vecs)][:8]  # the repository's topics.yaml
        cov = dict(
            states=r["mc"]["distinct"] + r["merge"]["distinct"] + tres["distinct"],
            transitions=r["mc"]["generated"] + r["merge"]["generated"] + tres["generated"],
            traces_validated_against_impl=len(cfg_of),
            samples=samples or lines[:8],
            evaluations=sum(l["cnt"] for l in lines if l["kind"] != "cfg"),
            distinct_nontrivial=nontrivial,
            rule="TLC enumerates all 4096 configurations over clients {c1,c2,*} x ids {1,2} x names {t,t/a,u} and all 28 "
                 "queries each (4 clients x 3 ids, 4 clients x 4 names, incl. undefined ones); plus testdata/topics.yaml "
                 "and %d seeded random configurations (Add/options/YAML/Merge routes); every GetTopicID query runs %d "
                 "times on freshly built maps; distinct = distinct (configuration, query, result) triples on non-empty "
                 "configurations" % (nrandom, reps),
            exhaustive=True,
            spec_states_MC_Topics=r["mc"]["distinct"], trace_lines_judged_by_tlc=len(lines),
            query_lines=nq, configurations_from_vectors=len(vecs),
            deviation_counterexample_found=True,
            violating_observations_by_source=dict(collections.Counter(
                cfg_of[b["rec"]["v"]]["src"].split("/")[0] for b in bad)),
            notes=[l for l in out.splitlines() if l.startswith("NOTE")],
        )
    rc, nnew, nknown = vlib.verdict("C05", violations)
    vlib.write_evidence("C05", tier, "model_checking", cov, time.time() - t0, violations=len({v["sig"] for v in violations}),
                        assumptions=ASSUME_C05)
    print("C05: %d configurations judged, %d violating observations, %d signatures" % (
        cov["traces_validated_against_impl"], len(violations), len({v["sig"] for v in violations})))
    return rc


def _c05_replay(path):
    payload = json.load(open(path))
    vec = payload.get("vector")
    if not vec:
        raise vlib.Inconclusive("replay file has no vector")
    sc = vlib.scratch()
    vf = os.path.join(sc, "replay_vec.ndjson")
    open(vf, "w").write(json.dumps(vec) + "\n")
    binary = vlib.build_driver("topicsdrv")
    lines, tres, bad, out = _c05_drive_and_judge(binary, sc, dict(VERIF_VECTORS=vf, VERIF_REPS="200"), "replay")
    if lines is None:
        print("REPLAY: driver died:", bad[0]["what"])
        return 1
    for l in lines:
        print("REPLAY:", json.dumps(l))
    for b in bad:
        print("REPLAY VIOLATION sig=C05/%s %s" % (b["sig"], _c05_what(b)))
    return 1 if bad else 0


# =============================================================================================== C29

def _select_programs(progs, tier, rng):
    by = collections.defaultdict(list)
    for p in progs:
        by[(p["fam"], p["g"], p["l"])].append(p)
    sel = []
    for k in sorted(by):
        v = by[k]
        fam, g, l = k
        if fam == "txfull":
            n = 200 if tier == "quick" else 2500
        elif fam.startswith("txhot") and (g, l) == (3, 3):
            n = 30 if tier == "quick" else 300
        elif fam.startswith("txhot"):
            n = 100 if tier == "quick" else len(v)
        else:
            n = len(v)
        sel += v if n >= len(v) else rng.sample(v, n)
    for i, p in enumerate(sel, 1):
        p["pid"] = i
        # the one-word objects are cheap and their defects need truly overlapping calls: more repetitions in quick
        p["reps"] = 400 if tier == "quick" and p["obj"] in ("idseq", "cstate") else 0
    return sel


def _race_reports(out):
    """-> (list of (sig, text) for races inside the types under test, list of other race texts)"""
    mine, other = [], []
    for blk in out.split("WARNING: DATA RACE")[1:]:
        blk = blk.split("==================")[0]
        m = re.search(r"(util\.\(\*IDSequence\)\.\w+|transactions\.\(\*TransactionStore\)\.\w+|"
                      r"util\.\(\*ClientState\)\.\w+)", blk)
        if m:
            fn = m.group(1).replace("(*", "").replace(")", "").split(".", 1)[1]
            mine.append(("C29/race/" + fn, blk.strip()[:3000]))
        else:
            other.append(blk.strip()[:3000])
    return mine, other


def _lin_sig(h):
    ops = "+".join(sorted({o["op"] for o in h["ops"]}))
    return "C29/not-linearizable/%s/%s" % (h["obj"], ops)


def _fmt_hist(h):
    ev = []
    for o in h["ops"]:
        arg = "" if o["op"] in ("Next", "Get") and h["obj"] != "txstore" else str(o["k"])
        if o["op"].startswith("Store"):
            arg += ",tx%d" % o["v"]
        if o["op"] == "Set":
            arg = str(o["v"])
        if h["obj"] == "idseq":
            res = "(%d,%s)" % (o["rv"], str(o["found"]).lower())
        elif o["op"] in ("Get", "GetByType") and h["obj"] == "txstore":
            res = ("tx%d" % o["rv"]) if o["found"] else "none"
        elif h["obj"] == "cstate":
            res = str(o["rv"])
        else:
            res = ""
        ev.append((o["cs"], "g%d call %s(%s)" % (o["p"], o["op"], arg)))
        ev.append((o["rs"], "g%d ret  %s -> %s" % (o["p"], o["op"], res)))
    return [e for _, e in sorted(ev)]


def _run_conc(binary, progs, reps, nproc, tag, timeout, nostamp=False):
    """Run the concurrent driver over the programs in nproc processes.
    -> (histories, violations, outputs)"""
    sc = vlib.scratch()
    chunks = vlib.chunks(progs, nproc)
    by_pid = {p["pid"]: p for p in progs}

    def one(ic):
        i, ch = ic
        sched = os.path.join(sc, "sched_%s_%d.ndjson" % (tag, i))
        with open(sched, "w") as fh:
            for p in ch:
                fh.write(json.dumps(p) + "\n")
        trace = os.path.join(sc, "hist_%s_%d.ndjson" % (tag, i))
        progress = os.path.join(sc, "progress_%s_%d" % (tag, i))
        env = dict(VERIF_SCHED=sched, VERIF_REPS=str(reps), VERIF_TRACE=trace, VERIF_PROGRESS=progress,
                   VERIF_SEED=str(vlib.seed()), GORACE="halt_on_error=0", VERIF_NOSTAMP="1" if nostamp else "0",
                   VERIF_REPS_SCALE="10" if nostamp else "100")
        rc, out = vlib.run_driver(binary, env, timeout=timeout)
        return rc, out, trace, progress, sched

    hists, viols, outs = [], [], []
    for rc, out, trace, progress, sched in vlib.pmap(one, list(enumerate(chunks)), n=nproc):
        outs.append(out)
        races, other = _race_reports(out)
        if other:
            raise vlib.Inconclusive("race report outside the types under test (harness?):\n" + other[0])
        for sig, text in races:
            viols.append(dict(sig=sig, what="data race reported by the Go race detector inside " + sig.split("/")[-1],
                              replay=dict(kind="race", report=text)))
        if rc == 3 and "HANG pid=" in out:
            pid = int(re.search(r"HANG pid=(\d+)", out).group(1))
            # reproduce before believing it
            again = os.path.join(sc, "sched_hang_%s.ndjson" % tag)
            open(again, "w").write(json.dumps(by_pid[pid]) + "\n")
            rc2, out2 = vlib.run_driver(binary, dict(VERIF_SCHED=again, VERIF_REPS=str(reps), VERIF_SEED=str(vlib.seed()),
                                                     VERIF_TRACE=os.path.join(sc, "hist_hang.ndjson")), timeout=timeout)
            if rc2 == 3 and "HANG pid=" in out2:
                viols.append(dict(sig="C29/hang/" + by_pid[pid]["obj"],
                                  what="operations did not return within 60 s (twice) for program %s" % json.dumps(by_pid[pid]),
                                  replay=dict(kind="hang", program=by_pid[pid])))
                continue
            raise vlib.Inconclusive("driver hang not reproduced (program %d)" % pid)
        if rc != 0 and not races:
            viols.append(_driver_failed("C29", rc, out, progress, "atomdrv(%s)" % tag))
            continue
        if os.path.exists(trace):
            for l in open(trace):
                hists.append(json.loads(l))
    for i, h in enumerate(hists, 1):
        h["hid"] = i
    return hists, viols, outs


def _judge_lin(hists, workers_per_run=4, chunk=60000, timeout=1500):
    """TLC decides linearizability of every history. -> (set of non-linearizable hids, states, transitions)"""
    jobs = []
    for obj, mod, fname in (("idseq", "Lin_IdSeq", "lin_idseq.ndjson"), ("txstore", "Lin_TxStore", "lin_txstore.ndjson"),
                            ("cstate", "Lin_CState", "lin_cstate.ndjson")):
        hs = [h for h in hists if h["obj"] == obj]
        for i in range(0, len(hs), chunk):
            jobs.append((mod, fname, hs[i:i + chunk]))

    def one(job):
        mod, fname, hs = job
        text = "".join(json.dumps(h) + "\n" for h in hs)
        res = vlib.tlc(mod, mod + ".cfg", workers=workers_per_run if len(hs) > 3000 else 1,
                       files={fname: text}, timeout=timeout, javaopts=JAVAOPTS)
        _need_ok(res, mod)
        m = re.search(r"Finished computing initial states: (\d+) distinct state", res["out"])
        if not m or int(m.group(1)) != len(hs):
            raise vlib.Inconclusive("%s: TLC started from %s histories, expected %d" % (mod, m and m.group(1), len(hs)))
        lin = {int(x) for x in vlib.tlc_printed(res, "LIN:")}
        return {h["hid"] for h in hs} - lin, res["distinct"], res["generated"]

    bad, st, tr = set(), 0, 0
    for b, s, t in vlib.pmap(one, jobs, n=3):
        bad |= b
        st += s
        tr += t
    return bad, st, tr


def run_c29(tier, replay=None):
    t0 = time.time()
    sc = vlib.scratch()
    quick = tier != "thorough"
    rng = random.Random(vlib.seed())
    reps = 50 if quick else 2000
    race_reps = 10 if quick else 50
    nproc = max(2, min(4 if quick else 8, vlib.NCPU))

    if replay:
        return _c29_replay(replay)

    # ---- A: specs on their own, program enumeration, builds
    r = _parallel(dict(
        idseq=lambda: vlib.tlc("IdSeq", "MC_IdSeq_quick.cfg" if quick else "MC_IdSeq_full.cfg", workers=1, timeout=900,
                               javaopts=JAVAOPTS),
        tx=lambda: vlib.tlc("TxStore", "MC_TxStore.cfg" if quick else "MC_TxStore_4.cfg", workers=2, timeout=900, javaopts=JAVAOPTS),
        cs=lambda: vlib.tlc("CState", "MC_CState.cfg", workers=1, timeout=300, javaopts=JAVAOPTS),
        progs=lambda: vlib.tlc("AtomProgs", "AtomProgs.cfg", workers=1, timeout=900, javaopts=JAVAOPTS),
        # one thread: vlib.harness_dir() is not re-entrant
        builds=lambda: (vlib.build_driver("atomdrv"), vlib.build_driver("atomdrv", race=True)),
    ))
    r["build"], r["brace"] = r["builds"]
    _phase("specs checked, %d programs enumerated, drivers built" % r["progs"]["distinct"])
    _need_ok(r["idseq"], "MC_IdSeq_full (Prop_C29_Seq)")
    _need_ok(r["tx"], "MC_TxStore (Prop_C29_Store)")
    _need_ok(r["cs"], "MC_CState (Prop_C29_State)")
    _need_ok(r["progs"], "AtomProgs")
    spec_states = sum(r[k]["distinct"] for k in ("idseq", "tx", "cs", "progs"))
    spec_trans = sum(r[k]["generated"] for k in ("idseq", "tx", "cs", "progs"))
    ranges = sorted({(int(a), int(b)) for a, b in re.findall(r'<<"RANGE", (\d+), (\d+), \d+>>', r["idseq"]["out"])})
    if len(ranges) != (12 if quick else 13):
        raise vlib.Inconclusive("unexpected number of ranges from MC_IdSeq: %d" % len(ranges))
    seqs = sorted(vlib.tlc_printed(r["tx"], "SEQ:"))
    if len(seqs) != (4096 if quick else 65536):
        raise vlib.Inconclusive("unexpected number of store sequences from TLC: %d" % len(seqs))
    progs = [json.loads(x) for x in vlib.tlc_printed(r["progs"], "PROG:")]
    progs.sort(key=lambda p: json.dumps(p, sort_keys=True))
    if len(progs) != 19100:
        raise vlib.Inconclusive("unexpected number of programs from TLC: %d" % len(progs))
    sel = _select_programs(progs, tier, rng)

    violations = []

    # ---- B: sequential conformance
    seqfile = os.path.join(sc, "txseqs.ndjson")
    open(seqfile, "w").write("\n".join(seqs) + "\n")
    tr_id, tr_tx = os.path.join(sc, "idseq_trace.ndjson"), os.path.join(sc, "txstore_trace.ndjson")
    rc, out = vlib.run_driver(r["build"], dict(
        VERIF_SEQ_IDSEQ=json.dumps(ranges), VERIF_TRACE_IDSEQ=tr_id, VERIF_SEQ_TX=seqfile, VERIF_TRACE_TX=tr_tx,
        VERIF_RANDOM=str(100 if quick else 1000), VERIF_SEED=str(vlib.seed())), run="TestSeq", timeout=600)
    seq_runs = 0
    if rc != 0:
        violations.append(_driver_failed("C29", rc, out, None, "atomdrv TestSeq"))
        jr = {}
    else:
        jr = _parallel(dict(
            id=lambda: vlib.tlc("Trace_IdSeq", "Trace_IdSeq.cfg", workers=1, files={"idseq_trace.ndjson": open(tr_id).read()},
                                timeout=900, javaopts=JAVAOPTS),
            tx=lambda: vlib.tlc("Trace_TxStore", "Trace_TxStore.cfg", workers=1,
                                files={"txstore_trace.ndjson": open(tr_tx).read()}, timeout=1200, javaopts=JAVAOPTS)))
        c, bad = _post(jr["id"], "Trace_IdSeq")
        if c != len(ranges):
            raise vlib.Inconclusive("Trace_IdSeq consumed %d of %d runs" % (c, len(ranges)))
        for b in bad:
            violations.append(dict(sig="C29/" + b["sig"],
                                   what="IDSequence(%d,%d): call %d returned %s, specification says %s" % (
                                       b["min"], b["max"], b["call"], json.dumps(b["observed"]), json.dumps(b["expected"])),
                                   replay=dict(kind="idseq-seq", **b)))
        ntx = sum(1 for _ in open(tr_tx))
        c, bad = _post(jr["tx"], "Trace_TxStore")
        if c != ntx:
            raise vlib.Inconclusive("Trace_TxStore consumed %d of %d lines" % (c, ntx))
        for b in bad:
            violations.append(dict(sig="C29/" + b["sig"],
                                   what="TransactionStore: after %s the last call returned %s, specification says %s" % (
                                       json.dumps(b["ops"]), json.dumps(b["observed"]), json.dumps(b["expected"])),
                                   replay=dict(kind="txstore-seq", **b)))
        m = re.search(r"TX-SEQS (\d+)", out)
        seq_runs = len(ranges) + (int(m.group(1)) if m else 0)

    _phase("sequential runs judged (%d violations so far)" % len(violations))
    # ---- C: concurrent histories from real goroutines (+ the same programs under the race detector)
    budget = 600 if quick else 2400
    cr = _parallel(dict(
        plain=lambda: _run_conc(r["build"], sel, reps, nproc, "plain", budget),
        race=lambda: _run_conc(r["brace"], sel, race_reps, max(2, nproc // 2), "race", budget, nostamp=True),
    ))
    hists, v1, outs = cr["plain"]
    rhists, v2, routs = cr["race"]
    violations += v1 + v2
    # (the race build runs without stamps and records no histories, see atomdrv VERIF_NOSTAMP)
    allh = hists + rhists
    for i, h in enumerate(allh, 1):
        h["hid"] = i
    # identical histories (same program, stamps and results) need be judged once
    uniq, seen = [], set()
    for h in allh:
        k = (h["obj"], h["min"], h["max"], json.dumps(h["ops"], sort_keys=True))
        if k in seen:
            continue
        seen.add(k)
        uniq.append(h)

    _phase("concurrent runs done: %d + %d histories, %d distinct" % (len(hists), len(rhists), len(uniq)))
    # ---- D: TLC judges linearizability
    nonlin, lst, ltr = _judge_lin(uniq, timeout=600 if quick else 2400)
    for h in uniq:
        if h["hid"] in nonlin:
            prog = next((p for p in sel if p["pid"] == h["prog"]), None)
            violations.append(dict(sig=_lin_sig(h),
                                   what="recorded history has no linearisation (TLC explored all orders): " + "; ".join(_fmt_hist(h)),
                                   replay=dict(kind="history", history=h, program=prog, events=_fmt_hist(h))))

    overlapping = sum(1 for h in uniq if any(a["cs"] < b["rs"] and b["cs"] < a["rs"] and a["p"] != b["p"]
                                             for a in h["ops"] for b in h["ops"]))
    runs = sum(int(x) for o in outs + routs for x in re.findall(r"RUNS (\d+)", o))
    tstates = sum(jr[k]["distinct"] for k in jr)
    ttrans = sum(jr[k]["generated"] for k in jr)
    samples = [dict(program=next(p for p in sel if p["pid"] == h["prog"])["procs"], obj=h["obj"], range=[h["min"], h["max"]],
                    seen=h["cnt"], events=_fmt_hist(h))
               for h in [x for x in uniq if any(a["cs"] < b["rs"] and b["cs"] < a["rs"] and a["p"] != b["p"]
                                                for a in x["ops"] for b in x["ops"])][:3]] or \
              [dict(events=_fmt_hist(h)) for h in uniq[:2]] or [dict(note="no history recorded")]
    cov = dict(
        states=spec_states + tstates + lst, transitions=spec_trans + ttrans + ltr,
        traces_validated_against_impl=seq_runs + len(uniq),
        samples=samples,
        evaluations=runs + seq_runs,
        distinct_nontrivial=overlapping,
        rule="sequential: Next 2*size+2 times on all ranges 0<=min<=max<=3, (65534,65535), (0,65535), (1,65534); all store "
             "operation sequences of length %d over 2 keys x 2 values (from TLC) plus seeded random 40-operation sequences. "
             "concurrent: %d programs selected (seed) from the 19100 enumerated by TLC (AtomProgs), each run %d times (idseq/cstate programs 400 times in quick; and %d "
             "times under -race) in real goroutines; evaluations = program executions + sequential runs; "
             "distinct_nontrivial = distinct recorded histories in which operations of different goroutines overlap in time"
             % (3 if quick else 4, len(sel), reps, race_reps),
        exhaustive=False,
        programs_run=len(sel), histories_distinct=len(uniq), histories_not_linearizable=len(nonlin),
        lin_states=lst, seq_trace_states=tstates, spec_states=spec_states,
        race_detector_reports=len([v for v in violations if v["sig"].startswith("C29/race/")]),
    )
    rc, nnew, nknown = vlib.verdict("C29", violations)
    vlib.write_evidence("C29", tier, "model_checking", cov, time.time() - t0, violations=len({v["sig"] for v in violations}),
                        assumptions=ASSUME_C29)
    print("C29: %d sequential runs, %d program executions, %d distinct histories judged by TLC (%d with overlap), "
          "%d not linearizable, %d signatures" % (seq_runs, runs, len(uniq), overlapping, len(nonlin),
                                                 len({v["sig"] for v in violations})))
    return rc


def _c29_replay(path):
    payload = json.load(open(path))
    kind = payload.get("kind")
    if kind == "history":
        h = payload["history"]
        h["hid"] = 1
        nonlin, st, tr = _judge_lin([h])
        print("REPLAY: recorded history re-judged by TLC: %s" % ("NOT linearizable" if nonlin else "linearizable"))
        for e in _fmt_hist(h):
            print("REPLAY:  ", e)
        prog = payload.get("program")
        again = 0
        if prog:
            prog["pid"] = 1
            hists, viols, _ = _run_conc(vlib.build_driver("atomdrv"), [prog], 20000, 1, "replay", 900)
            bad, st, tr = _judge_lin(hists)
            again = len(bad) + len(viols)
            print("REPLAY: program re-run 20000 times: %d distinct histories, %d not linearizable" % (len(hists), len(bad)))
        return 1 if (nonlin or again) else 0
    if kind in ("race", "hang", "crash"):
        print("REPLAY: %s findings are re-established by re-running the check (bin/vcheck C29 quick)" % kind)
        return run_c29("quick")
    if kind in ("idseq-seq", "txstore-seq"):
        print("REPLAY: sequential findings are deterministic; re-running the check")
        return run_c29("quick")
    raise vlib.Inconclusive("unknown replay kind %r" % kind)


def run(prop, tier, replay=None):
    if prop == "C05":
        return run_c05(tier, replay)
    if prop == "C29":
        return run_c29(tier, replay)
    raise vlib.Inconclusive("family topics does not serve " + prop)
