"""Interoperability family (C16, C26, C32): Interop.tla / MC_Interop.tla / Trace_Interop.tla +
harness/iodrv (real client library + real gateway session + conforming broker model + link with
fault injection, one virtual-clock bubble).

  1. TLC explores the service-level spec over API-call / broker-publish alphabets and emits one
     schedule per transition of the state graph;
  2. C16: every TLC-generated broker-publish schedule is combined with every loss/duplication
     pattern of the datagrams of the QoS 1/2 flow (REGISTER, REGACK, PUBLISH, PUBACK | PUBREC,
     PUBREL, PUBCOMP) within the retry budget, plus patterns exceeding it;
  3. iodrv executes them on the real code; TLC (Trace_Interop) judges the recorded traces.
"""
import json, os, random, time
import vlib

CONFIGS = {
    "C26": [dict(groups=["conn", "reg", "sub", "pub", "bpub", "burst"], qoss=[0, 1, 2], depth=(4, 5)),
            dict(groups=["conn", "sub", "bpub", "sleep", "burst"], qoss=[1], depth=(5, 6)),
            dict(groups=["conn", "reg", "pub", "pre", "sleep"], qoss=[0, 3], depth=(4, 5)),
            dict(groups=["conn", "pub", "sub", "sleep", "will"], qoss=[1], depth=(3, 4))],
    "C32": [dict(groups=["conn", "pre", "bpub", "sub", "pub", "hishort"], qoss=[1], depth=(4, 5)),
            dict(groups=["conn", "pre", "pub", "bpub", "hishort"], qoss=[0, 2, 3], depth=(3, 4))],
    "C16": [dict(groups=["conn", "sub", "bpub"], qoss=[1, 2], depth=(3, 3))],
}
QUICK_SAMPLE = 250


def tla_set(xs):
    return "{" + ", ".join(('"%s"' % x) if isinstance(x, str) else str(x) for x in xs) + "}"


def mc_cfg(c, depth):
    return "\n".join(["SPECIFICATION Spec", "CONSTANTS", "  MaxEvents = %d" % depth, "  Emit = TRUE",
                      "  Groups = " + tla_set(c["groups"]), "  Qoss = " + tla_set(c["qoss"]),
                      "INVARIANT TypeOK", "VIEW View", "CHECK_DEADLOCK FALSE", ""])


def run_mc(c, tier):
    depth = c["depth"][0 if tier == "quick" else 1]
    res = vlib.tlc("MC_Interop", "mc.cfg", files={"mc.cfg": mc_cfg(c, depth)}, workers=min(8, vlib.NCPU),
                   timeout=1800 if tier == "thorough" else 900)
    if not vlib.tlc_ok(res):
        raise vlib.Inconclusive("MC_Interop failed:\n" + res["out"][-2500:])
    return res, [json.loads(js) for js in vlib.tlc_printed(res, "SCHED:")]


def to_scenario(d, sid, faults=(), tail=10):
    evs, k, last_async = [], 0, None
    for e in d["events"]:
        if e["t"] == "Api":
            k += 1
            call = "k%d" % k
            ev = {"e": "api", "api": e["api"], "call": call, "async": bool(e["async"]), "topic": e["topic"], "qos": e["qos"],
                  "tid": e["tid"], "dur": e["dur"], "h": e["h"], "pl": e["pl"], "retain": bool(e["retain"])}
            if e["async"]:
                last_async = call
            evs.append(ev)
        elif e["t"] == "BPub":
            evs.append({"e": "bpub", "pubs": [{"topic": p["topic"], "qos": p["qos"], "pl": p["pl"]} for p in e["pubs"]], "n": e["n"]})
        elif e["t"] == "Wait":
            evs.append({"e": "wait", "call": last_async or "", "n": e["n"]})
    cfg = dict(d["cfg"])
    cfg["predef"] = [dict(c=p["c"], id=p["id"], n=p["n"]) for p in cfg["predef"]]
    return {"id": sid, "cfg": cfg, "seed": vlib.seed(), "events": evs, "faults": list(faults), "tail": tail}


FLOW = [("g2c", "REGISTER"), ("c2g", "REGACK"), ("g2c", "PUBLISH"), ("c2g", "PUBACK"), ("c2g", "PUBREC"),
        ("g2c", "PUBREL"), ("c2g", "PUBCOMP")]


def fault_patterns(rc, tier, rnd):
    """loss/duplication patterns for the datagrams of the broker-publish flows"""
    singles = []
    for d, t in FLOW:
        for drop in range(1, rc + 1):
            singles.append([dict(dir=d, t=t, skip=0, drop=drop, dupl=0)])
        singles.append([dict(dir=d, t=t, skip=0, drop=0, dupl=1)])
        singles.append([dict(dir=d, t=t, skip=0, drop=1, dupl=1)])
    pairs = []
    # datagrams of one exchange step share the gateway's retry budget: request and its answer
    step = {"REGISTER": 0, "REGACK": 0, "PUBLISH": 1, "PUBACK": 1, "PUBREC": 1, "PUBREL": 2, "PUBCOMP": 2}
    for i in range(len(FLOW)):
        for j in range(i + 1, len(FLOW)):
            for di in (1, rc):
                for dj in (1, rc):
                    if step[FLOW[i][1]] == step[FLOW[j][1]] and di + dj > rc:
                        continue
                    pairs.append([dict(dir=FLOW[i][0], t=FLOW[i][1], skip=0, drop=di, dupl=0),
                                  dict(dir=FLOW[j][0], t=FLOW[j][1], skip=0, drop=dj, dupl=0)])
    if tier == "quick":
        pairs = rnd.sample(pairs, 25)
    over = [[dict(dir=d, t=t, skip=0, drop=rc + 1 + extra, dupl=0)] for d, t in FLOW for extra in (0, 2)]
    return [[]] + singles + pairs, over


def execute(scenarios, binary):
    sc = vlib.scratch()
    parts = vlib.chunks(scenarios, vlib.NCPU)

    def one(arg):
        k, part = arg
        lines, problems = [], []
        todo, rounds = part, 0
        while todo:
            rounds += 1
            sp, tp, pp = (os.path.join(sc, "io-%s-%d-%d" % (x, k, rounds)) for x in ("sched", "trace", "prog"))
            json.dump(todo, open(sp, "w"))
            rc, out = vlib.run_driver(binary, {"VERIF_SCHED": sp, "VERIF_TRACE": tp, "VERIF_PROGRESS": pp}, timeout=1200)
            got = [json.loads(l) for l in open(tp)] if os.path.exists(tp) else []
            prog = open(pp).read() if os.path.exists(pp) else ""
            if rc == 0 and prog == "DONE":
                lines += got
                break
            ids = [s["id"] for s in todo]
            cur = prog[6:] if prog.startswith("STUCK:") else prog
            if cur not in ids:
                raise vlib.Inconclusive("iodrv failed outside a scenario (rc=%d): %s" % (rc, out[-2000:]))
            idx = ids.index(cur)
            lines += [l for l in got if l["tr"] != cur or prog.startswith("STUCK:")]
            problems.append({"scenario": todo[idx], "stuck": prog.startswith("STUCK:"), "output": out[-3000:]})
            todo = todo[idx + 1:]
            if rounds > 60:
                raise vlib.Inconclusive("too many iodrv process deaths")
        return lines, problems

    lines, problems = [], []
    for l, p in vlib.pmap(one, list(enumerate(parts))):
        lines += l
        problems += p
    return lines, problems


def judge(lines, props, budget=True):
    traces, cur = [], []
    for l in lines:
        if l["ev"]["t"] == "Reset" and cur:
            traces.append(cur)
            cur = []
        cur.append(l)
    if cur:
        traces.append(cur)
    if not traces:
        return [], {}, set(), []
    parts = vlib.chunks(traces, max(1, min(vlib.NCPU // 2, len(traces))))
    pj = json.dumps({"props": props, "budget": budget}) + "\n"

    def one(part):
        txt = "".join(json.dumps(l) + "\n" for tr in part for l in tr)
        n = sum(len(tr) for tr in part)
        res = vlib.tlc("Trace_Interop", "Trace_Interop.cfg", files={"trace.ndjson": txt, "props.json": pj}, workers=1, timeout=1200)
        r = vlib.tlc_printed(res, "RESULT:")
        if not vlib.tlc_ok(res) or not r:
            raise vlib.Inconclusive("interop trace validation did not complete:\n" + res["out"][-3000:])
        d = json.loads(r[-1])
        if d["stat"]["lines"] != n:
            raise vlib.Inconclusive("trace not fully consumed")
        return d

    viol, cover, stat = [], set(), {}
    for d in vlib.pmap(one, parts):
        viol += d["viol"]
        cover |= set(d["cover"])
        for k, v in d["stat"].items():
            stat[k] = stat.get(k, 0) + v
    return viol, stat, cover, traces


def crash_half(tier, rnd):
    """C25, both implementations talking to each other: the C26 schedules (API calls + broker publishes through the real
    gateway and the real client) executed with the process-death oracle only."""
    import crash
    binary = vlib.build_driver("iodrv")
    scs, states = [], 0
    for k, c in enumerate(CONFIGS["C26"]):
        res, scheds = run_mc(c, tier)
        states += res["distinct"]
        if tier == "quick" and len(scheds) > QUICK_SAMPLE:
            scheds = rnd.sample(scheds, QUICK_SAMPLE)
        scs += [to_scenario(d, "C25-io%d-%d" % (k, i)) for i, d in enumerate(scheds)]
    lines, problems = execute(scs, binary)
    violations = []
    for p in problems:
        if "panic:" in p["output"]:
            violations.append({"sig": crash.panic_sig(p["output"]), "what": "process died in " + p["scenario"]["id"] + " (real client + real gateway)",
                               "replay": {"interop": True, "scenario": p["scenario"], "output": p["output"][-2500:]}})
    return violations, dict(schedules=len(scs), states=states, process_problems=len(problems))


def run(prop, tier, replay=None):
    t0 = time.time()
    rnd = random.Random(vlib.seed())
    binary = vlib.build_driver("iodrv")
    states = transitions = 0
    ok_sc, over_sc, mc_info = [], [], []
    if replay:
        payload = json.load(open(replay))
        (over_sc if payload.get("over") else ok_sc).append(payload["scenario"])
    else:
        for k, c in enumerate(CONFIGS[prop]):
            res, scheds = run_mc(c, tier)
            states += res["distinct"]
            transitions += res["generated"]
            total = len(scheds)
            if prop == "C16":
                # only schedules that end with a broker publish to an active, subscribed client
                scheds = [d for d in scheds if d["events"][-1]["t"] == "BPub" and any(p["eff"] in (1, 2) for p in d["events"][-1]["pubs"])]
                if tier == "quick":
                    # a few schedules of every kind: effective QoS 1 / 2, topic new / known / short / predefined
                    kinds = {}
                    for d in scheds:
                        p = d["events"][-1]["pubs"][0]
                        kinds.setdefault((p["eff"], p["topic"], len(d["events"][-1]["pubs"])), []).append(d)
                    scheds = []
                    for k in sorted(kinds, key=repr):
                        scheds += rnd.sample(kinds[k], min(2, len(kinds[k])))
                    if len(scheds) > 24:
                        scheds = rnd.sample(scheds, 24)
                within, over = fault_patterns(2, tier, rnd)
                for i, d in enumerate(scheds):
                    for j, f in enumerate(within):
                        ok_sc.append(to_scenario(d, "C16-%d-f%d" % (i, j), faults=f, tail=40))
                    for j, f in enumerate(over if tier == "thorough" else rnd.sample(over, 4)):
                        over_sc.append(to_scenario(d, "C16-%d-o%d" % (i, j), faults=f, tail=60))
            else:
                if tier == "quick" and len(scheds) > QUICK_SAMPLE:
                    scheds = rnd.sample(scheds, QUICK_SAMPLE)
                for i, d in enumerate(scheds):
                    ok_sc.append(to_scenario(d, "%s-mc%d-%d" % (prop, k, i)))
            mc_info.append(dict(groups=c["groups"], distinct=res["distinct"], generated=res["generated"], schedules=total))
    lines, problems = execute(ok_sc, binary)
    viol, stat, cover, traces = judge(lines, [prop], budget=True)
    lines2, problems2 = execute(over_sc, binary) if over_sc else ([], [])
    viol2, stat2, cover2, traces2 = judge(lines2, [prop], budget=False) if over_sc else ([], {}, set(), [])
    byid = {s["id"]: s for s in ok_sc + over_sc}
    tr_by = {tr[0]["tr"]: tr for tr in traces + traces2}
    violations = []
    for v, over in [(x, False) for x in viol] + [(x, True) for x in viol2]:
        violations.append({"sig": v["tag"], "what": "trace %s line %d" % (v["tr"], v["i"]),
                           "replay": {"scenario": byid.get(v["tr"]), "over": over, "line": v["i"], "tag": v["tag"],
                                      "trace": [{k: l[k] for k in ("i", "now", "ev", "rets", "cbs", "cst", "gst", "p1", "p2")} |
                                                {"link": [(x["dir"], x["p"]["t"], x["p"]["mid"], x["p"]["dup"], x["fate"]) for x in l["link"]],
                                                 "brecv": [m["t"] for m in l["brecv"]]} for l in tr_by.get(v["tr"], [])]}})
    for p in problems + problems2:
        if p["stuck"]:
            violations.append({"sig": "%s/api-call-never-returns/%s" % (prop if prop != "C16" else "C26", p["scenario"]["events"][-1].get("api", p["scenario"]["events"][-1]["e"])),
                               "what": "blocked goroutines at the end of scenario %s" % p["scenario"]["id"],
                               "replay": {"scenario": p["scenario"], "output": p["output"][-1500:]}})
        elif "panic:" in p["output"]:
            import crash
            violations.append({"sig": crash.panic_sig(p["output"]).replace("C25/", prop + "/"), "what": "process died in " + p["scenario"]["id"],
                               "replay": {"scenario": p["scenario"], "output": p["output"][-2500:]}})
        else:
            raise vlib.Inconclusive("iodrv died: " + p["output"][-800:])
    code, n_new, n_known = vlib.verdict(prop, violations)
    sample = (ok_sc + over_sc)[0] if (ok_sc or over_sc) else None
    allcover = cover | cover2
    cov = dict(states=states, transitions=transitions, traces_validated_against_impl=len(traces) + len(traces2),
               samples=[{"events": sample["events"], "faults": sample["faults"]} if sample else None],
               evaluations=stat.get("checked", 0) + stat2.get("checked", 0), distinct_nontrivial=len(allcover),
               rule="schedules = one per transition of the TLC state graph of the API/broker alphabets (quick: seeded sample)"
                    + (" x loss/duplication patterns of every datagram of the flow (within and beyond the retry budget)" if prop == "C16" else "")
                    + "; evaluations = trace steps judged by TLC; distinct_nontrivial = distinct (client state, event, API, post-state) combinations",
               exhaustive=(tier == "thorough"), mc=mc_info, fault_scenarios=len(over_sc) + (len(ok_sc) if prop == "C16" else 0),
               process_problems=len(problems) + len(problems2), known_findings=n_known)
    vlib.write_evidence(prop, tier, "model_checking", cov, time.time() - t0, violations=n_new,
                        assumptions=["conforming broker model (harness/iodrv/broker.go)", "in-memory link; loss/duplication only where the fault plan says",
                                     "virtual clock (synctest)"])
    return code
