"""Targeted schedule generators for the gateway-session family: histories that the small TLC
alphabets do not reach (real topic-ID range, long timed histories, large payloads, map-order
nondeterminism repeats).  Every scenario is executed on the real code and judged by TLC."""

PREDEF = [{"c": "*", "id": 2, "n": "pre/x"}, {"c": "c1", "id": 5, "n": "pre/y"},
          {"c": "*", "id": 6, "n": "pre/z"}, {"c": "c1", "id": 6, "n": "own/z"}]


def cfg(**kw):
    c = dict(auth=False, hasuser=False, user="", haspass=False, **{"pass": ""}, retrydelay=10, retrycount=1,
             tidmin=1, tidmax=3, skiptids=0, predef=list(PREDEF))
    c.update(kw)
    return c


def P(t, **kw):
    d = dict(t=t)
    d.update(kw)
    return {"e": "cl", "p": d}


def M(t, **kw):
    d = dict(t=t, codes=[])
    d.update(kw)
    return {"e": "br", "m": d}


def adv(n):
    return {"e": "adv", "n": n}


CONNECT = [P("CONNECT", dur=2, cid="c1", clean=True), M("CONNACK", rc=0)]


def sc(id_, events, tail=70, **cfgkw):
    return {"id": id_, "cfg": cfg(**cfgkw), "seed": 1, "events": events, "tail": tail}


def for_property(prop, tier, rnd):
    f = globals().get("gen_" + prop)
    out = f(tier, rnd) if f else []
    for i, s in enumerate(out):
        s["id"] = "%s-g%d-%s" % (prop, i, s["id"])
        s["seed"] = rnd.randrange(1 << 30)
    return out


# ---------------------------------------------------------------------------------------------
def reg(mid, name):
    return P("REGISTER", mid=mid, topic=name)


def sub(mid, name, qos=1, **kw):
    return P("SUBSCRIBE", mid=mid, topic=name, qos=qos, tit=0, **kw)


def bpub(topic, qos=0, mid=0, pl="s:x", **kw):
    return M("PUBLISH", topic=topic, qos=qos, mid=mid if qos else 0, pl=pl, **kw)


def gen_C04(tier, rnd):
    out = []
    # small range 1..3 with predefined ID 2 inside: IDs 1 and 3 are available
    ev = CONNECT + [reg(1, "t/a"), reg(2, "t/b"), reg(3, "t/c"), reg(4, "t/d"), sub(5, "t/e"), reg(6, "t/a"),
                    sub(7, "t/b"), M("SUBACK", mid=7, codes=[1]), reg(8, "t/f"), bpub("t/a"), bpub("t/new")]
    out.append(sc("small-exhaust", ev))
    ev = CONNECT + [sub(1, "t/a"), M("SUBACK", mid=1, codes=[0]), bpub("n/1"), P("REGACK", mid=65535, tid=3, rc=0),
                    reg(2, "t/z"), sub(3, "t/y"), reg(4, "t/x"), sub(5, "t/a"), M("SUBACK", mid=5, codes=[2])]
    out.append(sc("small-mixed", ev))
    # the real range 1..0xFFFE brought to the brink
    for skip, n in ((65530, 8), (65533, 4), (65534, 3)):
        ev = list(CONNECT)
        for i in range(n):
            ev.append(reg(10 + i, "r/%d" % i) if i % 3 else sub(10 + i, "r/%d" % i))
            if not i % 3:
                ev.append(M("SUBACK", mid=10 + i, codes=[0]))
        ev += [reg(50, "r/0"), reg(51, "r/again"), bpub("r/1")]
        out.append(sc("real-range-%d" % skip, ev, tidmin=1, tidmax=65534, skiptids=skip, predef=[]))
    # predefined IDs at the end of the real range
    ev = CONNECT + [reg(1, "e/1"), reg(2, "e/2"), reg(3, "e/3"), reg(4, "e/4")]
    out.append(sc("real-range-predef-tail", ev, tidmin=1, tidmax=65534, skiptids=65531,
                  predef=[{"c": "*", "id": 65533, "n": "p/1"}, {"c": "c1", "id": 65534, "n": "p/2"}]))
    return out


SIZES = [0, 1, 2, 245, 246, 247, 248, 249, 250, 251, 252, 253, 254, 255, 256, 300, 1000, 7168, 8000, 8183, 8184, 8192, 9000,
         20000, 65526, 65527, 65535, 70000]


def gen_C23(tier, rnd):
    out = []
    sizes = SIZES if tier == "thorough" else rnd.sample(SIZES, 12) + [8183, 8184, 65527]
    for n in sizes:
        for qos in (0, 1):
            ev = CONNECT + [reg(1, "t/a"), bpub("t/a", qos=qos, mid=7, pl="z:%d" % n), bpub("ab", qos=qos, mid=8, pl="z:%d" % n)]
            out.append(sc("payload-%d-q%d" % (n, qos), ev, tail=30))
            # the same payload on a topic the client does not know yet: REGISTER first, PUBLISH after REGACK
            ev = CONNECT + [bpub("n/big", qos=qos, mid=7, pl="z:%d" % n), P("REGACK", mid=7 if qos else 65535, tid=1, rc=0)]
            out.append(sc("payload-newtopic-%d-q%d" % (n, qos), ev, tail=30))
    for tl in (100, 250, 8183, 8184, 8185, 9000):
        # long topic names: the REGISTER must fit into one datagram as well
        out.append(sc("longtopic-%d" % tl, CONNECT + [bpub("t/" + "x" * (tl - 2), qos=1, mid=7, pl="s:p"),
                                                        P("REGACK", mid=7, tid=1, rc=0)], tail=15))
    # CONNACK shapes: zero keep-alive, awake/asleep shortcut
    out.append(sc("zero-ka", [P("CONNECT", dur=0, cid="c1")], tail=5))
    out.append(sc("zero-ka-active", CONNECT + [P("CONNECT", dur=0, cid="c1")], tail=5))
    out.append(sc("wake-connect", CONNECT + [P("DISCONNECT", dur=3), P("PINGREQ", cid="c1"), P("CONNECT", dur=2, cid="c1")], tail=5))
    out.append(sc("asleep-connect", CONNECT + [P("DISCONNECT", dur=3), bpub("ab"), P("CONNECT", dur=2, cid="c1")], tail=5))
    return out


def gen_C02(tier, rnd):
    out = []
    sizes = [0, 1, 250, 251, 252, 7168] if tier == "quick" else [s for s in SIZES if s <= 7168]
    for n in sizes:
        for qos in (0, 1, 2):
            ev = CONNECT + [sub(1, "t/a"), M("SUBACK", mid=1, codes=[qos]), bpub("t/a", qos=qos, mid=7, pl="z:%d" % n, retain=bool(n % 2)),
                            bpub("n/%d" % n, qos=qos, mid=8, pl="z:%d" % n), P("REGACK", mid=8 if qos else 65535, tid=3, rc=0)]
            out.append(sc("size-%d-q%d" % (n, qos), ev, tail=15))
    # names known through different routes, repeated (map iteration order)
    for k in range(10 if tier == "quick" else 60):
        ev = CONNECT + [reg(1, "t/a"), sub(2, "t/b"), M("SUBACK", mid=2, codes=[0]), sub(3, "t/a"), M("SUBACK", mid=3, codes=[1]),
                        bpub("t/a"), bpub("t/b", qos=1, mid=4), bpub("pre/x"), bpub("pre/y"), bpub("pre/z"), bpub("own/z"), bpub("ab"), bpub("x:c3a9", qos=1, mid=5)]
        out.append(sc("routes-%d" % k, ev, tidmax=9, tail=15))
    return out


def gen_C01(tier, rnd):
    out = []
    sizes = [0, 1, 250, 251, 252, 7168] if tier == "quick" else [s for s in SIZES if s <= 7168]
    for n in sizes:
        ev = CONNECT + [reg(1, "t/a")]
        for qos in (0, 1, 2, 3):
            ev.append(P("PUBLISH", qos=qos, tit=0, tid=1, mid=10 + qos, data="z:%d" % n, retain=bool(qos % 2), dup=qos == 2))
            ev.append(P("PUBLISH", qos=qos, tit=2, sname="xy", mid=20 + qos, data="z:%d" % n))
            ev.append(P("PUBLISH", qos=qos, tit=1, tid=5, mid=30 + qos, data="z:%d" % n, dup=True))
        out.append(sc("size-%d" % n, ev, tail=15))
    # short topic names with bytes >= 0x80, NUL, wildcard-looking bytes ("x:<hex>" = raw bytes)
    for sn in ("x:c3a9", "x:ff00", "x:00ff", "x:8080", "zz", "a/", "/b"):
        ev = CONNECT + [P("PUBLISH", qos=q, tit=2, sname=sn, mid=40 + q, data="s:short") for q in (0, 1, 3)]
        ev += [P("SUBSCRIBE", qos=1, tit=2, sname=sn, mid=50), M("SUBACK", mid=50, codes=[1]),
               P("UNSUBSCRIBE", tit=2, sname=sn, mid=51), M("UNSUBACK", mid=51)]
        out.append(sc("shortname-%s" % sn.replace(":", "").replace("/", "_"), ev, tail=5))
    # predefined IDs are resolved for the client ID of the session: publishes before CONNECT (QoS -1, client ID
    # still unknown), then the same and the client-specific IDs after CONNECT, and after a re-CONNECT
    for pre in ([2], [6], [2, 6], []):
        ev = [P("PUBLISH", qos=3, tit=1, tid=i, mid=0, data="s:early%d" % i) for i in pre]
        ev += CONNECT + [P("PUBLISH", qos=q, tit=1, tid=i, mid=60 + i, data="s:late%d" % i) for i in (5, 6, 2) for q in (0, 1, 3)]
        ev += CONNECT + [P("PUBLISH", qos=0, tit=1, tid=i, mid=0, data="s:again%d" % i) for i in (6, 5)]
        out.append(sc("predef-client-%s" % "-".join(map(str, pre)), ev, tail=15))
    # full-range IDs
    for k in range(6 if tier == "quick" else 40):
        mid = rnd.choice([1, 255, 256, 0xFFFE, 0xFFFF, rnd.randrange(1, 65536)])
        tid = rnd.choice([1, 2, 3, 255, 256, 0xFFFE, 0xFFFF, 0])
        ev = CONNECT + [reg(mid, "t/a"), P("PUBLISH", qos=rnd.choice([1, 2]), tit=0, tid=1, mid=mid, data="s:a"),
                        P("PUBLISH", qos=1, tit=rnd.choice([0, 1]), tid=tid, mid=mid, data="s:b")]
        out.append(sc("ids-%d" % k, ev, tail=15))
    return out


def gen_C03(tier, rnd):
    # SUBSCRIBE / UNSUBSCRIBE with unusual short names
    return [s for s in gen_C01("quick", rnd) if s["id"].startswith("shortname")]


def pingreq():
    return P("PINGREQ", cid="c1")


def gen_C06(tier, rnd):
    """Timed histories around a message ID that is used again while its first exchange is still in the store
    (retry delay 10 ticks: a client-initiated exchange started at t is dropped at t + 10): the later exchange must get its
    acknowledgement although the earlier one - superseded by it - reaches its deadline first."""
    out = []
    pub1 = lambda pl: P("PUBLISH", qos=1, tit=2, sname="ab", mid=1, data=pl)
    starts = {
        "sub": (sub(1, "t/a"), M("SUBACK", mid=1, codes=[1])),
        "sub2": (sub(1, "t/b"), M("SUBACK", mid=1, codes=[1])),
        "pub": (pub1("s:one"), M("PUBACK", mid=1)),
        "pub2": (pub1("s:two"), M("PUBACK", mid=1)),
    }
    pairs = [("sub", "sub2"), ("sub", "pub"), ("pub", "sub"), ("pub", "pub2"), ("sub", "sub")]
    D = 10      # the gateway keeps a client-initiated exchange for one retry delay
    for a, b in pairs:
        for d1 in ((3, 7) if tier == "quick" else range(1, D)):
            # the second exchange starts d1 ticks after the first; its acknowledgement arrives after the first
            # one's deadline (D) and before its own (d1 + D)
            for d2 in sorted({D - d1 + 1, D - 1}):
                if not (D < d1 + d2 < d1 + D):
                    continue
                ev = CONNECT + [starts[a][0], adv(d1), starts[b][0], adv(d2), starts[b][1], adv(3)]
                out.append(sc("supersede-%s-%s-%d-%d" % (a, b, d1, d2), ev, tail=30))
        # the broker answers the first exchange only after the second one has replaced it
        ev = CONNECT + [starts[a][0], adv(2), starts[b][0], adv(1), starts[b][1], adv(25)]
        out.append(sc("supersede-early-%s-%s" % (a, b), ev, tail=30))
    # a broker-initiated exchange with the same message ID opens and closes in between
    for a in ("sub", "pub"):
        ev = CONNECT + [P("SUBSCRIBE", qos=1, tit=2, sname="ab", mid=9), M("SUBACK", mid=9, codes=[1]), starts[a][0], adv(4),
                        bpub("ab", qos=1, mid=1, short=True), P("PUBACK", mid=1, tid=24930, rc=0), adv(4), starts[a][1], adv(3)]
        out.append(sc("coincide-%s" % a, ev, tail=30))
    return out


def gen_C12(tier, rnd, brokermodel=False):
    """timed histories in which the client meets its obligations (KA = 2 s = 20 ticks)"""
    out = []
    ka = 20
    for gap in (10, 19, 20):
        ev = list(CONNECT)
        for _ in range(4):
            ev += [adv(gap), pingreq(), M("PINGRESP")]
        out.append(sc("active-gap%d" % gap, ev, tail=5))
    for dur in (1, 2, 3, 5, 7):
        for late in (0, 1):             # wake at the last permitted tick or one tick earlier
            for before in (0, 10, 20):  # how long after its last packet the client falls asleep
                ev = list(CONNECT) + [adv(before), P("DISCONNECT", dur=dur)]
                for _ in range(4):
                    ev += [adv(10 * dur - late), pingreq()]
                ev += [adv(10 * dur - late), P("CONNECT", dur=2, cid="c1"), adv(ka), pingreq(), M("PINGRESP")]
                out.append(sc("sleep-d%d-l%d-b%d" % (dur, late, before), ev, tail=5))
    # sleep renewed while asleep, publishes during sleep
    ev = list(CONNECT) + [P("DISCONNECT", dur=3), adv(25), P("DISCONNECT", dur=1), adv(10), pingreq(), adv(9), pingreq(),
                          adv(10), P("DISCONNECT", dur=6), adv(55), pingreq(), adv(59), P("CONNECT", dur=2, cid="c1")]
    out.append(sc("renewed", ev, tail=5))
    # sleep renewed late in a long sleep, with the same or a shorter duration, then a wake-up at the last tick
    for d in (4, 6):
        for d2 in (d, d - 1, d + 2):
            for r in (10 * d - 10, 10 * d - 1, 10 * d // 2):
                ev = list(CONNECT) + [P("DISCONNECT", dur=d), adv(r), P("DISCONNECT", dur=d2), adv(10 * d2 - 1), pingreq(),
                                      adv(10 * d2 - 1), pingreq(), adv(5), P("CONNECT", dur=2, cid="c1")]
                out.append(sc("renew-d%d-d%d-r%d" % (d, d2, r), ev, tail=5))
    for s in out:
        s["brokermodel"] = brokermodel
    return out


def gen_C34(tier, rnd):
    """the client falls silent for ever at some point; a broker model enforces keep-alive"""
    out = []
    prefixes = {
        "nothing": [],
        "connect-only": [P("CONNECT", dur=2, cid="c1")],
        "will-req": [P("CONNECT", dur=2, cid="c1", will=True)],
        "active": list(CONNECT),
        "active-pinged": list(CONNECT) + [adv(15), pingreq(), M("PINGRESP")],
        "asleep-short": list(CONNECT) + [P("DISCONNECT", dur=1)],
        "asleep-long": list(CONNECT) + [P("DISCONNECT", dur=7)],
        "asleep-woken": list(CONNECT) + [P("DISCONNECT", dur=3), adv(20), pingreq()],
        "asleep-twice": list(CONNECT) + [P("DISCONNECT", dur=3), adv(20), P("DISCONNECT", dur=5), adv(10), pingreq()],
        "woken-connect": list(CONNECT) + [P("DISCONNECT", dur=3), adv(20), pingreq(), P("CONNECT", dur=2, cid="c1")],
        "pending-qos1": list(CONNECT) + [bpub("ab", qos=1, mid=3)],
        "pending-qos2": list(CONNECT) + [bpub("ab", qos=2, mid=3), P("PUBREC", mid=3)],
        "asleep-pending": list(CONNECT) + [bpub("ab", qos=1, mid=3), P("DISCONNECT", dur=4)],
    }
    for name, ev in prefixes.items():
        s = sc("silent-" + name, ev, tail=200)
        s["brokermodel"] = True
        out.append(s)
    out += gen_C12(tier, rnd, brokermodel=True)
    return out


def gen_C11(tier, rnd):
    out = []
    flows = {
        "q0": [bpub("ab"), bpub("t/a")],
        "q1": [bpub("ab", qos=1, mid=3)],
        "q2": [bpub("ab", qos=2, mid=4)],
        "new": [bpub("n/1"), bpub("n/2", qos=1, mid=5)],
        "acks": [M("PUBREC", mid=9), M("PUBCOMP", mid=9), M("UNSUBACK", mid=9), M("PINGRESP")],
    }
    for name, fl in flows.items():
        for cycles in (1, 2, 3):
            ev = list(CONNECT) + [reg(1, "t/a"), P("DISCONNECT", dur=3)]
            for c in range(cycles):
                ev += fl + [adv(12), pingreq()]
                # answer what was delivered
                ev += [P("PUBACK", mid=3, tid=24930, rc=0), P("PUBREC", mid=4), P("REGACK", mid=65535, tid=2, rc=0),
                       P("REGACK", mid=5, tid=3, rc=0)]
            ev += [P("CONNECT", dur=2, cid="c1"), bpub("ab")]
            out.append(sc("%s-%dcycles" % (name, cycles), ev, tidmax=9))
    # traffic before sleep with exchanges pending, retries during sleep
    ev = list(CONNECT) + [bpub("ab", qos=1, mid=3), P("DISCONNECT", dur=4), adv(10), adv(10), adv(15), pingreq(), bpub("ab", qos=1, mid=4),
                          adv(5), pingreq(), P("PUBACK", mid=4, tid=24930, rc=0)]
    out.append(sc("pending-before-sleep", ev))
    ev = list(CONNECT) + [P("DISCONNECT", dur=4), bpub("ab", qos=1, mid=3), adv(10), adv(10), adv(10), pingreq()]
    out.append(sc("retries-while-asleep", ev, retrycount=3))
    ev = list(CONNECT) + [P("DISCONNECT", dur=4), bpub("ab"), P("DISCONNECT", dur=2), bpub("t/x"), pingreq()]
    out.append(sc("renewed-sleep-keeps-buffer", ev))
    ev = list(CONNECT) + [P("DISCONNECT", dur=4), reg(1, "t/r"), sub(2, "t/s"), M("SUBACK", mid=2, codes=[0]), pingreq()]
    out.append(sc("client-requests-while-asleep", ev, tidmax=9))
    return out


def gen_C10(tier, rnd):
    out = []
    pre = {
        "connect": [P("CONNECT", dur=2, cid="c1")],
        "connect-will": [P("CONNECT", dur=2, cid="c1", will=True)],
        "will-topic": [P("CONNECT", dur=2, cid="c1", will=True), P("WILLTOPIC", topic="wt", qos=1)],
        "will-msg": [P("CONNECT", dur=2, cid="c1", will=True), P("WILLTOPIC", topic="wt", qos=1), P("WILLMSG", data="s:w")],
        "restarted": [P("CONNECT", dur=2, cid="c1", will=True), adv(30), P("CONNECT", dur=2, cid="c1")],
        "restarted-late": [P("CONNECT", dur=2, cid="c1"), adv(49), P("CONNECT", dur=2, cid="c1", will=True)],
    }
    for auth in (False, True):
        for name, ev in pre.items():
            e2 = list(ev)
            if auth:
                e2 = [e2[0], P("AUTH", method="PLAIN", user="u", **{"pass": "p"})] + e2[1:]
            out.append(sc("%s-auth%d" % (name, auth), e2, tail=60, auth=auth))
            if auth:
                out.append(sc("%s-noauthpkt" % name, list(ev), tail=60, auth=True))
    return out
