"""Targeted schedule generators for the gateway-session family: histories that the small TLC
alphabets do not reach (real topic-ID range, long timed histories, large payloads, map-order
nondeterminism repeats).  Every scenario is executed on the real code and judged by TLC."""

PREDEF = [{"c": "*", "id": 2, "n": "pre/x"}, {"c": "c1", "id": 5, "n": "pre/y"},
          {"c": "*", "id": 6, "n": "pre/z"}, {"c": "c1", "id": 6, "n": "own/z"}]


def cfg(**kw):
    c = dict(auth=False, hasuser=False, user="", haspass=False, **{"pass": ""}, retrydelay=10, retrycount=1,
             tidmin=1, tidmax=3, skiptids=0, predef=list(PREDEF))
    c.update(kw)
    return c


def P(t, **kw):
    d = dict(t=t)
    d.update(kw)
    return {"e": "cl", "p": d}


def M(t, **kw):
    d = dict(t=t, codes=[])
    d.update(kw)
    return {"e": "br", "m": d}


def adv(n):
    return {"e": "adv", "n": n}


CONNECT = [P("CONNECT", dur=2, cid="c1", clean=True), M("CONNACK", rc=0)]


def sc(id_, events, tail=70, **cfgkw):
    return {"id": id_, "cfg": cfg(**cfgkw), "seed": 1, "events": events, "tail": tail}


def for_property(prop, tier, rnd):
    f = globals().get("gen_" + prop)
    out = f(tier, rnd) if f else []
    for i, s in enumerate(out):
        s["id"] = "%s-g%d-%s" % (prop, i, s["id"])
        s["seed"] = rnd.randrange(1 << 30)
    return out
