"""Check family `transactions`: C18 (a finished transaction stays finished) and
C19 (retry and timeout budgets exact) for transactions/{transaction_base,
retry_transaction,timed_transaction}.go.

Pipeline (see docs/transactions.md)
 1. design check: tla/Transactions.tla (lock-level model of the intended design)
    - free mode : every interleaving, state form of C18          (C18 only)
    - forced mode: every forceable schedule, Prop_C18 / Prop_C19 = the monitor
      tla/TxMonitor.tla never trips on the model's own observations
 2. TLC prints the forced-mode behaviours as schedules (quick: one per
    transition of the state graph, thorough: every complete behaviour)
 3. harness/txdrv replays each schedule on the real types inside a synctest
    bubble (virtual clock, retry callback = scheduler gate) -> NDJSON
 4. tla/Trace_Transactions.tla judges the traces with the same TxMonitor
 5. C18 only: free-running instruments (race detector build, nil-timer window)
A TLC counterexample on the model alone is exit 2 (spec problem), never a
violation; violations come only from behaviour of the real code.
"""
import json, os, random, re, time
import vlib

FAMILY = "transactions"

ASSUMPTIONS = [
    "A-go: go1.26.8 testing/synctest virtual clock (timers fire at exactly their due instant, before the "
    "driver's next call; asynctimerchan=0)",
    "A-tlc: TLC 1.8.0 + CommunityModules Json",
    "A-atomic: Transactions.tla treats every access to the `timer` field as one atomic step; whether the "
    "real code honours that (no data race) is observed with a -race build of the free-running stress "
    "(auxiliary instrument, C18 only)",
    "A-gate: API calls are issued at quiescent points, inside the retry callback (= inside timeout()), or at "
    "the very instant of an expiry (racing step, outcome nondeterministic, repeated); windows inside "
    "TransactionBase.finish() are covered by the model only",
    "client/sleep_transaction.go (named by C18) is an unexported type of package client driven only through "
    "Client.Sleep(); it is left to the client family (ClientLib model), not covered here",
]

# ---------------------------------------------------------------- TLC configurations

def cfg_text(forced, emit, devs="{}", maxops=3, rcs=(0, 1, 2), rds=(1, 2), tos=(0, 1, 2), view=False,
             kinds=("base", "retry", "timed"), invariants=("TypeOK", "Prop_C18", "Prop_C19")):
    def st(xs):
        return "{" + ", ".join(str(x) for x in xs) + "}"
    s = "CONSTANTS\n  Kinds = {%s}\n" % ", ".join('"%s"' % k for k in kinds)
    s += "  RCs = %s\n  RDs = %s\n  TOs = %s\n  MaxOps = %d\n  CbMayFail = TRUE\n" % (st(rcs), st(rds), st(tos), maxops)
    s += "  Devs = %s\n  Forced = %s\n  Emit = \"%s\"\n" % (devs, "TRUE" if forced else "FALSE", emit)
    s += "INIT Init\nNEXT Next\n" + "".join("INVARIANT %s\n" % i for i in invariants)
    if view:
        s += "VIEW View\n"
    return s


TIERS = {
    "quick": dict(
        free=dict(maxops=2, rcs=(0, 1), rds=(1, 2), tos=(0, 1)),
        # one schedule per transition (VIEW hides history/monitor); Prop_* checked on every visited state
        gen=[dict(emit="all", view=True, maxops=3, rcs=(0, 1), rds=(1, 2), tos=(0, 1)),
             dict(emit="all", view=True, maxops=2, rcs=(2,), rds=(1, 2), tos=(0,), kinds=("retry",))],
        max_plain=4000, max_racing=200, racing_reps=6, judge_jvms=4, stress_ms=2500, devs=False, timeout=240),
    "thorough": dict(
        free=dict(maxops=3, rcs=(0, 1, 2), rds=(1, 2), tos=(0, 1, 2)),
        # the full forced state space (every complete behaviour printed at the horizon) + transition cover
        # for RetryCount up to 3
        gen=[dict(emit="end", view=False, maxops=3, rcs=(0, 1, 2), rds=(1, 2, 3), tos=(0, 1, 3)),
             dict(emit="all", view=True, maxops=2, rcs=(3,), rds=(1, 2, 3), tos=(0,), kinds=("retry",))],
        # (all plain behaviours up to 70000, beyond that a VERIF_SEED sample - the evidence says which)
        max_plain=70000, max_racing=6000, racing_reps=6, judge_jvms=12, stress_ms=20000, devs=True, timeout=1000),
}

DEV_CFGS = {  # deviation -> (cfg constants, property that must be violated on the model)
    "F12": (dict(devs='{"F12"}', maxops=2, rcs=(0, 1), rds=(1,), tos=(0, 1)), "Prop_C18"),
    "F13": (dict(devs='{"F13"}', maxops=2, rcs=(0, 1), rds=(1,), tos=(0, 1)), "Prop_C18"),
    "F13nil": (dict(devs='{"F13nil"}', maxops=1, rcs=(0,), rds=(1,), tos=(0, 1)), "Prop_C18"),
    "F13stale": (dict(devs='{"F13stale"}', maxops=2, rcs=(0, 1), rds=(1,), tos=(0,), kinds=("retry",)), "Prop_C19"),
}


def run_tlc(name, text, timeout, workers="auto"):
    t0 = time.time()
    res = vlib.tlc("Transactions", name, files={name: text}, timeout=timeout, workers=workers,
                   javaopts="-Xmx6g")
    res["wall"] = time.time() - t0
    return res


def model_stage(prop, tier):
    """Design checks + schedule generation.  Returns (schedules, stats)."""
    T = TIERS[tier]
    stats = dict(states=0, transitions=0, runs=[])

    def account(label, res):
        stats["states"] += res["distinct"]
        stats["transitions"] += res["generated"]
        stats["runs"].append(dict(run=label, distinct=res["distinct"], generated=res["generated"],
                                  depth=res["depth"], wall_s=round(res["wall"], 1)))

    def must_pass(label, res):
        if res["rc"] == 124:
            raise vlib.Inconclusive("TLC timeout in %s" % label)
        if not vlib.tlc_ok(res):
            m = re.search(r"Invariant (\w+) is violated", res["out"])
            raise vlib.Inconclusive("TLC found a problem in the *model* (%s, %s): spec bug or undeclared deviation, "
                                    "not a verdict about the code\n%s" % (label, m.group(1) if m else "error",
                                                                        res["out"][-1500:]))

    jobs = []
    if prop == "C18":
        jobs.append(("free", cfg_text(False, "none", **T["free"]),
                     "MC_tx_free.cfg"))
    for n, g in enumerate(T["gen"]):
        jobs.append(("gen%d" % n, cfg_text(True, **g), "MC_tx_gen%d.cfg" % n))
    if T["devs"]:
        # the explicit quiescence predicate of the spec agrees with ENABLED (both modes)
        for forced in (False, True):
            jobs.append(("qdef:%s" % forced, cfg_text(forced, "none", maxops=2, rcs=(0, 1), rds=(1,), tos=(0, 1),
                                                      invariants=("QuiescentDef",)), "MC_tx_qdef_%s.cfg" % forced))
        for d, (kw, _) in DEV_CFGS.items():
            jobs.append(("dev:" + d, cfg_text(True, "none", invariants=(DEV_CFGS[d][1],), **kw),
                         "MC_tx_dev_%s.cfg" % d))
    nw = max(2, vlib.NCPU // max(1, min(len(jobs), 4)))
    results = dict(zip([j[0] for j in jobs],
                       vlib.pmap(lambda j: run_tlc(j[2], j[1], T["timeout"], workers=nw), jobs, n=4)))

    for label, res in results.items():
        if label.startswith("dev:"):
            d = label[4:]
            want = DEV_CFGS[d][1]
            m = re.search(r"Invariant (\w+) is violated", res["out"])
            if not m or m.group(1) != want:
                raise vlib.Inconclusive("non-vacuity: model with deviation %s should violate %s, TLC said: %s"
                                        % (d, want, m.group(1) if m else res["out"][-600:]))
            stats["runs"].append(dict(run=label, violated=want, wall_s=round(res["wall"], 1)))
        else:
            must_pass(label, res)
            account(label, res)

    scheds, seen = [], set()
    for label in sorted(l for l in results if l.startswith("gen")):
        for line in vlib.tlc_printed(results[label], "SCHED:"):
            if line in seen:
                continue
            seen.add(line)
            scheds.append(json.loads(line))
    if not scheds:
        raise vlib.Inconclusive("TLC emitted no schedules")
    return scheds, stats


def is_racing(s):
    return any(e["e"] in ("tS", "tF", "tP") for e in s["ev"])


def tail_of(s):
    if s["kind"] == "retry":
        return (s["rc"] + 2) * s["rd"] + 2
    if s["kind"] == "timed":
        return s["to"] + 2
    return 1


def build_schedules(raw, tier):
    """dedupe, sample (seeded) if over budget, repeat racing schedules, add ids + tails."""
    T = TIERS[tier]
    rng = random.Random(vlib.seed())
    plain = [s for s in raw if not is_racing(s)]
    racing = [s for s in raw if is_racing(s)]
    total = (len(plain), len(racing))
    if len(plain) > T["max_plain"]:
        plain = rng.sample(plain, T["max_plain"])
    if len(racing) > T["max_racing"]:
        # keep every schedule that *ends* with the racing call (one per racing transition), sample the rest
        last = [s for s in racing if s["ev"][-1]["e"] in ("tS", "tF", "tP")]
        rest = [s for s in racing if s["ev"][-1]["e"] not in ("tS", "tF", "tP")]
        if len(last) > T["max_racing"]:
            last = rng.sample(last, T["max_racing"])
        racing = last + rng.sample(rest, max(0, min(len(rest), T["max_racing"] - len(last))))
    out = []
    for n, s in enumerate(plain):
        out.append(dict(s, id="s%06d" % n, tail=tail_of(s)))
    for n, s in enumerate(racing):
        for r in range(T["racing_reps"]):
            out.append(dict(s, id="r%06d.%d" % (n, r), tail=tail_of(s)))
    return out, dict(plain_total=total[0], racing_total=total[1], plain_run=len(plain), racing_run=len(racing),
                     racing_reps=T["racing_reps"])


# ---------------------------------------------------------------- execution on the real code

PANIC_RE = re.compile(r"panic: |fatal error: |SIGSEGV")
TR_RE = re.compile(r'\{"tr":"([^"]+)"')


def classify_crash(out):
    """Signature of a process death with a Go panic trace (an observation about the code under test:
    the harness itself never panics on a healthy tree), or None (death without a panic trace)."""
    m = re.search(r"^(?:panic|fatal error): (.*)$", out, re.M)
    if not m or not re.search(r"^goroutine \d+ \[", out, re.M):
        return None
    msg = re.sub(r"^runtime error: ", "", m.group(1).strip())
    msg = re.sub(r"\s*\[recovered\].*$", "", msg)
    if "nil pointer dereference" in msg:
        kind = "nil-pointer-dereference"
    else:
        kind = "-".join(re.sub(r"[^A-Za-z0-9 ]", " ", msg).lower().split()[:6]) or "panic"
    tail = out[m.start():]
    fr = re.search(r"bisquitt/transactions\.(\(\*\w+\)\.\w+|\w+(?:\.func\d+)?)", tail)
    frame = re.sub(r"[^A-Za-z0-9.]", "", fr.group(1)) if fr else "no-transactions-frame"
    if kind == "nil-pointer-dereference" and frame == "TimedTransaction.stopTimer":
        return "C18/panic/timed-nil-timer"       # (signature documented for finding F13/nil timer)
    return "C18/panic/%s/%s" % (kind, frame)


def execute(binary, scheds, nchunks):
    """Run the schedules in parallel driver processes. Returns (NDJSON text per chunk, crashes)."""
    sc = vlib.scratch()
    chunks = vlib.chunks(scheds, nchunks)

    def one(ix):
        i, chunk = ix
        sp, tp, pp = [os.path.join(sc, "tx-%s-%d" % (k, i)) for k in ("sched", "trace", "prog")]
        todo, lines, crashes = list(chunk), [], []       # lines: raw NDJSON lines (kept as text: millions in thorough)
        for attempt in range(300):       # the driver is restarted after every crashing schedule
            if not todo:
                break
            json.dump(todo, open(sp, "w"))
            for f in (tp, pp):
                if os.path.exists(f):
                    os.remove(f)
            rc, out = vlib.run_driver(binary, {"VERIF_SCHED": sp, "VERIF_TRACE": tp, "VERIF_PROGRESS": pp},
                                      timeout=600)
            got = open(tp).read().splitlines(True) if os.path.exists(tp) else []
            prog = open(pp).read() if os.path.exists(pp) else ""
            if rc == 0 and prog == "DONE":
                lines += got
                todo = []
                break
            # the driver died while executing schedule `prog`
            sig = classify_crash(out)
            ids = [s["id"] for s in todo]
            if sig is None or prog not in ids:
                raise vlib.Inconclusive("txdrv died without a panic trace (rc=%d, at %r):\n%s" % (rc, prog, out[-3000:]))
            k = ids.index(prog)
            lines += [l for l in got if not l.startswith('{"tr":"%s"' % prog)]
            crashes.append(dict(sig=sig, sched=todo[k], out=out[-2500:]))
            todo = todo[k + 1:]
        else:
            if todo:
                print("note: chunk %d: %d schedules not executed after %d driver crashes" % (i, len(todo), len(crashes)))
        return "".join(lines), crashes

    res = vlib.pmap(one, list(enumerate(chunks)), n=nchunks)
    return [r[0] for r in res], [c for r in res for c in r[1]]


def judge(chunks_lines):
    """One TLC run (Trace_Transactions) per NDJSON text. Returns (bad records, stats, tlc states, tlc transitions)."""
    def one(text):
        if not text:
            return [], dict(traces=0, t18=0, t19=0, chk18=0, chk19=0, bad18=0, bad19=0), 0, 0
        nlines = text.count("\n")
        res = vlib.tlc("Trace_Transactions", "Trace_Transactions.cfg", files={"tx_trace.ndjson": text},
                       workers=1, timeout=900, javaopts="-Xmx3g")
        if not vlib.tlc_ok(res):
            raise vlib.Inconclusive("trace validation did not complete:\n" + res["out"][-2000:])
        consumed = vlib.tlc_printed(res, "CONSUMED:")
        if not consumed or int(consumed[-1]) != nlines:
            raise vlib.Inconclusive("trace validation consumed %s of %d lines" % (consumed, nlines))
        bad = json.loads(vlib.tlc_printed(res, "BAD:")[-1])
        st = json.loads(vlib.tlc_printed(res, "STATS:")[-1])
        return bad, st, res["distinct"], res["generated"]

    res = vlib.pmap(one, chunks_lines, n=len(chunks_lines))
    bad = [b for r in res for b in r[0]]
    st = {k: sum(r[1][k] for r in res) for k in ("traces", "t18", "t19", "chk18", "chk19", "bad18", "bad19")}
    return bad, st, sum(r[2] for r in res), sum(r[3] for r in res)


def plant_corrupted(groups):
    """Prepend corrupted copies of accepted-looking traces to the first group; returns their ids."""
    by_tr = {}
    for raw in groups[0].splitlines()[:30000]:
        l = json.loads(raw)
        by_tr.setdefault(l["tr"], []).append(l)
    by_tr = {k: v for k, v in by_tr.items() if v[0]["ev"] == "new" and v[-1]["ev"] == "end"}
    planted = set()
    # C18: finally count bumped on the lines after Done closed
    for tr, ls in by_tr.items():
        if ls[-1]["done"] and ls[-1]["fin"] == 1 and ls[-1]["ev"] == "end" and len(ls) > 3:
            cp = [dict(l, tr="selftest-c18") for l in ls]
            k = next(i for i, l in enumerate(cp) if l["done"])
            for l in cp[min(k + 1, len(cp) - 2):]:
                l["fin"] = 2
            # first: the judge keeps at most MaxBad violations per run
            groups[0] = "".join(json.dumps(l) + "\n" for l in cp) + groups[0]
            planted.add("selftest-c18")
            break
    # C19: the first retry callback reported one tick late
    for tr, ls in by_tr.items():
        if ls[0]["kind"] == "retry" and ls[-1]["ev"] == "end" and not any(l["ev"] in ("C", "tS", "tF", "tP") for l in ls):
            k = next((i for i, l in enumerate(ls) if l["cb"] == 1 and l["ev"] == "tick"), None)
            if k is None or k + 2 >= len(ls) or ls[k + 2]["ev"] != "tick" or ls[k + 1]["ev"] != "rel":
                continue
            cp = [dict(l, tr="selftest-c19") for l in ls]
            cp[k]["cb"], cp[k]["parked"] = 0, False           # ... not at its tick
            del cp[k + 1]                                       # (its release line)
            cp[k + 1]["cb"] = max(cp[k + 1]["cb"], 1)           # ... but one tick later
            # first: the judge keeps at most MaxBad violations per run
            groups[0] = "".join(json.dumps(l) + "\n" for l in cp) + groups[0]
            planted.add("selftest-c19")
            break
    return planted


# ---------------------------------------------------------------- free-running instruments (C18)

def race_sigs(out):
    """stable signatures of race detector reports that involve package transactions."""
    sigs = {}
    for blk in out.split("WARNING: DATA RACE")[1:]:
        blk = blk.split("==================")[0]
        fr = re.findall(r"bisquitt/transactions\.(\S+?)\(\)\n\s+\S+/transactions/(\w+)\.go:(\d+)", blk)
        if not fr:
            continue
        funcs = {f[0] for f in fr}
        files = {f[1] for f in fr}
        if files == {"retry_transaction"} and funcs & {"(*RetryTransaction).stopTimer", "(*RetryTransaction).restartTimer"}:
            sig = "C18/race/retry-timer-field"
        elif files == {"timed_transaction"}:
            sig = "C18/race/timed-timer-field"
        else:
            tops = sorted({re.sub(r"[^A-Za-z.]", "", f[0]) for f in fr[:1]} | {re.sub(r"[^A-Za-z.]", "", fr[-1][0])})
            sig = "C18/race/" + "+".join(tops)
        sigs.setdefault(sig, blk.strip()[:1800])
    return sigs


def instruments(tier):
    """Returns (violations, info)."""
    T = TIERS[tier]
    viol, info = [], {}
    race_bin = vlib.build_driver("txdrv", race=True)
    env = {"VERIF_STRESS_MS": str(T["stress_ms"]), "VERIF_SEED": str(vlib.seed())}
    for test in ("TestStress", "TestNilTimer"):
        rc, out = vlib.run_driver(race_bin, env, run=test, timeout=T["stress_ms"] / 1000 * 4 + 120, args=["-test.v"])
        m = re.search(r"(?:STRESS|NILTIMER)-ITERATIONS (\d+)", out)
        info[test] = dict(rc=rc, iterations=int(m.group(1)) if m else None, race_reports=out.count("WARNING: DATA RACE"))
        for sig, blk in race_sigs(out).items():
            viol.append(dict(sig=sig, what="data race reported by the Go race detector (%s)" % test,
                             replay=dict(instrument=test, env=env, report=blk)))
        crash = classify_crash(out)
        if crash:
            viol.append(dict(sig=crash, what="the process died in %s" % test,
                             replay=dict(instrument=test, env=env, output=out[-2500:])))
        elif rc != 0 and "WARNING: DATA RACE" not in out:
            raise vlib.Inconclusive("%s failed for a harness reason (rc=%d):\n%s" % (test, rc, out[-2000:]))
    return viol, info


# ---------------------------------------------------------------- entry point

def explain(sig):
    table = [
        ("C18/finally-ran-twice", "the finally callback ran a second time (the transaction completed twice)"),
        ("C18/err-changed-after-done", "Err() changed after Done() was closed"),
        ("C18/retry-callback-after-done", "the retry callback was invoked after Done() was closed"),
        ("C18/done-without-finally", "Done() closed although the finally callback never ran"),
        ("C18/panic", "panic in the code under test (the process died)"),
        ("C18/race", "data race on a field the design treats as lock protected"),
        ("C19/retry-callback", "retry callback not at exactly k*RetryDelay after the last progress"),
        ("C19/no-more-retries", "ErrNoMoreRetries not at exactly (RetryCount+1)*RetryDelay after the last progress"),
        ("C19/timeout", "ErrTimeout not at exactly the timeout"),
    ]
    for k, v in table:
        if sig.startswith(k):
            return v
    return ""


def run(prop, tier, replay=None):
    t0 = time.time()
    if prop not in ("C18", "C19"):
        raise vlib.Inconclusive("family transactions serves C18, C19")
    stage = {}

    def lap(name, t):
        stage[name] = round(time.time() - t, 1)
        return time.time()
    t1 = time.time()
    binary = vlib.build_driver("txdrv")
    t1 = lap("build", t1)
    inst = None
    if prop == "C18" and not replay:
        # the free-running instruments run beside the model/replay pipeline
        from concurrent.futures import ThreadPoolExecutor
        pool = ThreadPoolExecutor(max_workers=1)
        t_inst = time.time()

        def timed_instruments():
            r = instruments(tier)
            stage["instruments(parallel)"] = round(time.time() - t_inst, 1)
            return r
        inst = pool.submit(timed_instruments)
    mstats = dict(states=0, transitions=0, runs=[])
    sel = {}
    if replay:
        payload = json.load(open(replay))
        if "sched" not in payload:
            raise vlib.Inconclusive("this replay file records a free-running instrument (%s); re-run the check"
                                    % payload.get("instrument"))
        reps = TIERS["thorough"]["racing_reps"] if is_racing(payload["sched"]) else 1
        scheds = [dict(payload["sched"], id="replay.%d" % r) for r in range(reps)]
    else:
        raw, mstats = model_stage(prop, tier)
        scheds, sel = build_schedules(raw, tier)
    t1 = lap("tlc_model", t1)
    by_id = {s["id"]: s for s in scheds}

    nchunks = max(1, min(vlib.NCPU, len(scheds) // 200 + 1))
    chunks_lines, crashes = execute(binary, scheds, nchunks)
    t1 = lap("replay", t1)
    # few, large TLC runs for the judging (JVM start dominates small ones)
    nj = max(1, min(TIERS[tier]["judge_jvms"], vlib.NCPU, len(chunks_lines)))
    groups = ["".join(chunks_lines[k::nj]) for k in range(nj)]
    nlines = sum(c.count("\n") for c in chunks_lines)
    # binding self-test: a recorded trace with one corrupted field must be rejected by the trace spec
    planted = plant_corrupted(groups)
    bad, tstats, tstates, ttrans = judge(groups)
    caught = {b["tr"] for b in bad if b["tr"].startswith("selftest-")}
    if planted - caught:
        raise vlib.Inconclusive("binding self-test: corrupted trace(s) %s were accepted by Trace_Transactions"
                                % sorted(planted - caught))
    bad = [b for b in bad if not b["tr"].startswith("selftest-")]
    del groups
    tstats["traces"] -= len(planted)
    t1 = lap("tlc_traces", t1)

    def traces_of(ids):
        """recorded lines of the given schedules (parsed on demand)."""
        want, got = set(ids), {}
        for text in chunks_lines:
            for raw in text.splitlines():
                m = TR_RE.match(raw)
                if m and m.group(1) in want:
                    got.setdefault(m.group(1), []).append(json.loads(raw))
        return got

    violations = []
    for b in bad:
        if b["prop"] != prop:
            continue
        violations.append(dict(sig=b["sig"], what="%s [schedule %s, line %d, event %s at tick %d]"
                                                  % (explain(b["sig"]), b["tr"], b["line"], b["ev"], b["now"]),
                               replay=dict(sched=by_id[b["tr"]], failing_line=b["line"], signature=b["sig"])))
    info = {}
    if prop == "C18":
        for c in crashes:
            violations.append(dict(sig=c["sig"], what="the driver process died while executing schedule %s"
                                                      % c["sched"]["id"], replay=dict(sched=c["sched"], output=c["out"])))
        if inst is not None:
            iv, info = inst.result()
            violations += iv
            t1 = lap("instruments_wait", t1)
    # shortest schedule first for every signature (stable, minimal replay files)
    violations.sort(key=lambda v: (v["sig"], len(json.dumps(v["replay"].get("sched", {}).get("ev", []))),
                                   json.dumps(v["replay"].get("sched", {}), sort_keys=True)))
    # attach the recorded trace to the representative (first) violation of every signature
    first = {}
    for v in violations:
        first.setdefault(v["sig"], v)
    rep_ids = [v["replay"]["sched"]["id"] for v in first.values() if "failing_line" in v["replay"]]
    sample_ids = [s["id"] for s in scheds[:1]] + [s["id"] for s in scheds if is_racing(s)][:1] + rep_ids[:1]
    lines_by_tr = traces_of(rep_ids + sample_ids)
    for v in first.values():
        if "failing_line" in v["replay"]:
            v["replay"]["trace"] = lines_by_tr.get(v["replay"]["sched"]["id"], [])
    rc, n_new, n_known = vlib.verdict(prop, violations)

    ntr = tstats["traces"]
    nontrivial = tstats["t18"] if prop == "C18" else tstats["t19"]
    samples = [dict(schedule=by_id[i], trace=[{k: l[k] for k in ("ev", "cberr", "now", "done", "err", "fin", "cb", "cbad", "parked", "pret")}
                                             for l in lines_by_tr.get(i, [])]) for i in dict.fromkeys(sample_ids)]
    cov = dict(
        states=max(1, mstats["states"] + tstates), transitions=max(1, mstats["transitions"] + ttrans),
        model_states=mstats["states"], model_transitions=mstats["transitions"], tlc_runs=mstats["runs"],
        traces_validated_against_impl=ntr, trace_lines_judged=nlines,
        evaluations=ntr, distinct_nontrivial=nontrivial,
        rule="schedules = event sequences (S, F, P, C, tick, rel[err], tS/tF/tP) printed by TLC from the forced-mode "
             "state space of Transactions.tla (%s), each replayed on the real types under the virtual clock with a "
             "tail of idle ticks; racing schedules repeated %s times; non-trivial for C18 = the trace has at least one "
             "observation after Done closed, for C19 = at least one budget/timeout expectation was evaluated "
             "(counted by Trace_Transactions.tla)"
             % ("one per transition, VIEW without history" if tier == "quick" and not replay else
                "every complete behaviour up to the horizon + one per transition for RetryCount 0..3",
                sel.get("racing_reps", "-")),
        exhaustive=bool(not replay and sel and sel["plain_run"] == sel["plain_total"]
                        and sel["racing_run"] == sel["racing_total"]),
        stage_wall_s=stage, selection=sel, post_done_observations=tstats["chk18"], budget_expectations=tstats["chk19"],
        violating_traces=len({v["replay"]["sched"]["id"] for v in violations if "sched" in v["replay"]}),
        distinct_signatures=sorted({v["sig"] for v in violations}), instruments=info, samples=samples or [dict(none=True)])
    vlib.write_evidence(prop, tier, "model_checking", cov, time.time() - t0, violations=n_new, assumptions=ASSUMPTIONS)
    print("%s %s: model %d states / %d transitions; %d schedules replayed, %d traces (%d lines) judged by TLC, "
          "%d non-trivial for %s; %d violating observations (%d new / %d known signatures)%s"
          % (prop, tier, mstats["states"], mstats["transitions"], len(scheds), ntr, cov["trace_lines_judged"],
             nontrivial, prop, len(violations), n_new, n_known,
             "; instruments: %s" % json.dumps(info) if info else ""))
    print("  stages (s): %s" % json.dumps(stage))
    if not replay and prop == "C19" and tstats["chk19"] == 0:
        raise vlib.Inconclusive("no C19 expectation was evaluated (vacuous run)")
    return rc
