"""Gateway-session family: GatewaySession.tla / GatewayChecks.tla / MC_GatewaySession.tla /
Trace_GatewaySession.tla + harness/gwdrv.

Per property:
  1. TLC model-checks the reference model with the property's event alphabet (design check:
     GatewayChecks applied to the model's own outputs must be empty) and emits one schedule per
     transition of the state graph;
  2. hand-written scenario generators add the histories TLC's small alphabets do not reach
     (real ID range, long timed histories, large payloads ...), thorough adds TLC -simulate walks;
  3. harness/gwdrv executes every schedule on the real handler1 under the virtual clock;
  4. TLC (Trace_GatewaySession) judges the recorded traces with the property's Check_Cnn.
"""
import json, os, random, time
import vlib
import gw_scenarios

ALL = ["C01", "C02", "C03", "C04", "C06", "C07", "C08", "C09", "C10", "C11", "C12", "C13", "C14", "C23",
       "C24", "C34"]

# property -> list of MC configurations (family, groups, msgids, qoss, maxevents quick/thorough, auth, creds)
CONNECT = dict(family="connect", groups=["connect", "auth", "will", "sleep", "term", "other", "pub", "reg", "time"],
               msgids=[1], qoss=[0, 3], depth=(4, 5), auth=[True, False], creds=[True, False])
# the properties about the connect exchange itself additionally get transition-pair coverage around it
CONNECT2 = dict(CONNECT, pairs=True)
DATA_PUB = dict(family="data", groups=["reg", "sub", "pub", "pubrel", "back", "time"], msgids=[1], qoss=[0, 1, 2, 3],
                depth=(3, 4), auth=[False], creds=[False])
DATA_BPUB = dict(family="data", groups=["reg", "sub", "bpub", "cack", "back", "time"], msgids=[1], qoss=[0, 1, 2],
                 depth=(3, 4), auth=[False], creds=[False])
DATA_CTRL = dict(family="data", groups=["sub", "unsub", "pubrel", "ping", "back", "term"], msgids=[1, 2], qoss=[0],
                 depth=(3, 4), auth=[False], creds=[False])
DATA_IDS = dict(family="data", groups=["reg", "sub", "bpub", "cack", "back"], msgids=[1], qoss=[0, 1],
                depth=(4, 5), auth=[False], creds=[False])
DATA_MIX = dict(family="data", groups=["sub", "pub", "bpub", "cack", "back", "time"], msgids=[1], qoss=[1, 2],
                depth=(3, 4), auth=[False], creds=[False])
SLEEP = dict(family="data", groups=["sleep", "connect", "bpub", "cack", "back", "time", "longtime", "term"], msgids=[1],
             qoss=[0, 1], depth=(4, 5), auth=[False], creds=[False])
TERM = dict(family="data", groups=["term", "sleep", "bpub", "pub", "time", "connect"], msgids=[1], qoss=[1],
            depth=(3, 4), auth=[False], creds=[False])

DATA_PUBX = dict(family="data", groups=["reg", "bpub", "cack", "pub"], msgids=[1], qoss=[0, 1], depth=(3, 4),
                 auth=[False], creds=[False])

PLAN = {
    "C01": [DATA_PUB, DATA_PUBX], "C02": [DATA_BPUB], "C03": [DATA_CTRL, DATA_PUB], "C04": [DATA_IDS], "C06": [DATA_MIX],
    "C07": [CONNECT2], "C08": [CONNECT2], "C09": [CONNECT2], "C10": [CONNECT2], "C11": [SLEEP], "C12": [SLEEP],
    "C13": [TERM, CONNECT], "C14": [TERM, CONNECT], "C23": [CONNECT, DATA_BPUB, SLEEP], "C24": [CONNECT, DATA_PUB, DATA_CTRL],
    "C34": [SLEEP, CONNECT],
}
CLIENT_HALF = ("C06", "C23")     # properties that also speak about the client library
REPLAY_MAX = int(os.environ.get("VERIF_REPLAY_MAX", "80000"))   # thorough: most transitions of one configuration replayed
QUICK_SAMPLE = int(os.environ.get("VERIF_QUICK_SAMPLE", "2500"))     # schedules per MC configuration executed in the quick tier
SHAPE_CAP = int(os.environ.get("VERIF_SHAPE_CAP", "9000"))           # ... raised to one per schedule shape, up to this many


def tla_set(xs):
    def one(x):
        if isinstance(x, bool):
            return "TRUE" if x else "FALSE"
        if isinstance(x, str):
            return '"%s"' % x
        return str(x)
    return "{" + ", ".join(one(x) for x in xs) + "}"


def mc_cfg(c, depth, emit, fullonly=False):
    return "\n".join([
        "SPECIFICATION Spec", "CONSTANTS",
        '  Family = "%s"' % c["family"], "  Groups = " + tla_set(c["groups"]), "  MaxEvents = %d" % depth,
        "  Emit = %s" % ("TRUE" if emit else "FALSE"), "  EmitFullOnly = %s" % ("TRUE" if fullonly else "FALSE"),
        "  Emit2 = %s" % ("TRUE" if (emit and c.get("pairs") and not fullonly) else "FALSE"),
        "  MsgIds = " + tla_set(c["msgids"]),
        "  AuthModes = " + tla_set(c["auth"]), "  CredModes = " + tla_set(c["creds"]), "  Qoss = " + tla_set(c["qoss"]),
        "  Deviations = " + tla_set(sorted(k["sig"] for k in vlib.load_findings().get("known", [])
                                           if k.get("model") == "gateway")),
        "INVARIANT DesignOK", "VIEW View", "CHECK_DEADLOCK FALSE", ""])


def ev_to_harness(e):
    t = e["t"]
    if t == "C":
        return {"e": "cl", "p": e["p"]}
    if t == "B":
        m = dict(e["m"])
        m["codes"] = list(m.get("codes") or [])
        return {"e": "br", "m": m}
    if t == "Adv":
        return {"e": "adv", "n": e["n"]}
    if t == "Shutdown":
        return {"e": "shutdown"}
    if t == "BEof":
        return {"e": "breof"}
    if t == "CRaw":
        return {"e": "clraw", "hex": "0211"}       # reserved packet type 0x11
    if t == "BRaw":
        return {"e": "brraw", "hex": "f000"}       # reserved MQTT packet type 15
    raise ValueError(t)


def run_mc(c, tier, emit=True):
    if tier == "thorough" and c.get("pairs"):
        # transition pairs at the quick depth + plain transition tests one event deeper
        r1, s1 = run_mc(dict(c, depth=(c["depth"][0], c["depth"][0])), "quick", emit)
        r2, s2 = run_mc(dict(c, pairs=False), "thorough", emit)
        r2["distinct"] += r1["distinct"]
        r2["generated"] += r1["generated"]
        return r2, s1 + s2
    depth = c["depth"][0 if tier == "quick" else 1]
    if tier == "thorough" and emit and c["depth"][1] > c["depth"][0]:
        # The state graph at the thorough depth can have a million transitions (sleep/timed family): first the
        # design check alone at that depth; every transition is replayed only if there are at most REPLAY_MAX of
        # them, otherwise the replay covers every transition at the quick depth (run() adds simulation walks).
        deep = vlib.tlc("MC_GatewaySession", "mc.cfg", files={"mc.cfg": mc_cfg(c, depth, False)},
                        workers=min(12, vlib.NCPU), timeout=1800)
        if "is violated" in deep["out"] or not vlib.tlc_ok(deep):
            raise vlib.Inconclusive("design check of the reference model failed at depth %d:\n%s" % (depth, deep["out"][-3000:]))
        if deep["generated"] > REPLAY_MAX:
            r, s = run_mc(dict(c, depth=(c["depth"][0], c["depth"][0])), "thorough", emit)
            r["distinct"], r["generated"] = deep["distinct"], deep["generated"]
            r["replay_depth"] = c["depth"][0]
            return r, s
    res = vlib.tlc("MC_GatewaySession", "mc.cfg", files={"mc.cfg": mc_cfg(c, depth, emit)},
                   workers=min(8, vlib.NCPU), timeout=1800 if tier == "thorough" else 900)
    if "is violated" in res["out"] or "Error:" in res["out"] and not vlib.tlc_ok(res):
        raise vlib.Inconclusive("design check of the reference model failed (spec bug or undeclared deviation):\n"
                                + res["out"][-3000:])
    if not vlib.tlc_ok(res):
        raise vlib.Inconclusive("TLC did not finish: " + res["out"][-2000:])
    scheds = []
    for js in vlib.tlc_printed(res, "SCHED:"):
        d = json.loads(js)
        scheds.append(d)
    return res, scheds


ALLGROUPS = ["connect", "auth", "will", "sleep", "term", "other", "reg", "sub", "unsub", "pub", "pubrel", "cack", "bpub",
             "back", "ping", "time", "longtime"]


def run_walks(n, depth, family="data", groups=None, auth=(False,), msgids=(1, 2)):
    """TLC -simulate: n random walks of `depth` events through the reference model (seeded)."""
    c = dict(family=family, groups=groups or [g for g in ALLGROUPS if g != "term"], msgids=list(msgids), qoss=[0, 1, 2, 3],
             auth=list(auth), creds=[False])
    res = vlib.tlc("MC_GatewaySession", "mc.cfg", files={"mc.cfg": mc_cfg(c, depth, True, fullonly=True)}, workers=1,
                   timeout=900, simulate="num=%d" % n, depth=depth + 2, extra=["-seed", str(vlib.seed())])
    if "is violated" in res["out"]:
        raise vlib.Inconclusive("design check failed during simulation:\n" + "\n".join(vlib.tlc_printed(res, "BAD:")[:3]))
    return [json.loads(js) for js in vlib.tlc_printed(res, "SCHED:")]


def shape(d):
    """coarse shape of a schedule: event types with the parameters that select code paths"""
    out, seen = [], set()
    for e in d["events"]:
        if e["t"] == "C":
            p = e["p"]
            name = p["topic"] or p["sname"]
            out.append((p["t"], p["rc"], p["tit"], p["qos"] == 3, p["dur"] > 0, p["will"], p["plainok"], p["empty"], p["wild"],
                        bool(name) and name in seen, p["pass"] == "" and p["plainok"],
                        # an acknowledgement: which of the open exchanges / registrations it refers to
                        (p["tid"], p["mid"]) if p["t"] in ("REGACK", "PUBACK", "PUBREC", "PUBCOMP", "PUBREL") else None))
            seen.add(name)
        elif e["t"] == "B":
            m = e["m"]
            # does the topic repeat an earlier one of this schedule? (same-name sequences are the interesting ones)
            out.append(("b" + m["t"], m["rc"], m["qos"], tuple(m["codes"]), m["short"], bool(m["topic"]) and m["topic"] in seen))
            seen.add(m["topic"])
        else:
            out.append((e["t"],))
    return tuple(out)


def stratified(scheds, budget, rnd):
    """Seeded sample of `budget` schedules that keeps every short schedule and spreads the rest evenly
    over the distinct shapes (so rare sequences are not drowned by the many variants of common ones)."""
    if len(scheds) <= max(budget, 6000):
        return scheds      # small state graphs are replayed completely also in the quick tier
    short = [d for d in scheds if len(d["events"]) <= 2]
    rest = [d for d in scheds if len(d["events"]) > 2]
    if len(short) > budget // 3:
        short = rnd.sample(short, budget // 3)
    strata = {}
    for d in rest:
        strata.setdefault(shape(d), []).append(d)
    # at least one schedule of every shape (up to a cap): a sample smaller than the number of shapes makes the
    # detection of a history-specific defect a lottery over VERIF_SEED
    budget = max(budget, min(len(strata) + len(short) + 200, SHAPE_CAP))
    keys = sorted(strata, key=repr)
    rnd.shuffle(keys)
    for k in keys:
        rnd.shuffle(strata[k])
    picked, i = [], 0
    want = budget - len(short)
    while len(picked) < want and keys:
        k = keys[i % len(keys)]
        if strata[k]:
            picked.append(strata[k].pop())
            i += 1
        else:
            keys.remove(k)
    return short + picked


def to_scenarios(scheds, tag, tail=70):
    out = []
    for i, d in enumerate(scheds):
        evs = [ev_to_harness(e) for e in list(d["prefix"]) + list(d["events"])]
        cfg = d["cfg"]
        cfg["predef"] = list(cfg.get("predef") or [])
        out.append({"id": "%s-%d" % (tag, i), "cfg": cfg, "seed": vlib.seed(), "events": evs, "tail": tail})
    return out


def execute(scenarios, binary):
    """Run scenarios on the real code in parallel; returns (lines, crashes)."""
    sc = vlib.scratch()
    parts = vlib.chunks(scenarios, vlib.NCPU)

    def one(arg):
        k, part = arg
        lines, crashes = [], []
        todo = part
        rounds = 0
        while todo:
            rounds += 1
            sp = os.path.join(sc, "sched-%d-%d.json" % (k, rounds))
            tp = os.path.join(sc, "trace-%d-%d.ndjson" % (k, rounds))
            pp = os.path.join(sc, "prog-%d-%d" % (k, rounds))
            json.dump(todo, open(sp, "w"))
            rc, out = vlib.run_driver(binary, {"VERIF_SCHED": sp, "VERIF_TRACE": tp, "VERIF_PROGRESS": pp}, timeout=900)
            got = [json.loads(l) for l in open(tp)] if os.path.exists(tp) else []
            prog = open(pp).read() if os.path.exists(pp) else ""
            if rc == 0 and prog == "DONE":
                lines += got
                break
            # the process died while executing scenario `prog`
            ids = [s["id"] for s in todo]
            if prog not in ids:
                raise vlib.Inconclusive("driver failed outside a scenario (rc=%d): %s" % (rc, out[-2000:]))
            idx = ids.index(prog)
            lines += [l for l in got if l["tr"] != prog]
            crashes.append({"scenario": todo[idx], "output": out[-3000:], "rc": rc,
                            "partial": [l for l in got if l["tr"] == prog]})
            todo = todo[idx + 1:]
            if len(crashes) >= 25:
                # enough: every crash is reported (a violation for C13/C25, inconclusive otherwise); a change
                # that makes every other scenario die would otherwise restart the driver thousands of times
                break
        return lines, crashes

    res = vlib.pmap(one, list(enumerate(parts)))
    lines, crashes = [], []
    for l, c in res:
        lines += l
        crashes += c
    return lines, crashes


def judge(lines, props):
    """TLC trace validation in parallel chunks (split on trace boundaries)."""
    traces, cur = [], []
    for l in lines:
        if l["ev"]["t"] == "Reset" and cur:
            traces.append(cur)
            cur = []
        cur.append(l)
    if cur:
        traces.append(cur)
    parts = vlib.chunks(traces, max(1, min(vlib.NCPU // 2, len(traces))))
    pj = json.dumps({"props": props}) + "\n"

    def one(part):
        txt = "".join(json.dumps(l) + "\n" for tr in part for l in tr)
        n = sum(len(tr) for tr in part)
        res = vlib.tlc("Trace_GatewaySession", "Trace_GatewaySession.cfg",
                       files={"trace.ndjson": txt, "props.json": pj}, workers=1, timeout=1200)
        r = vlib.tlc_printed(res, "RESULT:")
        if not vlib.tlc_ok(res) or not r:
            raise vlib.Inconclusive("trace validation did not complete:\n" + res["out"][-3000:])
        d = json.loads(r[-1])
        if d["stat"]["lines"] != n:
            raise vlib.Inconclusive("trace not fully consumed: %d of %d" % (d["stat"]["lines"], n))
        return d

    out = vlib.pmap(one, parts)
    viol, cover = [], set()
    stat = {}
    for d in out:
        viol += d["viol"]
        cover |= set(d["cover"])
        for k, v in d["stat"].items():
            stat[k] = stat.get(k, 0) + v
    return viol, stat, cover, traces


def run(prop, tier, replay=None):
    t0 = time.time()
    rnd = random.Random(vlib.seed())
    binary = vlib.build_driver("gwdrv")
    scenarios = []
    states = transitions = 0
    mc_info = []
    client_fut = None
    if replay:
        payload = json.load(open(replay))
        if payload.get("client_half"):
            import clientlib
            return clientlib.run_replay(prop, replay)
        scenarios = [payload["scenario"]] if "scenario" in payload else payload["scenarios"]
    else:
        if prop in CLIENT_HALF:
            # the property also speaks about the client library: families/clientlib.py decides that half
            # (ClientLib.tla + harness/cldrv) while the gateway half runs here
            from concurrent.futures import ThreadPoolExecutor
            import clientlib
            client_fut = ThreadPoolExecutor(max_workers=1).submit(clientlib.run_client_half, prop, tier)
        for k, c in enumerate(PLAN[prop]):
            res, scheds = run_mc(c, tier)
            states += res["distinct"]
            transitions += res["generated"]
            total = len(scheds)
            # transition pairs repeat many plain transition tests: keep one copy of each event sequence
            seen, uniq = set(), []
            for d in scheds:
                key = json.dumps(d["events"], sort_keys=True)
                if key not in seen:
                    seen.add(key)
                    uniq.append(d)
            scheds = uniq
            total = len(scheds)
            if tier == "quick":
                if c.get("pairs"):
                    dq = c["depth"][0]
                    base = [d for d in scheds if len(d["events"]) <= dq]
                    ext = [d for d in scheds if len(d["events"]) > dq]
                    scheds = stratified(base, QUICK_SAMPLE, rnd) + stratified(ext, QUICK_SAMPLE, rnd)
                else:
                    scheds = stratified(scheds, QUICK_SAMPLE, rnd)
            elif len(scheds) > REPLAY_MAX:
                scheds = stratified(scheds, REPLAY_MAX, rnd)      # memory: ~150 kB of trace per schedule
            mc_info.append(dict(config=c["family"] + ":" + "+".join(c["groups"]), distinct=res["distinct"],
                                generated=res["generated"], schedules=total, executed=len(scheds)))
            scenarios += to_scenarios(scheds, "%s-mc%d" % (prop, k))
        if tier == "thorough":
            # seeded random walks well beyond the exhaustive depth
            for k, c in enumerate(PLAN[prop]):
                walks = run_walks(150, c["depth"][1] + 6, family=c["family"], groups=c["groups"], auth=tuple(c["auth"]),
                                  msgids=tuple(c["msgids"]))
                mc_info.append(dict(config="walks:" + c["family"] + ":" + "+".join(c["groups"]), schedules=len(walks), executed=len(walks)))
                scenarios += to_scenarios(walks, "%s-walk%d" % (prop, k))
        scenarios += gw_scenarios.for_property(prop, tier, rnd)
    lines, crashes = execute(scenarios, binary)
    viol, stat, cover, traces = judge(lines, [prop])
    byid = {s["id"]: s for s in scenarios}
    trace_by_id = {}
    for tr in traces:
        trace_by_id[tr[0]["tr"]] = tr
    violations, desync = [], []
    for v in viol:
        sc = byid.get(v["tr"])
        item = {"sig": v["tag"], "what": "trace %s line %d" % (v["tr"], v["i"]),
                "replay": {"scenario": sc, "line": v["i"], "tag": v["tag"], "trace": trace_by_id.get(v["tr"])}}
        if v["tag"].startswith("desync/"):
            desync.append(item)
        else:
            violations.append(item)
    # goroutines of the session still blocked when the bubble ends make synctest panic: the leak
    # oracle of C13.  Any other crash of the session process is C25's observation; here it only
    # means the scenario could not be judged.
    if prop == "C13":
        for c in list(crashes):
            if "HARNESS: session" in c["output"] and "did not end" in c["output"]:
                crashes.remove(c)
                violations.append({"sig": "C13/not-ended-after-shutdown/run-never-returns",
                                   "what": "run() did not return within 2 s (virtual) after the context was cancelled in %s" % c["scenario"]["id"],
                                   "replay": {"scenario": c["scenario"], "output": c["output"][-1500:], "trace": c["partial"]}})
            elif "blocked goroutines remain" in c["output"] or "deadlock: main bubble goroutine has exited" in c["output"]:
                crashes.remove(c)
                violations.append({"sig": "C13/goroutines-leaked/blocked-at-session-end",
                                   "what": "session goroutines still blocked after run() returned in %s" % c["scenario"]["id"],
                                   "replay": {"scenario": c["scenario"], "output": c["output"][-2500:], "trace": c["partial"]}})
    race_cov = None
    if prop == "C11" and not replay:
        import sleeprace
        rv, race_cov = sleeprace.run(tier, rnd)
        violations += rv
    client_cov = None
    if client_fut:
        cv, client_cov = client_fut.result()        # a model gap of the client half makes the run inconclusive
        for v in cv:
            if isinstance(v.get("replay"), dict):
                v["replay"]["client_half"] = True
        violations += cv
    code, n_new, n_known = vlib.verdict(prop, violations)
    sample = None
    if traces:
        tr = traces[rnd.randrange(len(traces))]
        sample = {"scenario": byid.get(tr[0]["tr"], {}).get("events"),
                  "trace": [{"now": l["now"], "ev": l["ev"]["t"], "p": l["ev"]["p"]["t"], "m": l["ev"]["m"]["t"],
                             "outC": [p["t"] for p in l["outC"]], "outB": [m["t"] for m in l["outB"]], "st": l["st"]}
                            for l in tr][:40]}
    cov = dict(states=states, transitions=transitions, traces_validated_against_impl=len(traces),
               samples=[sample], evaluations=stat.get("checked", 0), distinct_nontrivial=len(cover),
               rule="schedules = one per transition of the TLC state graph of the property's alphabets (quick: seeded sample) "
                    "+ targeted generators; evaluations = trace steps judged by TLC with Check_%s; distinct_nontrivial = distinct "
                    "(state, connect phase, event type, post-state) combinations exercised on the real code" % prop,
               exhaustive=(tier == "thorough"), mc=mc_info, steps=stat, crashes=len(crashes),
               desync=[d["sig"] for d in desync][:20], exact_output_match=dict(client=stat.get("exactC", 0), broker=stat.get("exactB", 0)),
               known_findings=n_known, concurrency=race_cov, client_half=client_cov)
    vlib.write_evidence(prop, tier, "model_checking", cov, time.time() - t0, violations=n_new,
                        assumptions=["A-quiescent: handler invocations are serialised by the step driver",
                                     "A-net: in-memory connections never fail", "A-timer: asynctimerchan=0",
                                     "conforming broker (CONNACK only answers a CONNECT)"])
    if code == 0 and (desync or crashes):
        print("INCONCLUSIVE property=%s: %d traces with model/code state desync, %d driver crashes (first: %s)" %
              (prop, len(desync), len(crashes), (desync[0]["sig"] if desync else crashes[0]["output"][-300:])))
        if desync:
            vlib.replay_path(prop + "-desync", 1, desync[0]["replay"])
        return 2
    return code
