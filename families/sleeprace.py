"""Concurrency part of C11: SleepRace.tla (critical-section model of snSend vs. sleep / wake-up /
connect) + harness/gwdrv TestRace (two unsynchronised injector goroutines, real time, -race build)
+ Trace_SleepRace.tla (TLC searches the interleaving that explains each recorded output).
Returns (violations, coverage) for families/gateway.py."""
import json, os, random, re
import vlib

CMDSETS = [["sleep", "wake"], ["sleep", "wake", "wake"], ["sleep", "wake", "connect"], ["sleep", "connect", "sleep", "wake"],
           ["sleep", "wake", "sleep", "wake", "connect"], ["sleep", "sleep", "wake", "wake", "connect", "sleep"]]


def design():
    """TLC: the atomic model satisfies Prop_C11, the unsynchronised variant does not."""
    a = vlib.tlc("MC_SleepRace", "MC_SleepRace_atomic.cfg", workers=2, timeout=600)
    if not vlib.tlc_ok(a):
        raise vlib.Inconclusive("SleepRace (atomic) design check failed:\n" + a["out"][-1500:])
    b = vlib.tlc("MC_SleepRace", "MC_SleepRace_racy.cfg", workers=2, timeout=600)
    if "Invariant Prop_C11 is violated" not in b["out"]:
        raise vlib.Inconclusive("SleepRace (racy) variant: TLC did not find the lost message - the model lost its teeth")
    return a


def run(tier, rnd):
    a = design()
    binary = vlib.build_driver("gwdrv", race=True)
    n_runs = 60 if tier == "quick" else 600
    runs = []
    for k in range(n_runs):
        cmds = list(rnd.choice(CMDSETS))
        runs.append({"id": "race-%d" % k, "n": rnd.choice([4, 6, 8]), "cmds": cmds, "seed": rnd.randrange(1 << 30)})
    sc = vlib.scratch()
    parts = vlib.chunks(runs, max(1, vlib.NCPU // 2))

    def one(arg):
        k, part = arg
        sp, tp = os.path.join(sc, "race-sched-%d.json" % k), os.path.join(sc, "race-out-%d.ndjson" % k)
        json.dump(part, open(sp, "w"))
        rc, out = vlib.run_driver(binary, {"VERIF_SCHED": sp, "VERIF_TRACE": tp}, run="TestRace", timeout=900)
        got = [json.loads(l) for l in open(tp)] if os.path.exists(tp) else []
        return rc, out, got

    violations, results = [], []
    for rc, out, got in vlib.pmap(one, list(enumerate(parts))):
        results += got
        if "WARNING: DATA RACE" in out:
            fr = re.findall(r"github\.com/energomonitor/bisquitt/([\w/\.\(\)\*]+)\(\)", out)
            where = fr[0] if fr else "?"
            violations.append({"sig": "C11/data-race/" + where, "what": "race detector report in the sleep/wake stress run",
                               "replay": {"output": out[-4000:]}})
        elif rc != 0:
            raise vlib.Inconclusive("TestRace failed: " + out[-1500:])
    good = [r for r in results if r["ok"]]
    if len(good) < len(runs) * 0.8:
        raise vlib.Inconclusive("too many race runs did not complete: %d of %d (%s)" % (len(good), len(runs), results[0].get("why") if results else "?"))
    # judge: one TLC run, DFS queue (the accepting interleaving is found quickly)
    txt = "".join(json.dumps({"id": r["id"], "n": r["n"], "cmds": r["cmds"], "out": r["out"]}) + "\n" for r in good)
    res = vlib.tlc("Trace_SleepRace", "Trace_SleepRace.cfg", files={"runs.ndjson": txt}, workers=1, timeout=1200)
    m = vlib.tlc_printed(res, "RESULT:")
    if not m:
        raise vlib.Inconclusive("Trace_SleepRace did not complete:\n" + res["out"][-2000:])
    acc, total = (int(x) for x in m[-1].strip('"').split("/"))
    if acc < total:
        bad = good[acc]
        violations.append({"sig": "C11/race-output-not-sequential/" + "-".join(bad["cmds"]),
                           "what": "no interleaving of the atomic critical sections explains what the client received: %s" % bad["out"],
                           "replay": {"run": bad}})
    cov = dict(race_runs=len(good), race_states=res["distinct"], sleeprace_model_states=a["distinct"],
               race_sample=good[0] if good else None)
    return violations, cov
