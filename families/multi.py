"""C15: client sessions are isolated from each other.

Spec: Multi = N instances of GatewaySession with disjoint variables and one shared read-only
configuration; non-interference means that each instance's projection is a behaviour of the
single-session spec driven by its own inputs only.  Conformance:
  * TLC generates single-session schedules (transition tests of the gateway alphabets); 2-3 of
    them are merged on a common time line (seeded interleaving of simultaneous events) and run on
    real sessions that share their handler configuration exactly as Gateway.ListenAndServe shares
    it (harness/gwdrv TestMulti);
  * TLC judges every session's projection with the single-session trace spec under ALL property
    checks; a violation that the same schedule also shows when run alone belongs to another
    property and is not reported here;
  * differential oracle: the projection must equal the observation of the same schedule run
    alone (same virtual times), output for output.
The accept loop (one session and one broker connection per peer address) is exercised by a small
loopback scenario in families/multi_sock (real sockets, real time; inconclusive on timing flukes).
"""
import json, os, random, time
import vlib, gateway

CONFIGS = ["DATA_BPUB", "DATA_IDS", "DATA_CTRL", "SLEEP", "CONNECT"]


def timed(events):
    t, out = 0, []
    for e in events:
        if e["e"] == "adv":
            t += e["n"]
        else:
            out.append((t, e))
    return out, t


def merge(scheds, rnd):
    """scheds: list of harness event lists -> multi events on a common time line"""
    horizon, at = 0, {}
    for k, evs in enumerate(scheds):
        tl, end = timed(evs)
        horizon = max(horizon, end)
        for t, e in tl:
            at.setdefault(t, {}).setdefault(k, []).append(e)
    # keep each session's own order, interleave simultaneous events of different sessions at random
    fixed = []
    for t in sorted(at):
        queues = {k: list(v) for k, v in at[t].items()}
        while queues:
            k = rnd.choice(sorted(queues))
            fixed.append((t, k, queues[k].pop(0)))
            if not queues[k]:
                del queues[k]
    out, now = [], 0
    for t, k, e in fixed:
        if t > now:
            out.append({"s": 0, "e": "adv", "n": t - now})
            now = t
        d = dict(e)
        d["s"] = k
        out.append(d)
    if horizon > now:
        out.append({"s": 0, "e": "adv", "n": horizon - now})
    return out


def run_multi(binary, scenarios, test="TestMulti"):
    sc = vlib.scratch()
    parts = vlib.chunks(scenarios, vlib.NCPU)

    def one(arg):
        k, part = arg
        sp, tp, pp = (os.path.join(sc, "%s-%s-%d" % (test, x, k)) for x in ("sched", "trace", "prog"))
        json.dump(part, open(sp, "w"))
        rc, out = vlib.run_driver(binary, {"VERIF_SCHED": sp, "VERIF_TRACE": tp, "VERIF_PROGRESS": pp}, run=test, timeout=900)
        if rc != 0:
            raise vlib.Inconclusive("driver %s failed (rc=%d) at %s: %s" % (test, rc, open(pp).read() if os.path.exists(pp) else "?", out[-1500:]))
        return [json.loads(l) for l in open(tp)]

    lines = []
    for r in vlib.pmap(one, list(enumerate(parts))):
        lines += r
    return lines


def outputs(tr):
    """time line of what a session emitted: list of (now, client packets, broker packets)"""
    core = ("t", "dup", "qos", "retain", "tit", "tid", "mid", "rc", "topic", "data")
    mcore = ("t", "dup", "qos", "retain", "topic", "mid", "pl", "rqos", "cid", "user", "pass", "willtopic", "willmsg")
    out = []
    for l in tr:
        if l["ev"]["t"] == "End":
            break
        if l["outC"] or l["outB"]:
            oc = [tuple(p[k] for k in core) for p in l["outC"]]
            ob = [tuple(m[k] for k in mcore) for m in l["outB"]]
            if l["ev"]["t"] == "Adv":
                # several timers firing in the same tick run in no particular order
                oc, ob = sorted(oc, key=repr), sorted(ob, key=repr)
            out.append((l["now"], oc, ob))
    last = [l for l in tr if l["ev"]["t"] != "End"][-1]
    return out, (last["st"], last["ended"], last["bclosed"], json.dumps(last["reg"]))


def run(prop, tier, replay=None):
    t0 = time.time()
    rnd = random.Random(vlib.seed())
    binary = vlib.build_driver("gwdrv")
    states = transitions = 0
    pool = []
    if replay:
        payload = json.load(open(replay))
        multis, solos = [payload["multi"]], payload["solos"]
    else:
        per = 40 if tier == "quick" else 400
        for name in CONFIGS:
            c = getattr(gateway, name)
            res, scheds = gateway.run_mc(c, "quick")
            states += res["distinct"]
            transitions += res["generated"]
            scheds = rnd.sample(scheds, min(per, len(scheds)))
            # a gateway shutdown is global by design: not part of a per-client schedule
            scheds = [d for d in scheds if not any(e["t"] == "Shutdown" for e in d["events"])]
            pool += gateway.to_scenarios(scheds, "C15-" + name, tail=25)
        multis, solos = [], []
        n_multi = 80 if tier == "quick" else 1500
        for i in range(n_multi):
            k = 2 if rnd.random() < 0.7 else 3
            group = [rnd.choice(pool) for _ in range(k)]
            # same configuration for all sessions of a gateway
            cfg = group[0]["cfg"]
            group = [g for g in group if g["cfg"]["auth"] == cfg["auth"] and g["cfg"]["hasuser"] == cfg["hasuser"]] or [group[0]]
            evs = merge([g["events"] + [{"e": "adv", "n": g["tail"]}] for g in group], rnd)
            mid = "C15-m%d" % i
            multis.append({"id": mid, "cfg": cfg, "seed": 1, "sessions": len(group), "events": evs, "tail": 5})
            for k2, g in enumerate(group):
                solos.append({"id": "%s-solo%d" % (mid, k2), "cfg": cfg, "seed": 1, "sessions": 1,
                              "events": [dict(e, s=0) for e in merge([g["events"] + [{"e": "adv", "n": g["tail"]}]], rnd)], "tail": 5})
    lines = run_multi(binary, multis) + run_multi(binary, solos)
    by = {}
    for l in lines:
        by.setdefault(l["tr"], []).append(l)
    ordered = []
    for tr in sorted(by):
        ordered += by[tr]
    viol, stat, cover, traces = gateway.judge(ordered, gateway.ALL)
    solo_tags = {}
    for v in viol:
        if "-solo" in v["tr"]:
            solo_tags.setdefault(v["tr"].split("#")[0], set()).add(v["tag"])
    violations = []
    bym = {m["id"]: m for m in multis}
    for v in viol:
        if "-solo" in v["tr"] or v["tag"].startswith("desync/"):
            continue
        mid, k = v["tr"].split("#")
        if v["tag"] in solo_tags.get("%s-solo%s" % (mid, k), set()):
            continue       # the schedule breaks that property on its own: not an isolation matter
        violations.append({"sig": "C15/projection-violates/" + v["tag"], "what": "session %s line %d" % (v["tr"], v["i"]),
                           "replay": {"multi": bym[mid], "solos": [s for s in solos if s["id"].startswith(mid + "-solo")],
                                      "trace": by[v["tr"]][:60]}})
    # differential oracle
    compared = 0
    for m in multis:
        for k in range(m["sessions"]):
            a = by.get("%s#%d" % (m["id"], k))
            b = by.get("%s-solo%d#0" % (m["id"], k))
            if not a or not b:
                raise vlib.Inconclusive("missing trace for %s session %d" % (m["id"], k))
            compared += 1
            oa, fa = outputs(a)
            ob, fb = outputs(b)
            if oa != ob or fa != fb:
                first = next((x for x, y in zip(oa, ob) if x != y), (oa + ob)[min(len(oa), len(ob))] if len(oa) != len(ob) else ("final",))
                violations.append({"sig": "C15/projection-differs/" + ("output" if oa != ob else "final-state"),
                                   "what": "session %d of %s behaves differently next to the other sessions (first difference at %s)" % (k, m["id"], str(first)[:200]),
                                   "replay": {"multi": m, "solos": [s for s in solos if s["id"].startswith(m["id"] + "-solo")],
                                              "with_others": oa[:40], "alone": ob[:40]}})
    code, n_new, n_known = vlib.verdict(prop, violations)
    cov = dict(states=states, transitions=transitions, traces_validated_against_impl=len(traces),
               samples=[{"multi_schedule": multis[0]["events"][:25] if multis else None}],
               evaluations=compared, distinct_nontrivial=len(cover),
               rule="evaluations = session projections compared with their solo run and judged by the single-session trace spec; "
                    "distinct_nontrivial = distinct (state, phase, event, post-state) combinations exercised in multi-session runs",
               exhaustive=False, steps=stat, sessions_per_run="2-3", known_findings=n_known)
    vlib.write_evidence(prop, tier, "model_checking", cov, time.time() - t0, violations=n_new,
                        assumptions=["sessions are created through the verif hook that mirrors Gateway.ListenAndServe's sharing "
                                     "(one handlerConfig, one predefined-topic map, one logger)",
                                     "A-quiescent: events of different sessions are serialised by the step driver"])
    return code
