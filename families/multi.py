"""C15: client sessions are isolated from each other.

Spec: Multi = N instances of GatewaySession with disjoint variables and one shared read-only
configuration; non-interference means that each instance's projection is a behaviour of the
single-session spec driven by its own inputs only.  Conformance:
  * TLC generates single-session schedules (transition tests of the gateway alphabets); 2-3 of
    them are merged on a common time line (seeded interleaving of simultaneous events) and run on
    real sessions that share their handler configuration exactly as Gateway.ListenAndServe shares
    it (harness/gwdrv TestMulti);
  * TLC judges every session's projection with the single-session trace spec under ALL property
    checks; a violation that the same schedule also shows when run alone belongs to another
    property and is not reported here;
  * differential oracle: the projection must equal the observation of the same schedule run
    alone (same virtual times), output for output.
The accept loop (one session and one broker connection per peer address) is exercised by a small
loopback scenario in families/multi_sock (real sockets, real time; inconclusive on timing flukes).
"""
import json, os, random, time
import vlib, gateway

CONFIGS = ["DATA_BPUB", "DATA_IDS", "DATA_CTRL", "SLEEP", "CONNECT"]


def timed(events):
    t, out = 0, []
    for e in events:
        if e["e"] == "adv":
            t += e["n"]
        else:
            out.append((t, e))
    return out, t


def merge(scheds, rnd):
    """scheds: list of harness event lists -> multi events on a common time line"""
    horizon, at = 0, {}
    for k, evs in enumerate(scheds):
        tl, end = timed(evs)
        horizon = max(horizon, end)
        for t, e in tl:
            at.setdefault(t, {}).setdefault(k, []).append(e)
    # keep each session's own order, interleave simultaneous events of different sessions at random
    fixed = []
    for t in sorted(at):
        queues = {k: list(v) for k, v in at[t].items()}
        while queues:
            k = rnd.choice(sorted(queues))
            fixed.append((t, k, queues[k].pop(0)))
            if not queues[k]:
                del queues[k]
    out, now = [], 0
    for t, k, e in fixed:
        if t > now:
            out.append({"s": 0, "e": "adv", "n": t - now})
            now = t
        d = dict(e)
        d["s"] = k
        out.append(d)
    if horizon > now:
        out.append({"s": 0, "e": "adv", "n": horizon - now})
    return out


def run_multi(binary, scenarios, test="TestMulti", env=None):
    sc = vlib.scratch()
    parts = vlib.chunks(scenarios, vlib.NCPU)

    def one(arg):
        k, part = arg
        sp, tp, pp = (os.path.join(sc, "%s-%s-%d" % (test, x, k)) for x in ("sched", "trace", "prog"))
        json.dump(part, open(sp, "w"))
        rc, out = vlib.run_driver(binary, dict(env or {}, VERIF_SCHED=sp, VERIF_TRACE=tp, VERIF_PROGRESS=pp), run=test, timeout=900)
        if rc != 0:
            raise vlib.Inconclusive("driver %s failed (rc=%d) at %s: %s" % (test, rc, open(pp).read() if os.path.exists(pp) else "?", out[-1500:]))
        return [json.loads(l) for l in open(tp)]

    lines = []
    for r in vlib.pmap(one, list(enumerate(parts))):
        lines += r
    return lines


def outputs(tr):
    """time line of what a session emitted: list of (now, client packets, broker packets)"""
    core = ("t", "dup", "qos", "retain", "tit", "tid", "mid", "rc", "topic", "data")
    mcore = ("t", "dup", "qos", "retain", "topic", "mid", "pl", "rqos", "cid", "user", "pass", "willtopic", "willmsg")
    out = []
    for l in tr:
        if l["ev"]["t"] == "End":
            break
        if l["outC"] or l["outB"]:
            oc = [tuple(p[k] for k in core) for p in l["outC"]]
            ob = [tuple(m[k] for k in mcore) for m in l["outB"]]
            if l["ev"]["t"] == "Adv":
                # several timers firing in the same tick run in no particular order
                oc, ob = sorted(oc, key=repr), sorted(ob, key=repr)
            out.append((l["now"], oc, ob))
    last = [l for l in tr if l["ev"]["t"] != "End"][-1]
    return out, (last["st"], last["ended"], last["bclosed"], json.dumps(last["reg"]))


def handshakes(rnd, n):
    """Groups of 2-3 sessions that all run a complete connect exchange (AUTH with their own credentials, will
    topic and message of their own, different lengths) at the same time: every packet of one client is in flight
    while the others' handlers hold credentials / will data they have not yet sent to the broker."""
    from gw_scenarios import P, M, cfg
    out = []
    for i in range(n):
        k = 2 if rnd.random() < 0.6 else 3
        group = []
        if i % 3 == 2:
            # the gateway's own configured credentials (no AUTH): every session's MQTT CONNECT carries them,
            # however many sessions have connected before
            for j in range(k):
                cid = "c%d" % (j + 1)
                will = rnd.random() < 0.5
                evs = [P("CONNECT", dur=2, cid=cid, clean=True, will=will)]
                if will:
                    evs += [P("WILLTOPIC", topic="will/%s" % cid, qos=1), P("WILLMSG", data="s:gone-%s" % cid)]
                evs += [M("CONNACK", rc=0), P("PUBLISH", qos=0, tit=2, tid=24930, sname="ab", short=True, data="s:hello-" + cid)]
                group.append({"cfg": cfg(auth=False, hasuser=True, user="gwu", haspass=True, **{"pass": "gwp"}), "events": evs, "tail": 25})
            out.append(group)
            continue
        for j in range(k):
            cid = "c%d" % (j + 1)
            user, pw = "user%d" % j, "pw-%d-%s" % (j, "x" * rnd.choice([0, 3, 9]))
            will = rnd.random() < 0.8
            evs = [P("CONNECT", dur=2, cid=cid, clean=True, will=will),
                   P("AUTH", method="PLAIN", plain=True, plainok=True, user=user, **{"pass": pw})]
            if will:
                evs += [P("WILLTOPIC", topic="will/%s/%s" % (cid, "t" * rnd.choice([1, 12, 30])), qos=1),
                        P("WILLMSG", data="s:gone-%s-%s" % (cid, "m" * rnd.choice([0, 8, 14])))]
            evs += [M("CONNACK", rc=0), P("PUBLISH", qos=0, tit=2, tid=24930, sname="ab", short=True, data="s:hello-" + cid)]
            group.append({"cfg": cfg(auth=True), "events": evs, "tail": 25})
        out.append(group)
    return out


def run(prop, tier, replay=None):
    t0 = time.time()
    rnd = random.Random(vlib.seed())
    binary = vlib.build_driver("gwdrv")
    states = transitions = 0
    pool = []
    if replay:
        payload = json.load(open(replay))
        if payload.get("listener"):
            import listener
            lv, lcov = listener.run_half(tier, rnd, replay=payload["schedule"])
            print(json.dumps(lcov)[:800])
            return vlib.verdict(prop, lv)[0]
        multis, solos = [payload["multi"]], payload["solos"]
    else:
        per = 40 if tier == "quick" else 400
        for name in CONFIGS:
            c = getattr(gateway, name)
            res, scheds = gateway.run_mc(dict(c, pairs=False), "quick")
            states += res["distinct"]
            transitions += res["generated"]
            scheds = rnd.sample(scheds, min(per, len(scheds)))
            # a gateway shutdown is global by design: not part of a per-client schedule
            scheds = [d for d in scheds if not any(e["t"] == "Shutdown" for e in d["events"])]
            pool += gateway.to_scenarios(scheds, "C15-" + name, tail=25)
        multis, solos = [], []
        n_multi = 80 if tier == "quick" else 1500
        targeted = handshakes(rnd, 24 if tier == "quick" else 240)
        for i in range(n_multi + len(targeted)):
            k = 2 if rnd.random() < 0.7 else 3
            group = targeted[i - n_multi] if i >= n_multi else [rnd.choice(pool) for _ in range(k)]
            # same configuration for all sessions of a gateway
            cfg = group[0]["cfg"]
            group = [g for g in group if g["cfg"]["auth"] == cfg["auth"] and g["cfg"]["hasuser"] == cfg["hasuser"]] or [group[0]]
            evs = merge([g["events"] + [{"e": "adv", "n": g["tail"]}] for g in group], rnd)
            mid = "C15-m%d" % i
            multis.append({"id": mid, "cfg": cfg, "seed": 1, "sessions": len(group), "events": evs, "tail": 5})
            # the solo run of a session lasts exactly as long as the multi-session run (a timer that fires late in
            # the multi run - connect timeout, sleep expiry - must also get the chance to fire in the solo run)
            total = lambda evs: sum(e["n"] for e in evs if e["e"] == "adv")
            horizon = total(evs)
            for k2, g in enumerate(group):
                sev = [dict(e, s=0) for e in merge([g["events"] + [{"e": "adv", "n": g["tail"]}]], rnd)]
                if horizon > total(sev):
                    sev.append({"s": 0, "e": "adv", "n": horizon - total(sev)})
                solos.append({"id": "%s-solo%d" % (mid, k2), "cfg": cfg, "seed": 1, "sessions": 1, "events": sev, "tail": 5})
    # the same multi-session schedules once more with simultaneous events of different sessions processed
    # concurrently (ids "...b"); one run on a single P (goroutines interleave only where they block: shared
    # pools / caches hand objects from one session to the other), one on all Ps
    bursts = []
    if not replay or payload.get("burst"):
        for m in multis:
            if m["sessions"] > 1 and not m.get("burst"):
                bursts.append(dict(m, id=m["id"] + "b", burst=True))
    half = len(bursts) // 2
    lines = (run_multi(binary, [m for m in multis if not m.get("burst")]) + run_multi(binary, solos)
             + run_multi(binary, bursts[:half] + [m for m in multis if m.get("burst")], env={"GOMAXPROCS": "1"})
             + run_multi(binary, bursts[half:]))
    multis = multis + bursts
    by = {}
    for l in lines:
        by.setdefault(l["tr"], []).append(l)
    ordered = []
    for tr in sorted(by):
        ordered += by[tr]
    viol, stat, cover, traces = gateway.judge(ordered, gateway.ALL)
    solo_tags = {}
    for v in viol:
        if "-solo" in v["tr"]:
            solo_tags.setdefault(v["tr"].split("#")[0], set()).add(v["tag"])
    violations = []
    bym = {m["id"]: m for m in multis}
    for v in viol:
        if "-solo" in v["tr"] or v["tag"].startswith("desync/"):
            continue
        mid, k = v["tr"].split("#")
        base = mid[:-1] if mid.endswith("b") else mid
        if v["tag"] in solo_tags.get("%s-solo%s" % (base, k), set()):
            continue       # the schedule breaks that property on its own: not an isolation matter
        violations.append({"sig": "C15/projection-violates/" + v["tag"], "what": "session %s line %d" % (v["tr"], v["i"]),
                           "replay": {"multi": bym[mid], "burst": mid.endswith("b"), "solos": [s for s in solos if s["id"].startswith(base + "-solo")],
                                      "trace": by[v["tr"]][:60]}})
    # differential oracle
    compared = 0
    for m in multis:
        for k in range(m["sessions"]):
            base = m["id"][:-1] if m.get("burst") else m["id"]
            a = by.get("%s#%d" % (m["id"], k))
            b = by.get("%s-solo%d#0" % (base, k))
            if not a or not b:
                raise vlib.Inconclusive("missing trace for %s session %d" % (m["id"], k))
            compared += 1
            oa, fa = outputs(a)
            ob, fb = outputs(b)
            if oa != ob or fa != fb:
                first = next((x for x, y in zip(oa, ob) if x != y), (oa + ob)[min(len(oa), len(ob))] if len(oa) != len(ob) else ("final",))
                violations.append({"sig": "C15/projection-differs/" + ("output" if oa != ob else "final-state"),
                                   "what": "session %d of %s behaves differently next to the other sessions (first difference at %s)" % (k, m["id"], str(first)[:200]),
                                   "replay": {"multi": m, "burst": bool(m.get("burst")), "solos": [s for s in solos if s["id"].startswith(base + "-solo")],
                                              "with_others": oa[:40], "alone": ob[:40]}})
    # the accept loop of the real Gateway over loopback sockets (families/listener.py)
    listener_cov = None
    if not replay:
        import listener
        lv, listener_cov = listener.run_half(tier, rnd)
        violations += lv
    code, n_new, n_known = vlib.verdict(prop, violations)
    cov = dict(states=states, transitions=transitions, traces_validated_against_impl=len(traces) + (listener_cov or {}).get("schedules", 0),
               listener=listener_cov,
               samples=[{"multi_schedule": multis[0]["events"][:25] if multis else None}],
               evaluations=compared, distinct_nontrivial=len(cover),
               rule="evaluations = session projections compared with their solo run and judged by the single-session trace spec; "
                    "distinct_nontrivial = distinct (state, phase, event, post-state) combinations exercised in multi-session runs",
               exhaustive=False, steps=stat, sessions_per_run="2-3", known_findings=n_known)
    vlib.write_evidence(prop, tier, "model_checking", cov, time.time() - t0, violations=n_new,
                        assumptions=["session-level runs: sessions are created through the verif hook that mirrors Gateway.ListenAndServe's sharing "
                                     "(one handlerConfig, one predefined-topic map, one logger); listener-level runs: the real Gateway over "
                                     "loopback UDP/TCP in real time, every event waits up to 3 s for its own effect",
                                     "each multi-session schedule runs twice: events of different sessions serialised by the step driver, "
                                     "and simultaneous events processed concurrently (burst runs, half of them with GOMAXPROCS=1)"])
    return code
