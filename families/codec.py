"""Family codec: C20 (decoding never panics), C21 (encode/decode round trip, length/header
rules, short-topic bijection), C22 (decoded packets reflect the datagram).

Oracle: tla/Codec.tla.  Binding in both directions (see docs/codec.md):
 (a) TLC (tla/MC_Codec.tla, cfgs MC_Codec_{tree,struct,pkt}_{quick,thorough}.cfg) checks the
     properties on the spec and prints every state as a vector with its expected result;
     harness/codecdrv executes the vectors on the real packets/packets1 code and compares;
 (b) harness/codecdrv executes the real code on Go-generated inputs (exhaustive classes of short
     datagrams, rapid structure-aware datagrams, rapid legal packets, all 65536 short topic ids)
     and tla/Trace_Codec.tla judges every (input, real outcome) record with Parse/Encode.
"""
import json, os, random, time
from concurrent.futures import ThreadPoolExecutor

import vlib

PROPS = ("C20", "C21", "C22")
KIND_PROP = {
    "panic": "C20",
    "fields": "C22", "repack": "C22", "accept-nonlayout": "C22", "body-offset": "C22",
    "bytes-header": "C21", "bytes-body": "C21", "rt-panic": "C21", "rt-reject": "C21",
    "rt-fields": "C21", "short-dec": "C21", "short-enc": "C21",
}
INFO_KINDS = ("accept-extra", "reject-extra")      # acceptance differences no property speaks about
HARNESS_KINDS = ("illegal-input", "snref-diff")    # oracle/harness problems -> exit 2
TYPE_NAMES = {0: "ADVERTISE", 1: "SEARCHGW", 2: "GWINFO", 3: "AUTH", 4: "CONNECT", 5: "CONNACK",
              6: "WILLTOPICREQ", 7: "WILLTOPIC", 8: "WILLMSGREQ", 9: "WILLMSG", 10: "REGISTER",
              11: "REGACK", 12: "PUBLISH", 13: "PUBACK", 14: "PUBCOMP", 15: "PUBREC", 16: "PUBREL",
              18: "SUBSCRIBE", 19: "SUBACK", 20: "UNSUBSCRIBE", 21: "UNSUBACK", 22: "PINGREQ",
              23: "PINGRESP", 24: "DISCONNECT", 26: "WILLTOPICUPD", 27: "WILLTOPICRESP",
              28: "WILLMSGUPD", 29: "WILLMSGRESP"}
ASSUMPTIONS = [
    "A-tlc: TLC 1.8 + CommunityModules Json evaluate Codec.tla faithfully; A-go: go1.26.8",
    "the transport delivers one whole datagram per Read (the driver's reader does), <= 8192 octets",
    "a panic of the pure codec functions is observed through recover() inside the driver",
    "'decodes successfully' = the real ReadPacket returns no error; acceptance differences between "
    "the real decoder and the layout that lose no information are informational (not violations)",
]

# sizes per tier (fitted to measured TLC throughput: ~7k short datagrams/s and ~80 large random
# records/s per TLC judge process; see docs/codec.md)
TIERS = {
    # timeouts are generous on purpose (a loaded machine must not turn into exit 2)
    "quick": dict(tree="MC_Codec_tree_quick.cfg", tree_prop=None, struct="MC_Codec_struct_quick.cfg",
                  body="MC_Codec_body_quick.cfg",
                  pkt="MC_Codec_pkt_quick.cfg", rand_classes=200, dgrand=1500, pkrand=1500,
                  short_shards=6, rand_shards=3, judge_par=6, timeout=900),
    "thorough": dict(tree="MC_Codec_tree_emit_thorough.cfg", tree_prop="MC_Codec_tree_thorough.cfg",
                     struct="MC_Codec_struct_thorough.cfg", pkt="MC_Codec_pkt_thorough.cfg",
                     body="MC_Codec_body_thorough.cfg",
                     rand_classes=None, dgrand=30000, pkrand=30000,
                     short_shards=48, rand_shards=24, judge_par=14, timeout=3000),
}


def tname(t):
    return TYPE_NAMES.get(t, "NOHEADER" if t == -1 else "RESERVED")


def signature(f):
    """Stable signature of a disagreement: names the mechanism, not the input."""
    k, cls, tn, fld = f["k"], f.get("cls", ""), tname(f.get("t", -1)), f.get("f", "")
    if k == "panic":
        if cls in ("long-header-truncated", "auth-method-len-overflow"):
            return "C20/panic/" + cls
        return "C20/panic/%s/%s" % (cls, tn)
    if k == "body-offset":
        # the decoded packet is exactly the layout applied two octets early: the body was sliced at
        # the offset derived from the announced length, not from the header form present
        return "C22/body-offset/long-form-small-length"
    if k in ("fields", "repack", "accept-nonlayout"):
        return "C22/%s/%s/%s" % (k, tn, fld or cls)
    if k.startswith("short-"):
        return "C21/short-topic/" + k
    if k == "rt-panic" and cls == "auth-method-len-overflow":
        return "C21/rt-panic/auth-method-len-overflow"
    if k == "bytes-header":
        # the body is right, the header differs: the mechanism is the header rule, not the packet type
        d = f.get("d", [])
        if len(d) >= 4 and d[0] == 1 and len(d) - 2 <= 255:
            return "C21/bytes-header/long-form-for-size-le-255"
        if len(d) >= 2 and d[0] != 1 and len(d) > 255:
            return "C21/bytes-header/short-form-for-size-gt-255"
        return "C21/bytes-header/length-field"
    if k in KIND_PROP:
        return "C21/%s/%s%s" % (k, tn, "/" + fld if fld else "")
    return "X/%s/%s/%s" % (k, cls, tn)


class Acc:
    """Accumulates findings/coverage over all TLC and driver runs of one check."""

    def __init__(self):
        self.findings = {}      # signature -> dict(n, ex, kind)
        self.info = {}          # (kind, cls, typename) -> n
        self.harness = []
        self.states = self.transitions = 0
        self.replayed = self.judged = self.accepted = self.panics = 0
        self.seen = set()
        self.samples = []
        self.tlc_runs = []

    def add(self, f, n=1, via=""):
        k = f["k"]
        if k in INFO_KINDS:
            key = (k, f.get("cls", ""), tname(f.get("t", -1)))
            self.info[key] = self.info.get(key, 0) + n
            return
        if k in HARNESS_KINDS or k not in KIND_PROP:
            self.harness.append(f)      # (an unknown kind is a harness/spec version mismatch)
            return
        s = signature(f)
        e = self.findings.setdefault(s, dict(n=0, ex=f, kind=k, via=via))
        e["n"] += n
        if len(f.get("d", [])) < len(e["ex"].get("d", [])):
            e["ex"], e["via"] = f, via      # keep the shortest failing datagram as the example

    def tlc(self, name, res):
        self.states += res["distinct"]
        self.transitions += res["generated"]
        self.tlc_runs.append(dict(run=name, distinct=res["distinct"], generated=res["generated"]))


_T0 = time.time()


def stage(msg):
    if os.environ.get("VERIF_VERBOSE"):
        print("[%6.1fs] %s" % (time.time() - _T0, msg), flush=True)


def need_ok(res, what):
    if not vlib.tlc_ok(res):
        raise vlib.Inconclusive("TLC %s did not complete cleanly (rc=%s):\n%s" % (what, res["rc"], res["out"][-3000:]))


def tlc_vectors(acc, cfg, workers, timeout, javaopts="-Xmx6g -XX:ParallelGCThreads=3"):
    """Direction (a), step 1: TLC checks the spec properties on every state of the cfg's state
    machine and prints the states as vectors."""
    res = vlib.tlc("MC_Codec", cfg, workers=workers, timeout=timeout, javaopts=javaopts)
    need_ok(res, cfg)       # an invariant violation here is a spec-level counterexample -> exit 2
    acc.tlc(cfg, res)
    stage("TLC %s done: %d distinct states" % (cfg, res["distinct"]))
    vecs = vlib.tlc_printed(res, "VEC:")
    return list(dict.fromkeys(vecs))    # the same state may be generated along several edges


def drive(drv, mode, env, args=(), timeout=600):
    out = os.path.join(vlib.scratch(), "out-%s-%d-%d.ndjson" % (mode, os.getpid(), random.getrandbits(40)))
    prog = out + ".progress"
    e = dict(VERIF_MODE=mode, VERIF_OUT=out, VERIF_PROGRESS=prog)
    e.update(env)
    rc, o = vlib.run_driver(drv, e, timeout=timeout, args=list(args))
    stage("driver %s done rc=%d" % (mode, rc))
    if rc != 0:
        where = open(prog).read().strip() if os.path.exists(prog) else "?"
        if "panic:" in o or "fatal error:" in o:
            # the process died inside the code under test: an observation, attributed to the input
            return out, dict(k="panic", cls="unrecovered-crash", t=-1, f="", d=[], detail="driver died at %s: %s" % (where, o[-1500:]))
        raise vlib.Inconclusive("codecdrv %s failed (rc=%d) at %s:\n%s" % (mode, rc, where, o[-3000:]))
    return out, None


def replay_vectors(acc, drv, mode, vecs, timeout):
    """Direction (a), step 2: the real code executes the TLC vectors; the driver compares."""
    if not vecs:
        raise vlib.Inconclusive("TLC printed no vectors for " + mode)
    inp = os.path.join(vlib.scratch(), "vec-%s-%d.ndjson" % (mode, random.getrandbits(40)))
    with open(inp, "w") as fh:
        fh.write("\n".join(vecs) + "\n")
    out, crash = drive(drv, mode, dict(VERIF_IN=inp), timeout=timeout)
    if crash:
        acc.add(crash, via="vectors")
        return
    summary = None
    for line in open(out):
        r = json.loads(line)
        if "summary" in r:
            summary = r["summary"]
        else:
            r["tn"] = tname(r["t"])
            acc.add(r, via="TLC vector replayed on the real code")
    if summary is None or summary["judged"] != len(vecs):
        raise vlib.Inconclusive("driver %s did not execute all %d vectors: %s" % (mode, len(vecs), summary))
    acc.replayed += summary["judged"]
    acc.accepted += summary.get("accepted", summary.get("ok", 0))
    acc.panics += summary.get("panics", 0)
    acc.seen |= {("vec", mode, i) for i in range(summary["distinct"])}
    acc.samples.append(dict(direction="spec->code", mode=mode, vector=trim(json.loads(vecs[len(vecs) // 2]))))


def trim(o, n=48):
    if isinstance(o, list):
        return o[:n] + (["...(%d)" % len(o)] if len(o) > n else []) if all(not isinstance(x, (list, dict)) for x in o) \
            else [trim(x, n) for x in o[:4]]
    if isinstance(o, dict):
        return {k: trim(v, n) for k, v in o.items()}
    return o


def judge(acc, lines, timeout, label):
    """Direction (b), step 2: one TLC run of Trace_Codec judges a batch of records."""
    if os.environ.get("VERIF_CODEC_CORRUPT") and label.startswith(os.environ["VERIF_CODEC_CORRUPT"]):
        lines = corrupt(lines)
    res = vlib.tlc("Trace_Codec", "Trace_Codec.cfg", workers=1, timeout=timeout,
                   files={"codec_trace.ndjson": "".join(lines)}, javaopts="-Xmx3g -XX:ParallelGCThreads=2")
    rep = vlib.tlc_printed(res, "JUDGE:")
    if not vlib.tlc_ok(res) or len(rep) != 1:
        raise vlib.Inconclusive("TLC judge (%s) failed (rc=%s):\n%s" % (label, res["rc"], res["out"][-3000:]))
    rep = json.loads(rep[0])
    stage("judge %s done: %d lines" % (label, len(lines)))
    if rep["lines"] != len(lines):
        raise vlib.Inconclusive("TLC judged %d of %d records (%s)" % (rep["lines"], len(lines), label))
    return res, rep


def corrupt(lines):
    """Binding demonstration (VERIF_CODEC_CORRUPT=<batch label prefix>): falsify one recorded field
    of one accepted record; TLC must reject it."""
    out, done = [], False
    for l in lines:
        if not done:
            r = json.loads(l)
            if r.get("k") == "dg" and r.get("o") == 2:
                r["pkt"]["msgid"] = (r["pkt"]["msgid"] + 1) % 65536
                l, done = json.dumps(r) + "\n", True
            elif r.get("k") == "pk" and r.get("o") == 2:
                r["bytes"][-1] = (r["bytes"][-1] + 1) % 256
                l, done = json.dumps(r) + "\n", True
            elif r.get("k") == "st":
                r["enc"][7] = (r["enc"][7] + 1) % 65536
                l, done = json.dumps(r) + "\n", True
        out.append(l)
    return out


def judge_file(acc, path, nshards, par, timeout, label):
    lines = open(path).readlines()
    if not lines:
        raise vlib.Inconclusive("driver wrote no records (%s)" % label)
    shards = vlib.chunks(lines, nshards)
    with ThreadPoolExecutor(max_workers=par) as ex:
        results = list(ex.map(lambda a: judge(acc, a[1], timeout, "%s-%d" % (label, a[0])), enumerate(shards)))
    for (res, rep) in results:
        acc.tlc("Trace_Codec:" + label, res)
        acc.judged += rep["judged"]
        acc.accepted += rep["accepted"]
        acc.panics += rep["panics"]
        acc.seen |= {tuple(s) for s in rep["seen"]}
        for b in rep["bad"]:
            acc.add(b, n=b["n"], via="real outcome judged by TLC (%s)" % label)
    acc.samples.append(dict(direction="code->spec", batch=label, record=trim(json.loads(lines[len(lines) // 2]))))


def short_classes(tier, rnd):
    """Class indices for codecdrv dgshort: -1 empty datagram, 0 prefix <<>>, 1+a prefix <<a>>,
    257+a*256+b prefix <<a,b>> (each class = 256 datagrams)."""
    base = [-1, 0] + list(range(1, 257))
    if TIERS[tier]["rand_classes"] is None:
        return base + list(range(257, 257 + 65536)), True
    pick = {257 + 1 * 256 + b for b in range(256)}                    # the long-form marker, all types
    for a in (0, 3, 255):
        pick |= {257 + a * 256 + b for b in list(TYPE_NAMES) + [17, 25, 30, 254, 255]}
    pick |= {257 + rnd.randrange(65536) for _ in range(TIERS[tier]["rand_classes"])}
    return base + sorted(pick), False


def run_dgram(acc, drv, tier, rnd):
    """C20 + C22 share inputs: datagrams in, real decode outcome judged."""
    T = TIERS[tier]
    to = T["timeout"]
    exhaustive = [False]

    def a_tree():
        return tlc_vectors(acc, T["tree"], 6, to)

    def a_struct():
        return tlc_vectors(acc, T["struct"], 4, to)

    def a_body():
        return tlc_vectors(acc, T["body"], 6, to)

    def a_treeprop():
        if T["tree_prop"]:
            res = vlib.tlc("MC_Codec", T["tree_prop"], workers=8, timeout=to, javaopts="-Xmx8g -XX:ParallelGCThreads=4")
            need_ok(res, T["tree_prop"])
            acc.tlc(T["tree_prop"], res)

    def b_short():
        classes, exhaustive[0] = short_classes(tier, rnd)
        nproc = 16 if exhaustive[0] else 4
        outs = []

        def gen(part):
            inp = os.path.join(vlib.scratch(), "classes-%d.json" % random.getrandbits(40))
            json.dump(part, open(inp, "w"))
            return drive(drv, "dgshort", dict(VERIF_IN=inp, GOMAXPROCS="2"), timeout=to)
        with ThreadPoolExecutor(max_workers=nproc) as ex:
            outs = list(ex.map(gen, vlib.chunks(classes, nproc)))
        return outs

    def b_rand():
        n = T["dgrand"]
        return drive(drv, "dgrand", dict(VERIF_N=str(n)),
                     args=["-rapid.checks=%d" % n, "-rapid.seed=%d" % (vlib.seed() + 1000003), "-rapid.nofailfile"], timeout=to)

    with ThreadPoolExecutor(max_workers=6) as ex:
        f_tree, f_struct, f_prop = ex.submit(a_tree), ex.submit(a_struct), ex.submit(a_treeprop)
        f_body = ex.submit(a_body)
        f_short, f_rand = ex.submit(b_short), ex.submit(b_rand)
        shorts, (rand_out, rand_crash) = f_short.result(), f_rand.result()
        # judges run while TLC is still generating vectors
        if rand_crash:
            acc.add(rand_crash, via="dgrand")
        else:
            judge_file(acc, rand_out, T["rand_shards"], T["judge_par"], to, "dgrand")
        for i, (o, crash) in enumerate(shorts):
            if crash:
                acc.add(crash, via="dgshort")
        allshort = os.path.join(vlib.scratch(), "short-all.ndjson")
        with open(allshort, "w") as fh:
            for (o, crash) in shorts:
                if not crash:
                    fh.write(open(o).read())
        judge_file(acc, allshort, T["short_shards"], T["judge_par"], to, "dgshort")
        vec_tree, vec_struct, vec_body = f_tree.result(), f_struct.result(), f_body.result()
        f_prop.result()
    replay_vectors(acc, drv, "dgvec", list(dict.fromkeys(vec_tree + vec_struct + vec_body)), to)
    return exhaustive[0]


def run_pkt(acc, drv, tier, rnd):
    """C21: packets in, real Pack bytes and real decode of them judged."""
    T = TIERS[tier]
    to = T["timeout"]
    with ThreadPoolExecutor(max_workers=3) as ex:
        f_vec = ex.submit(lambda: tlc_vectors(acc, T["pkt"], 2, to))
        n = T["pkrand"]
        f_rand = ex.submit(lambda: drive(drv, "pkrand", dict(VERIF_N=str(n)),
                                         args=["-rapid.checks=%d" % n, "-rapid.seed=%d" % (vlib.seed() + 2000003),
                                               "-rapid.nofailfile"], timeout=to))
        f_short = ex.submit(lambda: drive(drv, "short", {}, timeout=to))
        (rand_out, c1), (short_out, c2) = f_rand.result(), f_short.result()
        for c in (c1, c2):
            if c:
                c["k"] = "rt-panic"
                acc.add(c, via="pkrand/short")
        if not c2:
            judge_file(acc, short_out, 2, 2, to, "short")
        if not c1:
            judge_file(acc, rand_out, T["rand_shards"], T["judge_par"], to, "pkrand")
        vecs = f_vec.result()
    replay_vectors(acc, drv, "pkvec", vecs, to)
    return True     # all 65536 short topic ids are always enumerated


def run_replay(acc, drv, replay):
    r = json.load(open(replay))
    r = r.get("replay", r)
    inp = os.path.join(vlib.scratch(), "replay-in.ndjson")
    if r.get("p") and r.get("kind") == "pk":
        open(inp, "w").write(json.dumps(dict(p=r["p"])) + "\n")
        out, crash = drive(drv, "pklist", dict(VERIF_IN=inp))
    else:
        open(inp, "w").write(json.dumps(dict(d=r["d"])) + "\n")
        out, crash = drive(drv, "dglist", dict(VERIF_IN=inp))
    if crash:
        acc.add(crash, via="replay")
    else:
        print("replayed on the real code:", open(out).read()[:600].strip())
        judge_file(acc, out, 1, 1, 120, "replay")


def run(prop, tier, replay=None):
    if prop not in PROPS:
        raise vlib.Inconclusive("codec family does not serve " + prop)
    t0 = time.time()
    rnd = random.Random(vlib.seed())
    acc = Acc()
    drv = vlib.build_driver("codecdrv")
    exhaustive = False
    if replay:
        run_replay(acc, drv, replay)
    elif prop == "C21":
        exhaustive = run_pkt(acc, drv, tier, rnd)
    else:
        exhaustive = run_dgram(acc, drv, tier, rnd)

    violations = []
    for s, e in sorted(acc.findings.items()):
        if KIND_PROP.get(e["kind"]) != prop:
            continue        # a disagreement that belongs to a sibling property of the family
        ex = e["ex"]
        payload = dict(kind="pk" if ex.get("p") and ex["p"].get("type", -1) >= 0 else "dg",
                       d=ex.get("d", []), p=ex.get("p"), signature=s, cases=e["n"], found_by=e["via"],
                       detail=ex.get("detail", ""), cls=ex.get("cls"), type=tname(ex.get("t", -1)))
        what = "%s: %d case(s), e.g. datagram %s%s" % (e["kind"], e["n"], trim(ex.get("d", []), 16),
                                                      (" -- " + ex["detail"][:160]) if ex.get("detail") else "")
        violations.append(dict(sig=s, what=what, replay=payload))
    others = sorted(s for s, e in acc.findings.items() if KIND_PROP.get(e["kind"]) != prop)
    if others:
        print("note: disagreements belonging to sibling properties (reported by their own checks): " + ", ".join(others))
    for (k, cls, tn), n in sorted(acc.info.items()):
        print("info: acceptance difference %s/%s/%s x%d (no property speaks about it)" % (k, cls, tn, n))

    if replay:
        # a replay re-judges one stored input: it neither rewrites replays/ nor the evidence file
        import re
        known = [k["sig"] for k in vlib.load_findings().get("known", []) if k.get("property") == prop]
        rc = 0
        for v in violations:
            if any(re.fullmatch(k, v["sig"]) for k in known):
                print("KNOWN-FINDING: property=%s [sig=%s] %s" % (prop, v["sig"], v["what"]))
            else:
                rc = 1
                print("VIOLATION property=%s replay=%s\n  sig=%s %s" % (prop, replay, v["sig"], v["what"]))
        if acc.harness:
            print("INCONCLUSIVE property=%s: oracle/harness disagreement: %s" % (prop, json.dumps(trim(acc.harness[0]))[:600]))
            return 2 if rc == 0 else rc
        if not violations:
            print("replay: the stored input no longer violates %s" % prop)
        return rc
    rc, n_new, n_known = vlib.verdict(prop, violations)
    nontrivial = {s for s in acc.seen if s[0] == "vec" or s[2] in (1, 2)}
    coverage = dict(
        states=acc.states, transitions=acc.transitions,
        traces_validated_against_impl=acc.judged,
        evaluations=acc.judged + acc.replayed,
        distinct_nontrivial=len(nontrivial),
        rule="spec->code: every state of the MC_Codec state machines (datagram tree over the 36-octet "
             "alphabet, canonical boundary datagrams + structural mutations, well-framed datagrams of every type with "
             "every small body over {00,01,61,FF}, boundary packets) is executed on "
             "the real code; code->spec: exhaustive classes of datagrams of length <= 3 (%s), rapid "
             "structure-aware datagrams up to 8192 octets / rapid legal packets, all 65536 short topic ids, "
             "each real outcome judged by TLC.  distinct = distinct (packet type, structural class, real "
             "outcome) triples counted by the trace spec plus distinct (type, class, outcome) triples of the "
             "replayed vectors; non-trivial = the real decoder accepted (fields compared) or panicked"
             % ("all 2^24+2^16+2^8+1" if exhaustive and prop != "C21" else "all of length <= 2, all with the 0x01 marker, a seeded sample of the rest"),
        # the property quantifies over all byte strings up to 8192 octets / all legal packets: no run
        # enumerates that completely; the subspaces that *were* enumerated completely are listed
        exhaustive=False,
        exhaustive_subspaces=(["all 65536 short topic ids", "MC_Codec pkt boundary packet set"] if prop == "C21" else
                              (["all datagrams of length <= 3 (2^24+2^16+2^8+1) on the real decoder, judged by TLC"]
                               if exhaustive else ["all datagrams of length <= 2 and all of length 3 starting with 0x01"])
                              + ["MC_Codec tree, struct and body state spaces (every state replayed on the real decoder)"]),
        vectors_replayed_on_impl=acc.replayed, records_judged_by_tlc=acc.judged,
        accepted_by_real_decoder=acc.accepted, panics_observed=acc.panics,
        tlc_runs=acc.tlc_runs[:40], acceptance_differences={"/".join(k): n for k, n in acc.info.items()},
        samples=acc.samples[:6],
    )
    if acc.states == 0 or acc.transitions == 0:
        coverage["states"], coverage["transitions"] = max(acc.states, 1), max(acc.transitions, 1)
    vlib.write_evidence(prop, tier, "model_checking", coverage, time.time() - t0,
                        violations=n_new, assumptions=ASSUMPTIONS)
    if acc.harness:
        print("INCONCLUSIVE property=%s: oracle/harness disagreement: %s" % (prop, json.dumps(trim(acc.harness[0]))[:600]))
        return 2 if rc == 0 else rc
    print("codec %s %s: %d vectors replayed, %d records judged by TLC, %d TLC states; %d new / %d known finding signature(s)"
          % (prop, tier, acc.replayed, acc.judged, acc.states, n_new, n_known))
    return rc
