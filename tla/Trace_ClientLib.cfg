INIT TInit
NEXT TNext
POSTCONDITION Post
CONSTANTS
  Dev = {}
  CfgRD = 2
  CfgRC = 1
  CfgCT = 3
  CfgKA = 0
  GenApis = {}
  GenGw = {}
  GenMids = {}
  MaxEv = 0
  MaxCalls = 0
