SPECIFICATION Spec
CONSTANTS
  N = 4
  Cmds <- CmdsDef
  Atomic = FALSE
INVARIANT Prop_C11
CHECK_DEADLOCK FALSE
