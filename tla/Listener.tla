------------------------------ MODULE Listener ------------------------------
(***************************************************************************)
(* The gateway's accept loop (gateway/gateway.go ListenAndServe): the UDP  *)
(* listener demultiplexes datagrams by peer address; the first datagram of *)
(* an address without a live session creates a handler, which dials its    *)
(* own TCP connection to the broker before it looks at the packet; when a  *)
(* session ends (DISCONNECT, illegal packet) its broker connection and its *)
(* listener entry go away and the next datagram of that address starts a   *)
(* fresh session.                                                          *)
(*                                                                         *)
(* Property C15 at this level: each peer address gets its own session and  *)
(* its own broker connection, and nothing a peer does shows up on another  *)
(* peer's socket or broker connection.                                     *)
(*                                                                         *)
(* State: live[p] (p has a session), conn[p] (index of its broker          *)
(* connection in accept order, 0 = none), active[p] (CONNECT accepted),    *)
(* nconn (connections accepted so far), gen[p] (CONNECTs sent by p: the    *)
(* client ID of the k-th is "peer<p>-<k>").                                *)
(* Events: [t, p, k] with t in Connect, Publish (QoS 0, short topic,       *)
(* payload tag k), Ping, Disconnect, Junk (reserved packet type).          *)
(***************************************************************************)
EXTENDS Integers, Sequences, FiniteSets, TLC

CONSTANT NPeers
Peers == 1..NPeers

Init0 == [live |-> [p \in Peers |-> FALSE], active |-> [p \in Peers |-> FALSE],
          conn |-> [p \in Peers |-> 0], gen |-> [p \in Peers |-> 0], nconn |-> 0]

(* a datagram of a peer without a session creates the session and its broker connection *)
Ensure(s, p) ==
    IF s.live[p] THEN s
    ELSE [s EXCEPT !.live[p] = TRUE, !.conn[p] = s.nconn + 1, !.nconn = s.nconn + 1]

EndSession(s, p) == [s EXCEPT !.live[p] = FALSE, !.active[p] = FALSE, !.conn[p] = 0]

Step(s, e) ==
    LET p == e.p
        s1 == Ensure(s, p)
    IN CASE e.t = "Connect" -> [s1 EXCEPT !.active[p] = TRUE, !.gen[p] = @ + 1]
         [] e.t \in {"Publish", "Ping"} -> IF s1.active[p] THEN s1 ELSE EndSession(s1, p)
         [] e.t \in {"Disconnect", "Junk"} -> EndSession(s1, p)
         [] OTHER -> s1

(* what the step must look like from outside; o = the driver's record of the step *)
Tag(c, d) == "C15/listener-" \o c \o "/" \o d
TagsIf(c, t) == IF c THEN {t} ELSE {}
Rng(f) == {f[i] : i \in DOMAIN f}

CidOf(p, k) == "peer" \o ToString(p) \o "-" \o ToString(k)

Check(s, e, o, s2) ==
    LET p == e.p
        mine == IF s.live[p] THEN s.conn[p] ELSE s.nconn + 1      \* the connection this event may touch
        fresh == ~s.live[p]
        tr == Rng(o.traffic)
        onMine(t) == {x \in tr : x.conn = mine /\ x.t = t}
        d == e.t
    IN  \* one connection per session, and only when a session starts
        TagsIf(fresh /\ Rng(o.newconns) # {mine}, Tag("connection-count", d))
        \cup TagsIf(~fresh /\ o.newconns # <<>>, Tag("extra-connection", d))
        \* isolation: the other peers' connections and sockets see nothing
        \cup TagsIf(\E x \in tr : x.conn # mine, Tag("traffic-on-foreign-connection", d))
        \cup TagsIf(\E c \in Rng(o.closed) : c # mine, Tag("foreign-connection-closed", d))
        \cup TagsIf(\E r \in Rng(o.replies) : r.p # p, Tag("reply-to-foreign-peer", d))
        \* the event's own effect
        \cup (CASE e.t = "Connect" ->
                   TagsIf({x.cid : x \in onMine("CONNECT")} # {CidOf(p, s2.gen[p])}, Tag("connect-not-forwarded", d))
                   \cup TagsIf(~\E r \in Rng(o.replies) : r.t = "CONNACK", Tag("no-connack", d))
                   \cup TagsIf(mine \in Rng(o.closed), Tag("session-ended", d))
                [] e.t = "Publish" /\ s.active[p] ->
                   TagsIf({x.pl : x \in onMine("PUBLISH")} # {"m-" \o ToString(p) \o "-" \o ToString(e.k)}, Tag("publish-not-routed", d))
                   \cup TagsIf(mine \in Rng(o.closed), Tag("session-ended", d))
                [] e.t = "Ping" /\ s.active[p] ->
                   TagsIf(onMine("PINGREQ") = {}, Tag("ping-not-forwarded", d))
                   \cup TagsIf(mine \in Rng(o.closed), Tag("session-ended", d))
                [] e.t = "Disconnect" /\ s.active[p] ->
                   TagsIf(onMine("DISCONNECT") = {}, Tag("disconnect-not-forwarded", d))
                   \cup TagsIf(mine \notin Rng(o.closed), Tag("connection-left-open", d))
                [] OTHER ->
                   \* the session ends without having been active, or by an illegal packet
                   TagsIf(~s2.live[p] /\ mine \notin Rng(o.closed), Tag("connection-left-open", d))
                   \cup TagsIf(~s.active[p] /\ onMine("PUBLISH") # {}, Tag("publish-without-session", d)))
=============================================================================
