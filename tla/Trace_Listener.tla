--------------------------- MODULE Trace_Listener ---------------------------
(***************************************************************************)
(* Trace validation for the listener model: every line of trace.ndjson is  *)
(* one event executed by harness/lsndrv on the real gateway.Gateway over   *)
(* loopback sockets together with what all peer sockets and all broker     *)
(* connections saw during that step.  The model consumes the event; the    *)
(* observation is judged by Listener!Check.  A trace starts at i = 1.      *)
(* After the first violation in a trace the rest of it is skipped.         *)
(***************************************************************************)
EXTENDS Listener, Json

Trace == ndJsonDeserialize("trace.ndjson")

VARIABLES s, l, viol, skip, stat, cover
vars == <<s, l, viol, skip, stat, cover>>

Init == /\ s = Init0 /\ l = 1 /\ viol = {} /\ skip = FALSE
        /\ stat = [lines |-> 0, checked |-> 0, traces |-> 0, skipped |-> 0, setup |-> 0, timeouts |-> 0]
        /\ cover = {}

Consume ==
    /\ l <= Len(Trace)
    /\ LET ln == Trace[l]
           first == ln.i <= 1
           st == IF first THEN Init0 ELSE s
       IN /\ l' = l + 1
          /\ IF ln.ev.t = "Setup" THEN
                \* the driver could not start the gateway / the sockets: nothing to judge
                /\ stat' = [stat EXCEPT !.lines = @ + 1, !.setup = @ + 1]
                /\ skip' = TRUE /\ UNCHANGED <<s, viol, cover>>
             ELSE IF skip /\ ~first THEN
                /\ stat' = [stat EXCEPT !.lines = @ + 1, !.skipped = @ + 1]
                /\ UNCHANGED <<s, viol, skip, cover>>
             ELSE
                \E s2 \in {Step(st, ln.ev)} :
                \E mine \in {Check(st, ln.ev, ln, s2)} :
                   /\ s' = s2
                   /\ viol' = viol \cup {[tr |-> ln.tr, i |-> ln.i, tag |-> t] : t \in mine}
                   /\ skip' = (mine # {})
                   /\ stat' = [stat EXCEPT !.lines = @ + 1, !.checked = @ + 1,
                                           !.traces = @ + (IF first THEN 1 ELSE 0),
                                           !.timeouts = @ + (IF ln.timeout THEN 1 ELSE 0)]
                   /\ cover' = cover \cup {ln.ev.t \o (IF st.live[ln.ev.p] THEN "/live" ELSE "/fresh") \o "/others-"
                                           \o ToString(Cardinality({q \in Peers : q # ln.ev.p /\ st.live[q]}))}
    /\ (l = Len(Trace)) => PrintT("RESULT:" \o ToJson([viol |-> viol', stat |-> stat', cover |-> cover']))

Spec == Init /\ [][Consume]_vars
=============================================================================
