---------------------------- MODULE Lin_TxStore -----------------------------
(***************************************************************************)
(* Concurrent histories of the real transactions.TransactionStore          *)
(* ("lin_txstore.ndjson", format in LinCore.tla) must be linearizable      *)
(* w.r.t. TxStore.tla.  See Lin_IdSeq.tla for the protocol.                *)
(***************************************************************************)
EXTENDS TxStore, LinCore

VARIABLES h, done

Hist == ndJsonDeserialize("lin_txstore.ndjson")

LInit == \E x \in 1..Len(Hist) : h = x /\ done = {} /\ InitStore /\ hist = <<>>

Lin(o) == /\ Do(Op(o.op, o.k, o.v))
          /\ ret' = [found |-> o.found, v |-> o.rv]
          /\ hist' = Append(hist, Op(o.op, o.k, o.v))
          /\ done' = done \cup {o.id}
          /\ UNCHANGED h

LNext == \E o \in Minimal(Hist[h], done) :
            /\ Lin(o)
            /\ Complete(Hist[h], done') => PrintT("LIN:" \o ToString(Hist[h].hid))

Conf_Spec == Prop_C29_Store
=============================================================================
