INIT InitConnected
NEXT Next
VIEW View
CONSTANTS
  Dev = {}
  CfgRD = 2
  CfgRC = 1
  CfgCT = 3
  CfgKA = 5
  GenApis <- Apis_C33w
  GenGw <- Gw_C33w
  GenMids = {1, 2, 9}
  MaxEv = 10
  MaxCalls = 6
INVARIANTS Prop_All TypeOK
