---------------------------- MODULE MC_ClientLib ----------------------------
(* Alphabets and initial states of the bounded model-checking / schedule   *)
(* generating configurations of ClientLib (one cfg per property family).   *)
EXTENDS ClientLib

A0 == [api |-> "", call |-> "", mid |-> 0, any |-> FALSE, tl |-> <<>>, short |-> FALSE, stid |-> 0, qos |-> 0, tid |-> 0,
       dur |-> 0, dsec |-> 0, h |-> "", pl |-> "s:p1"]
G0 == [t |-> "", qos |-> 0, tit |-> 0, tid |-> 0, mid |-> 0, rc |-> 0, tl |-> <<>>, data |-> "s:m1",
       dup |-> FALSE, midsrc |-> "none"]

AB == <<"a", "b">>
AC == <<"a", "c">>

Api(n)            == [A0 EXCEPT !.api = n]
ApiT(n, tl, q, h) == [A0 EXCEPT !.api = n, !.tl = tl, !.qos = q, !.h = h]
ApiP(n, tid, q, h) == [A0 EXCEPT !.api = n, !.tid = tid, !.qos = q, !.h = h]
SleepApi(d)       == [A0 EXCEPT !.api = "Sleep", !.dur = d, !.dsec = d \div 10]
Gw(t, src)        == [G0 EXCEPT !.t = t, !.midsrc = src]
GwRc(t, src, rc)  == [G0 EXCEPT !.t = t, !.midsrc = src, !.rc = rc]
GwAck(t, src, tid) == [G0 EXCEPT !.t = t, !.midsrc = src, !.tid = tid]
GwPub(q, tit, tid, tl, src) == [G0 EXCEPT !.t = "PUBLISH", !.qos = q, !.tit = tit, !.tid = tid, !.tl = tl, !.midsrc = src]
GwReg(tl, tid)    == [G0 EXCEPT !.t = "REGISTER", !.tl = tl, !.tid = tid, !.midsrc = "any"]

(* initial state "connected, a/b registered as 7" reached through the real *)
(* steps so that emitted schedules start from a fresh client               *)
Pre == << [e |-> "api", a |-> [Api("Connect") EXCEPT !.call = "c0"]],
          [e |-> "gw",  p |-> Gw("CONNACK", "none"), ref |-> ""],
          [e |-> "api", a |-> [ApiT("Register", AB, 0, "") EXCEPT !.call = "c1"]],
          [e |-> "gw",  p |-> [GwAck("REGACK", "pend", 7) EXCEPT !.mid = 1], ref |-> "c1"] >>

RECURSIVE Run(_, _)
Run(st, evs) ==
    IF Len(evs) = 0 THEN st
    ELSE LET e == Head(evs)
             r == IF e.e = "api" THEN DoApi([st EXCEPT !.ncall = @ + 1], e.a) ELSE DoGw(st, e.p)
         IN Run(r.s, Tail(evs))

InitActive == /\ s = Run(InitState(Cfg0), Pre)
              /\ obs = Obs0
              /\ ok = "ok"
              /\ hist = Pre

PreC == SubSeq(Pre, 1, 2)
InitConnected == /\ s = Run(InitState(Cfg0), PreC)
                 /\ obs = Obs0
                 /\ ok = "ok"
                 /\ hist = PreC

(* connected, a/b registered as 7, the parent level "a" registered by the gateway as 9, subscribed to
   a/+ (h1): unsubscribe / re-subscribe histories; deliveries on a/b and on "a" - a topic that is a
   proper level-prefix of the filters a/+ and a/b and is matched by a/# (multi-level wildcard
   includes the parent level) *)
A1 == <<"a">>
PreS == Pre \o << [e |-> "gw",  p |-> [GwReg(A1, 9) EXCEPT !.mid = 9], ref |-> ""],
                  [e |-> "api", a |-> [ApiT("Subscribe", <<"a", "+">>, 0, "h1") EXCEPT !.call = "c2"]],
                  [e |-> "gw",  p |-> [GwAck("SUBACK", "pend", 0) EXCEPT !.mid = 2], ref |-> "c2"] >>
InitSubscribed == /\ s = Run(InitState(Cfg0), PreS)
                  /\ obs = Obs0
                  /\ ok = "ok"
                  /\ hist = PreS
Apis_C27u == {ApiT("Unsubscribe", <<"a", "+">>, 0, ""), ApiT("Subscribe", <<"a", "+">>, 1, "h6"), ApiT("Subscribe", AB, 1, "h2"),
              ApiT("Unsubscribe", AB, 0, ""), ApiT("Subscribe", <<"a", "#">>, 0, "h7")}
Gw_C27u == {Gw("UNSUBACK", "pend"), GwAck("SUBACK", "pend", 0), GwRc("SUBACK", "pend", 1),
            GwPub(0, 0, 7, <<>>, "none"), GwPub(1, 0, 7, <<>>, "gw"), GwPub(2, 0, 7, <<>>, "gw"), Gw("PUBREL", "gw"),
            GwPub(0, 0, 9, <<>>, "none")}

(* C27q: as above with an inbound QoS 2 exchange open (PUBLISH on a/b received, PUBREC sent): the
   subscriptions change - Subscribe / Unsubscribe with their acknowledgements - before the PUBREL; the
   handlers are those at delivery time, i.e. at PUBREL *)
PreQ == PreS \o << [e |-> "gw", p |-> [GwPub(2, 0, 7, <<>>, "any") EXCEPT !.mid = 5], ref |-> ""] >>
InitOpenQos2 == /\ s = Run(InitState(Cfg0), PreQ)
                /\ obs = Obs0
                /\ ok = "ok"
                /\ hist = PreQ
Apis_C27q == {ApiT("Unsubscribe", <<"a", "+">>, 0, ""), ApiT("Subscribe", <<"a", "+">>, 1, "h6"), ApiT("Subscribe", AB, 1, "h2")}
Gw_C27q == {Gw("UNSUBACK", "pend"), GwAck("SUBACK", "pend", 0), Gw("PUBREL", "gw")}

(* C27w: an inbound QoS 2 exchange that is half done across a state change: subscribed, asleep, wake-up, the
   gateway delivers a QoS 2 PUBLISH (PUBREC sent), the client reconnects (Connect from awake) or sleeps again, the
   PUBREL follows: delivery at PUBREL whatever happened in between; every schedule executed *)
Apis_C27w == {SleepApi(10), Api("Connect")}
Gw_C27w == {Gw("DISCONNECT", "none"), Gw("PINGRESP", "none"), Gw("CONNACK", "none"), GwPub(2, 0, 7, <<>>, "gw"), Gw("PUBREL", "gw")}

---- (* C17: publish / subscribe / register under loss, duplication, late and foreign acks *)
Apis_C17 == {ApiT("Publish", AB, 1, ""), ApiT("Publish", AB, 2, ""), ApiT("Publish", AB, 0, ""),
             ApiT("Subscribe", AB, 1, "h1"), ApiT("Register", AC, 0, ""), ApiT("Unsubscribe", AB, 0, "")}
Gw_C17 == {GwAck("PUBACK", "any", 7), Gw("PUBREC", "any"), Gw("PUBCOMP", "any"), GwAck("SUBACK", "pend", 7),
           GwAck("REGACK", "pend", 8), Gw("UNSUBACK", "pend"),
           GwPub(2, 0, 7, <<>>, "any"), Gw("PUBREL", "any"), Gw("DISCONNECT", "none")}

(* C17x: client exchanges and gateway-initiated QoS 2 exchanges with coinciding message IDs, with the
   acknowledgements of both (small alphabet: every schedule is executed) *)
Apis_C17x == {ApiT("Publish", AB, 1, ""), ApiT("Publish", AB, 2, "")}
Gw_C17x == {GwPub(2, 0, 7, <<>>, "any"), Gw("PUBREL", "any"), GwAck("PUBACK", "pend", 7), Gw("PUBREC", "pend"), Gw("PUBCOMP", "pend")}

---- (* C27: subscribe / unsubscribe histories and deliveries *)
Apis_C27 == {ApiT("Subscribe", <<"a", "+">>, 0, "h1"), ApiT("Subscribe", AB, 1, "h2"), ApiT("Subscribe", <<"#">>, 2, "h3"),
             ApiT("Unsubscribe", <<"a", "+">>, 0, ""), ApiT("Unsubscribe", AB, 0, ""),
             ApiP("SubscribePredefined", 1, 0, "h4"), ApiP("UnsubscribePredefined", 1, 0, ""),
             [ApiT("Subscribe", <<"xy">>, 0, "h5") EXCEPT !.short = TRUE, !.stid = 30841]}
Gw_C27 == {GwAck("SUBACK", "pend", 0), GwAck("SUBACK", "pend", 7), Gw("UNSUBACK", "pend"),
           GwPub(0, 0, 7, <<>>, "none"), GwPub(1, 0, 7, <<>>, "any"), GwPub(2, 0, 7, <<>>, "any"), Gw("PUBREL", "any"),
           GwReg(AC, 8), GwPub(0, 0, 8, <<>>, "none"),
           GwPub(0, 1, 1, <<>>, "none"), GwPub(0, 2, 30841, <<"xy">>, "none"), GwPub(0, 2, 25444, <<"cd">>, "none")}

---- (* C28: every call against silence, refusals, foreign and unexpected packets, DISCONNECT *)
Apis_C28 == {Api("Connect"), ApiT("Register", AB, 0, ""), ApiT("Subscribe", AB, 1, "h1"), ApiT("Publish", AB, 1, ""),
             ApiT("Publish", <<"xy">>, 2, "") , SleepApi(10), Api("Disconnect"), Api("Close"), Api("Ping")}
Apis_C28s == {IF a.tl = <<"xy">> THEN [a EXCEPT !.short = TRUE, !.stid = 30841] ELSE a : a \in Apis_C28}
Gw_C28 == {Gw("CONNACK", "none"), GwRc("CONNACK", "none", 3), Gw("DISCONNECT", "none"), Gw("PINGRESP", "none"),
           GwRc("REGACK", "any", 2), GwAck("REGACK", "pend", 7), GwRc("SUBACK", "pend", 1), GwAck("PUBACK", "any", 7),
           Gw("PUBREC", "pend"), Gw("ADVERTISE", "none"), GwPub(0, 0, 99, <<>>, "none"),
           Gw("WILLTOPICREQ", "none"), Gw("WILLMSGREQ", "none")}

(* C28r: calls out of place - refused by the library (Sleep while disconnected, Publish of an unregistered topic,
   Publish with an invalid QoS), no-ops (Disconnect while disconnected) and data calls the library sends although
   the client is not active - each followed by ordinary traffic: connect, acknowledgements, a DISCONNECT from the
   gateway.  Every schedule is executed. *)
OutOfPlace(a) == [a EXCEPT !.any = TRUE]
Apis_C28r == {Api("Connect"), OutOfPlace(SleepApi(10)), OutOfPlace(Api("Disconnect")), OutOfPlace(ApiT("Publish", AC, 1, "")),
              OutOfPlace([ApiT("Publish", <<"xy">>, 4, "") EXCEPT !.short = TRUE, !.stid = 30841]),
              OutOfPlace(ApiT("Register", AB, 0, ""))}
Gw_C28r == {Gw("CONNACK", "none"), Gw("DISCONNECT", "none"), GwAck("REGACK", "pend", 7)}

(* C28g: a gateway that refuses again and again (REGACK / SUBACK "congestion" for the exchange of the one data
   call, also after every retransmission); every schedule executed *)
Apis_C28g == {ApiT("Register", AB, 0, ""), ApiT("Subscribe", AB, 1, "h1")}
Gw_C28g == {GwRc("REGACK", "any", 1), GwRc("SUBACK", "any", 1), GwAck("REGACK", "pend", 7)}
(* C33d: KeepAlive shorter than the retry budget of a ping: late PINGRESPs *)
Apis_C33d == {[ApiT("Publish", <<"xy">>, 0, "") EXCEPT !.short = TRUE, !.stid = 30841]}
Gw_C33d == {Gw("PINGRESP", "none")}

---- (* C33: keep-alive against sleep / disconnect / other calls *)
Apis_C33 == {Api("Connect"), SleepApi(10), Api("Disconnect"), Api("Close"),
             [ApiT("Publish", <<"xy">>, 1, "") EXCEPT !.short = TRUE, !.stid = 30841]}
Gw_C33 == {Gw("CONNACK", "none"), Gw("DISCONNECT", "none"), Gw("PINGRESP", "none"), GwAck("PUBACK", "pend", 30841)}

(* C33w: keep-alive across a whole sleep cycle: ping in flight, sleep, wake-up, reconnect, keep-alive again
   (small alphabet, long histories: every schedule is executed) *)
Apis_C33w == {SleepApi(10), Api("Connect")}
Gw_C33w == {Gw("CONNACK", "none"), Gw("DISCONNECT", "none"), Gw("PINGRESP", "none")}

---- (* C16 client half: gateway REGISTER retransmitted / repeated, followed by publishes *)
Apis_C16 == {ApiT("Publish", AB, 1, ""), ApiT("Subscribe", <<"#">>, 0, "h1")}
Gw_C16 == {GwReg(AB, 7), GwReg(AB, 8), GwReg(AC, 8), GwReg(AC, 7), GwPub(0, 0, 7, <<>>, "none"), GwPub(1, 0, 8, <<>>, "any"),
           GwAck("SUBACK", "pend", 0), GwAck("PUBACK", "pend", 7)}

---- (* C06 client half: coinciding message IDs of the two directions *)
Apis_C06 == {ApiT("Publish", AB, 1, ""), ApiT("Publish", AB, 2, ""), ApiT("Subscribe", AB, 1, "h1"), ApiT("Register", AC, 0, "")}
(* C06x: an own exchange (Publish QoS 1 / 2, Subscribe, Register) and a gateway-initiated QoS 2 exchange with the
   coinciding message ID, which may complete (PUBLISH, PUBREL) before, between or after the own acknowledgements;
   small alphabet, every schedule executed *)
Apis_C06x == Apis_C06
Gw_C06x == {GwPub(2, 0, 7, <<>>, "pend"), Gw("PUBREL", "gw"), GwAck("PUBACK", "pend", 7), Gw("PUBREC", "pend"),
            Gw("PUBCOMP", "pend"), GwAck("SUBACK", "pend", 7), GwAck("REGACK", "pend", 8)}
Gw_C06 == {GwPub(2, 0, 7, <<>>, "any"), Gw("PUBREL", "any"), GwAck("PUBACK", "pend", 7), Gw("PUBREC", "pend"),
           Gw("PUBCOMP", "pend"), GwAck("SUBACK", "pend", 7), GwAck("REGACK", "pend", 8)}

=============================================================================
