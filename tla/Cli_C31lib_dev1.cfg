\* non-vacuity: AUTH missing on a retry
CONSTANTS
  FKeys = {"c1", "*"}
  FIds = {1, 2}
  FNames = {"top/x", "top/y"}
  OptClients = {"c1"}
  OptMax = 2
  QClients = {"c1", "c2"}
  RetryCount = 2
  MaxConnects = 2
  Dev = {"NoAuthOnRetry"}
SPECIFICATION SpecLib
VIEW ViewLib
INVARIANTS Prop_C31Lib
