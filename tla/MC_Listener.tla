---------------------------- MODULE MC_Listener ----------------------------
(***************************************************************************)
(* Exploration of the listener model: every sequence of at most MaxEvents  *)
(* events of NPeers peers, peers named in order of first appearance (the   *)
(* peers are interchangeable).  Every behaviour prefix is a schedule for    *)
(* harness/lsndrv (hist is part of the state on purpose: the isolation     *)
(* clauses are about what happens between the events of the other peers,   *)
(* so one test per state transition would not be enough).                  *)
(* Design check: the checks of Listener.tla hold for the observation the   *)
(* model itself predicts.                                                  *)
(***************************************************************************)
EXTENDS Listener, Json

CONSTANTS MaxEvents, Emit

VARIABLES s, hist, bad
vars == <<s, hist, bad>>

Ev(t, p, k) == [t |-> t, p |-> p, k |-> k]
Used == {hist[i].p : i \in DOMAIN hist}
NextPeers == {p \in Peers : p <= Cardinality(Used) + 1}
Events == {Ev(t, p, 0) : t \in {"Connect", "Ping", "Disconnect", "Junk"}, p \in NextPeers}
          \cup {Ev("Publish", p, Len(hist) + 1) : p \in NextPeers}

(* the observation the model predicts *)
SelfObs(st, e, s2) ==
    LET p == e.p
        fresh == ~st.live[p]
        mine == IF fresh THEN st.nconn + 1 ELSE st.conn[p]
        T(t, cid, pl) == [conn |-> mine, t |-> t, cid |-> cid, pl |-> pl]
    IN [newconns |-> IF fresh THEN <<mine>> ELSE <<>>,
        closed |-> IF ~s2.live[p] THEN <<mine>> ELSE <<>>,
        traffic |-> CASE e.t = "Connect" -> <<T("CONNECT", CidOf(p, s2.gen[p]), "")>>
                      [] e.t = "Publish" /\ st.active[p] -> <<T("PUBLISH", "", "m-" \o ToString(p) \o "-" \o ToString(e.k))>>
                      [] e.t = "Ping" /\ st.active[p] -> <<T("PINGREQ", "", "")>>
                      [] e.t = "Disconnect" /\ st.active[p] -> <<T("DISCONNECT", "", "")>>
                      [] OTHER -> <<>>,
        replies |-> CASE e.t = "Connect" -> <<[p |-> p, t |-> "CONNACK"]>>
                      [] e.t = "Ping" /\ st.active[p] -> <<[p |-> p, t |-> "PINGRESP"]>>
                      [] e.t = "Disconnect" /\ st.active[p] -> <<[p |-> p, t |-> "DISCONNECT"]>>
                      [] OTHER -> <<>>]

Init == s = Init0 /\ hist = <<>> /\ bad = {}

Next == /\ Len(hist) < MaxEvents
        /\ \E e \in Events :
              \E s2 \in {Step(s, e)} :
                 /\ s' = s2
                 /\ hist' = Append(hist, e)
                 /\ bad' = Check(s, e, SelfObs(s, e, s2), s2)
                 /\ (Emit => PrintT("SCHED:" \o ToJson([peers |-> NPeers, events |-> hist'])))

Spec == Init /\ [][Next]_vars

DesignOK == bad = {}
(* structure: a connection index belongs to at most one live session; live = active between events *)
TypeOK == /\ \A p, q \in Peers : (p # q /\ s.live[p] /\ s.live[q]) => s.conn[p] # s.conn[q]
          /\ \A p \in Peers : s.live[p] = s.active[p]
          /\ \A p \in Peers : s.live[p] => (s.conn[p] >= 1 /\ s.conn[p] <= s.nconn)
=============================================================================
