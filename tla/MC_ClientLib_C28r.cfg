INIT Init
NEXT Next
VIEW View
CONSTANTS
  Dev = {}
  CfgRD = 2
  CfgRC = 1
  CfgCT = 3
  CfgKA = 0
  GenApis <- Apis_C28r
  GenGw <- Gw_C28r
  GenMids = {1, 2, 9}
  MaxEv = 5
  MaxCalls = 3
INVARIANTS Prop_All TypeOK
