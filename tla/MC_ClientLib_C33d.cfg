INIT InitConnected
NEXT Next
VIEW View
CONSTANTS
  Dev = {}
  CfgRD = 2
  CfgRC = 2
  CfgCT = 3
  CfgKA = 3
  GenApis <- Apis_C33d
  GenGw <- Gw_C33d
  GenMids = {1, 2, 9}
  MaxEv = 9
  MaxCalls = 2
INVARIANTS Prop_All TypeOK
