INIT InitSubscribed
NEXT Next
VIEW View
CONSTANTS
  Dev = {}
  CfgRD = 2
  CfgRC = 1
  CfgCT = 3
  CfgKA = 0
  GenApis <- Apis_C27w
  GenGw <- Gw_C27w
  GenMids = {5}
  MaxEv = 15
  MaxCalls = 7
INVARIANTS Prop_All TypeOK
