---------------------------- MODULE Trace_IdSeq -----------------------------
(***************************************************************************)
(* Sequential conformance of the real util.IDSequence: the driver          *)
(* (harness/atomdrv, TestSeq) creates a sequence for each range and calls  *)
(* Next 2*size+2 times from one goroutine.  "idseq_trace.ndjson": one line *)
(* per run  [min, max, ids: <<..>>, ovfs: <<..>>]  (results in call        *)
(* order).  The spec replays every call through IdSeq!DoNext and compares  *)
(* what the code returned with what the spec returns; the first mismatch   *)
(* of a run is recorded with a signature and the run is abandoned.         *)
(* -workers 1 (TLCSet/TLCGet).                                             *)
(***************************************************************************)
EXTENDS IdSeq, Sequences, Json

VARIABLES run, skip

Runs == ndJsonDeserialize("idseq_trace.ndjson")

Obs(r, j) == [id |-> Runs[r].ids[j], ovf |-> Runs[r].ovfs[j]]

Classify(exp, obs) ==
    IF obs.id # exp.id THEN
        (IF exp.ovf THEN "idseq-seq/wrong-id-after-wrap" ELSE "idseq-seq/wrong-id")
    ELSE IF exp.ovf THEN "idseq-seq/overflow-not-reported-on-wrap"
    ELSE "idseq-seq/overflow-reported-without-wrap"

TInit == /\ run = 1 /\ skip = FALSE
         /\ InitRange(Runs[1].min, Runs[1].max)
         /\ TLCSet(1, 0) /\ TLCSet(2, <<>>)

Call ==
    /\ run <= Len(Runs) /\ ~skip /\ k < Len(Runs[run].ids)
    /\ DoNext
    /\ UNCHANGED run
    /\ LET obs == Obs(run, k + 1) IN
       /\ skip' = (ret' # obs)
       /\ (ret' # obs) =>
            TLCSet(2, Append(TLCGet(2), [run |-> run, min |-> min, max |-> max, call |-> k + 1,
                                         expected |-> ret', observed |-> obs,
                                         sig |-> Classify(ret', obs)]))

NextRun ==
    /\ run <= Len(Runs) /\ (skip \/ k = Len(Runs[run].ids))
    /\ run' = run + 1 /\ skip' = FALSE
    /\ TLCSet(1, run)
    /\ IF run < Len(Runs)
       THEN /\ min' = Runs[run + 1].min /\ max' = Runs[run + 1].max /\ next' = Runs[run + 1].min
            /\ ovf' = FALSE /\ k' = 0 /\ ret' = NoRet /\ cycle' = {} /\ dup' = FALSE
       ELSE UNCHANGED idvars

TNext == Call \/ NextRun

(* the spec itself keeps its contract along every replayed run *)
Conf_Spec == Prop_C29_Seq /\ Prop_C29_NoDupInCycle

Post == /\ PrintT("CONSUMED:" \o ToString(TLCGet(1)))
        /\ PrintT("BAD:" \o ToJson(TLCGet(2)))
=============================================================================
