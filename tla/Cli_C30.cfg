\* C30 on the spec + emission of every configuration (82 files x option lists of length <= 2)
CONSTANTS
  FKeys = {"c1", "*"}
  FIds = {1, 2}
  FNames = {"top/x", "top/y"}
  OptClients = {"c1"}
  OptMax = 2
  QClients = {"c1", "c2"}
  RetryCount = 2
  MaxConnects = 2
  Dev = {}
SPECIFICATION SpecCfg
INVARIANTS Prop_C30 EmitCfg
