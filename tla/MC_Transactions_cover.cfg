\* forced mode with VIEW (history and monitor hidden): one schedule per transition (quick tier)
\* (the check generates its cfgs from families/transactions.py:TIERS; this file mirrors one of them for manual runs:
\*  tlc -deadlock -config MC_Transactions_cover.cfg Transactions)
CONSTANTS
  Kinds = {"base", "retry", "timed"}
  RCs = {0, 1}
  RDs = {1, 2}
  TOs = {0, 1}
  MaxOps = 3
  CbMayFail = TRUE
  Devs = {}
  Forced = TRUE
  Emit = "all"
INIT Init
NEXT Next
INVARIANT TypeOK
INVARIANT Prop_C18
INVARIANT Prop_C19
VIEW View
