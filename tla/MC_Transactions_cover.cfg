\* one schedule per transition of the forced state graph (VIEW hides hist/mon)
CONSTANTS
  Kinds = {"base", "retry", "timed"}
  RCs = {0,1,2}
  RDs = {1,2,3}
  TOs = {0,1,3}
  MaxOps = 3
  CbMayFail = TRUE
  Devs = {}
  Forced = TRUE
  Emit = "all"
INIT Init
NEXT Next
INVARIANT TypeOK
INVARIANT Prop_C18
INVARIANT Prop_C19
VIEW View
