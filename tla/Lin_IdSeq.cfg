CONSTANT Ranges = {}
INIT LInit
NEXT LNext
INVARIANT Conf_Spec
