------------------------- MODULE MC_ClientLibMatch -------------------------
(* C27: the recursive matcher agrees with the closed form of MQTT 3.1.1    *)
(* section 4.7 for all filters and names of <= 3 levels over {a,b,"",+,#}; *)
(* prints the (filter, name, expected) vectors for replay on the client.   *)
EXTENDS ClientLib
ASSUME MatchAgree
ASSUME PrintT("VECS:" \o ToJson(MatchVectors))
ASSUME PrintT("VECSTAT:" \o ToJson([filters |-> Cardinality(AllFilters), names |-> Cardinality(AllNames),
                                    pairs |-> Cardinality(AllFilters) * Cardinality(AllNames),
                                    valid |-> Cardinality(MatchVectors)]))
=============================================================================
