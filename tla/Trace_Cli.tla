----------------------------- MODULE Trace_Cli ------------------------------
(***************************************************************************)
(* Judges what the real binaries / the real client library did (NDJSON     *)
(* written by harness/clidrv, file Trace_Cli.ndjson next to this module)   *)
(* against Cli.tla.  One line = one case:                                  *)
(*                                                                         *)
(*  k = "c30": a configuration (hasfile, file, opts) and the observations  *)
(*      obs[i] = [tool, c, qid, qn, kind, id, n, rc] of all three tools.   *)
(*      Conf_C30: every observation is what Cli!GwObs / PubAdm / SubAdm    *)
(*      predict for EffectiveConfig(file, opts).                           *)
(*  k = "c31": one run of the flag matrix and what was seen first.         *)
(*      Conf_C31: it is Cli!Outcome(run); credentials in clear only with   *)
(*      --insecure.                                                        *)
(*  k = "lib": a Connect()/retry schedule of the client library with the   *)
(*      datagrams sent per step.  Conf_C31 (library half).                 *)
(*                                                                         *)
(* A whole batch is judged in one TLC run: the failures are collected in   *)
(* a TLC register, counted by `viol` (with a signature naming the mechanism: which *)
(* alternative hypothesis explains the deviating observation) and printed  *)
(* as JSON by the POSTCONDITION together with the number of lines          *)
(* consumed.  -workers 1 (TLCSet/TLCGet).                                  *)
(***************************************************************************)
EXTENDS Integers, Sequences, FiniteSets, TLC, Json, SequencesExt

VARIABLES i, viol, st, hist

(* Cli is instantiated for its constant-level operators (tables). *)
C == INSTANCE Cli WITH
        FKeys <- {"c1", "*"}, FIds <- {1, 2}, FNames <- {"top/x", "top/y"},
        OptClients <- {"c1"}, OptMax <- 2, QClients <- {"c1", "c2"},
        RetryCount <- 2, MaxConnects <- 2, Dev <- {}

T == INSTANCE Topics WITH
        Clients <- {"c1", "*"}, Ids <- {1, 2}, Names <- {"top/x", "top/y"},
        QClients <- {}, QIds <- {}, QNames <- {}, Deviations <- {}, OptMax <- 0,
        cfg <- {}, q <- [kind |-> "none", c |-> "", id |-> 0, n |-> ""]

Lines == ndJsonDeserialize("Trace_Cli.ndjson")

Rev(s) == [j \in 1..Len(s) |-> s[Len(s) + 1 - j]]

-----------------------------------------------------------------------------
(* C30 *)

(* Is observation o what a tool working with configuration eff may show? *)
Explains(eff, o) ==
    CASE o.tool = "bisquitt" ->
            C!GwObs(eff, o.c, o.qid) = [kind |-> o.kind, n |-> o.n]
      [] o.tool = "bisquitt-pub" ->
            /\ [kind |-> o.kind, id |-> o.id] \in C!PubAdm(eff, o.c, o.qn)
            /\ o.kind = "reg" => o.n = o.qn
      [] o.tool = "bisquitt-sub" ->
            /\ [kind |-> o.kind, id |-> o.id] \in C!SubAdm(eff, o.c, o.qn)
            /\ o.kind = "str" => o.n = o.qn
      [] OTHER -> FALSE

(* the mechanism behind a deviating observation: first hypothesis that explains it *)
Why30(l, o) ==
    LET file == ToSet(l.file)
        opts == l.opts
    IN
    IF o.kind = "nostart" THEN (IF l.hasfile THEN "file-not-read" ELSE "start-failed")
    ELSE IF o.kind = "predef" /\ o.tool # "bisquitt"
            /\ o.id \in T!ShadowedIds(T!EffectiveConfig(file, opts), o.c, o.qn)
            \* GetTopicID looks at the client's own entries first
            /\ ~\E e \in T!EffectiveConfig(file, opts) : e.c = o.c /\ e.n = o.qn
         THEN "shadowed-star-id"
    ELSE IF l.hasfile /\ Explains(T!EffectiveConfig({}, opts), o) THEN "file-ignored"
    ELSE IF Len(opts) > 0 /\ Explains(T!EffectiveConfig(file, <<>>), o) THEN "options-ignored"
    ELSE IF Len(opts) > 1 /\ Explains(T!EffectiveConfig(file, Rev(opts)), o) THEN "earlier-option-wins"
    ELSE IF Len(opts) > 0 /\ Explains(T!Merge(T!ParseOptions(opts), file), o) THEN "file-overrides-option"
    ELSE IF Len(opts) > 0 /\ Explains(T!EffectiveConfig(file,
                 [j \in 1..Len(opts) |-> [opts[j] EXCEPT !.hasc = TRUE, !.c = IF opts[j].hasc THEN opts[j].c ELSE "-"]]), o)
         THEN "two-field-option-not-for-all-clients"
    ELSE "mapping-mismatch"

Judge30(l) ==
    LET eff == T!EffectiveConfig(ToSet(l.file), l.opts)
        bad == {j \in 1..Len(l.obs) : ~Explains(eff, l.obs[j])}
    IN  {[id |-> l.id, sig |-> "C30/" \o l.obs[j].tool \o "/" \o Why30(l, l.obs[j]),
          n |-> j, obs |-> l.obs[j],
          exp |-> IF l.obs[j].tool = "bisquitt"
                  THEN [gw |-> C!GwObs(eff, l.obs[j].c, l.obs[j].qid), adm |-> {}]
                  ELSE [gw |-> [kind |-> "", n |-> ""],
                        adm |-> IF l.obs[j].tool = "bisquitt-pub" THEN C!PubAdm(eff, l.obs[j].c, l.obs[j].qn)
                                ELSE C!SubAdm(eff, l.obs[j].c, l.obs[j].qn)]]
            : j \in bad}

(* queries whose answer depends on the configuration (for the evidence counts) *)
NonTrivial30(l) ==
    LET eff == T!EffectiveConfig(ToSet(l.file), l.opts)
    IN Cardinality({j \in 1..Len(l.obs) :
            IF l.obs[j].tool = "bisquitt" THEN T!GetName(eff, l.obs[j].c, l.obs[j].qid).found
            ELSE T!GetId(eff, l.obs[j].c, l.obs[j].qn) # {}})

-----------------------------------------------------------------------------
(* C31, command line *)

RunOf(l) == [tool |-> l.tool, cred |-> l.cred, pw |-> l.pw, dtls |-> l.dtls, insec |-> l.insec, empty |-> l.empty]

(* credentials seen (clients) / accepted (gateway) in clear *)
SawPlainCreds(l) == l.obs = "connect-auth" \/ l.plainauth = "accepted"

Why31(l) ==
    LET r == RunOf(l)
        exp == C!Outcome(r)
    IN
    IF SawPlainCreds(l) /\ ~C!Given(r.insec) THEN "plaintext-credentials"
    ELSE IF l.obs = "connect-auth" /\ ~C!HasUser(r) THEN "auth-without-user"
    ELSE IF l.obs = "connect-auth" /\ ~l.authok THEN "auth-wrong-credentials"
    ELSE IF exp = "refused" /\ l.obs # "refused" THEN "not-refused"
    ELSE IF exp # "refused" /\ l.obs = "refused" THEN "refused-although-allowed"
    ELSE IF exp = "connect-auth" /\ l.obs = "connect" THEN "auth-missing"
    ELSE IF exp = "dtls" /\ l.obs \in {"connect", "connect-auth"} THEN "plaintext-instead-of-dtls"
    ELSE IF exp \in {"connect", "connect-auth"} /\ l.obs = "dtls" THEN "dtls-not-requested"
    ELSE IF exp # l.obs THEN "unexpected-" \o l.obs
    ELSE "ok"

(* An empty --user: the property only says that such a client is one       *)
(* "configured without a user" -- refusing (what the tools do) and         *)
(* starting without AUTH are both acceptable; AUTH is not.                 *)
Conf31(l) ==
    IF l.empty /\ l.obs \in {"connect", "dtls"} THEN TRUE ELSE Why31(l) = "ok"

Judge31(l) ==
    IF Conf31(l) THEN {}
    ELSE {[id |-> l.id, sig |-> "C31/" \o l.tool \o "/" \o Why31(l), n |-> 0,
           obs |-> [obs |-> l.obs, plainauth |-> l.plainauth, rc |-> l.rc, wire |-> l.wire],
           exp |-> C!Outcome(RunOf(l))]}

-----------------------------------------------------------------------------
(* C31, library *)

StepBad(user, s) ==     \* a CONNECT of this step not followed by AUTH / an AUTH that should not be
    LET w == s.out IN
    IF user THEN \E j \in 1..Len(w) : w[j] = "CONNECT" /\ ~(j < Len(w) /\ w[j + 1] = "AUTH")
    ELSE "AUTH" \in ToSet(w)

StrayAuth(s) ==
    LET w == s.out IN \E j \in 1..Len(w) : w[j] = "AUTH" /\ ~(j > 1 /\ w[j - 1] = "CONNECT")

WhyLib(l, s) ==
    IF ~l.user THEN "auth-without-user"
    ELSE IF s.e = "connect" THEN "auth-missing-after-connect"
    ELSE IF s.e = "drop" THEN "auth-missing-on-retry"
    ELSE "auth-missing-" \o s.e

JudgeLib(l) ==
    {[id |-> l.id, sig |-> "C31/client/" \o WhyLib(l, l.steps[j]), n |-> j, obs |-> l.steps[j], exp |-> l.expect]
        : j \in {j \in 1..Len(l.steps) : StepBad(l.user, l.steps[j])}}
    \cup {[id |-> l.id, sig |-> "C31/client/auth-not-after-connect", n |-> j, obs |-> l.steps[j], exp |-> l.expect]
        : j \in {j \in 1..Len(l.steps) : l.user /\ StrayAuth(l.steps[j])}}
    \cup (IF l.user /\ ~l.authok
          THEN {[id |-> l.id, sig |-> "C31/client/auth-wrong-credentials", n |-> 0, obs |-> l.steps[1], exp |-> l.expect]}
          ELSE {})

-----------------------------------------------------------------------------

Judge(l) == CASE l.k = "c30" -> Judge30(l)
              [] l.k = "c31" -> Judge31(l)
              [] l.k = "lib" -> JudgeLib(l)
              [] OTHER -> {[id |-> l.id, sig |-> "GAP/unknown-line-kind", n |-> 0, obs |-> l.k, exp |-> ""]}

NonTrivial(l) == CASE l.k = "c30" -> NonTrivial30(l)
                   [] l.k = "c31" -> IF C!Given(l.cred) THEN 1 ELSE 0
                   [] l.k = "lib" -> Cardinality({j \in 1..Len(l.steps) : "CONNECT" \in ToSet(l.steps[j].out)})
                   [] OTHER -> 0

Init == i = 1 /\ viol = 0 /\ st = 0 /\ hist = <<>>
        /\ TLCSet(1, 0) /\ TLCSet(2, <<>>) /\ TLCSet(3, 0)

(* `viol` counts the failures; their descriptions are kept in TLC register 2 *)
(* (a sequence: records of different line kinds are never compared).         *)
Next == /\ i <= Len(Lines)
        /\ LET v == SetToSeq(Judge(Lines[i])) IN
           /\ viol' = viol + Len(v)
           /\ TLCSet(2, TLCGet(2) \o v)
        /\ TLCSet(1, i)
        /\ st' = st + NonTrivial(Lines[i])
        /\ TLCSet(3, st')
        /\ i' = i + 1
        /\ UNCHANGED hist

Spec == Init /\ [][Next]_<<i, viol, st, hist>>

(* always TRUE: reports the verdict of the whole batch *)
Report ==
    PrintT("RESULT:" \o ToJson([consumed |-> TLCGet(1), lines |-> Len(Lines),
                                 nontrivial |-> TLCGet(3), viol |-> TLCGet(2)]))
=============================================================================
