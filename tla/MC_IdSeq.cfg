\* sequential contract of IDSequence on all ranges 0 <= min <= max <= 3 plus (65534,65535)
CONSTANT Ranges <- SmallRanges
INIT Init
NEXT Next
INVARIANTS Prop_C29_Seq Prop_C29_NoDupInCycle Prop_TypeOK
