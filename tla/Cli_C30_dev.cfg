\* non-vacuity: with finding F22 modelled TLC must find a counterexample to Prop_C30
CONSTANTS
  FKeys = {"c1", "*"}
  FIds = {1, 2}
  FNames = {"top/x", "top/y"}
  OptClients = {"c1"}
  OptMax = 2
  QClients = {"c1", "c2"}
  RetryCount = 2
  MaxConnects = 2
  Dev = {"SubFileAsOption"}
SPECIFICATION SpecCfg
INVARIANTS Prop_C30
