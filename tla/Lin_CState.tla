----------------------------- MODULE Lin_CState -----------------------------
(***************************************************************************)
(* Concurrent histories of the real util.ClientState ("lin_cstate.ndjson", *)
(* format in LinCore.tla; ops Set(v) / Get, result value = rv) must be     *)
(* linearizable w.r.t. CState.tla.  See Lin_IdSeq.tla for the protocol.    *)
(***************************************************************************)
EXTENDS CState, LinCore, Json

VARIABLES h, done

Hist == ndJsonDeserialize("lin_cstate.ndjson")

LInit == \E x \in 1..Len(Hist) : h = x /\ done = {} /\ InitState /\ hist = <<>>

Lin(o) == /\ Do(Op(o.op, o.v))
          /\ ret' = [found |-> o.found, v |-> o.rv]
          /\ hist' = Append(hist, Op(o.op, o.v))
          /\ done' = done \cup {o.id}
          /\ UNCHANGED h

LNext == \E o \in Minimal(Hist[h], done) :
            /\ Lin(o)
            /\ Complete(Hist[h], done') => PrintT("LIN:" \o ToString(Hist[h].hid))

Conf_Spec == Prop_C29_State
=============================================================================
