\* free mode: every interleaving at lock granularity, state form of C18 (thorough tier)
\* (the check generates its cfgs from families/transactions.py:TIERS; this file mirrors one of them for manual runs:
\*  tlc -deadlock -config MC_Transactions_free.cfg Transactions)
CONSTANTS
  Kinds = {"base", "retry", "timed"}
  RCs = {0, 1, 2}
  RDs = {1, 2}
  TOs = {0, 1, 2}
  MaxOps = 3
  CbMayFail = TRUE
  Devs = {}
  Forced = FALSE
  Emit = "none"
INIT Init
NEXT Next
INVARIANT TypeOK
INVARIANT Prop_C18
INVARIANT Prop_C19
