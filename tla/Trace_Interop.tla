-------------------------- MODULE Trace_Interop --------------------------
(***************************************************************************)
(* Trace validation for the interoperability family: traces recorded by    *)
(* harness/iodrv (real client library + real gateway session + broker      *)
(* model + fault-injecting link) are judged against Interop.tla.           *)
(* props.json: [props |-> <<"C26">>, budget |-> TRUE/FALSE (faults within  *)
(* the retry budget)].                                                     *)
(***************************************************************************)
EXTENDS Interop, Json

Trace == ndJsonDeserialize("trace.ndjson")
Conf == ndJsonDeserialize("props.json")[1]

VARIABLES s, l, viol, skip, stat, cover
vars == <<s, l, viol, skip, stat, cover>>

Cfg0 == [cid |-> "", rd |-> 10, rc |-> 1, ct |-> 50, ka |-> 20, kaloop |-> FALSE, predef |-> <<>>, will |-> ""]

Init == /\ s = Init0(Cfg0) /\ l = 1 /\ viol = {} /\ skip = FALSE
        /\ stat = [lines |-> 0, checked |-> 0, traces |-> 0, skipped |-> 0]
        /\ cover = {}

Obs(ln) == [rets |-> ln.rets, cbs |-> ln.cbs, link |-> ln.link, brecv |-> ln.brecv, bsent |-> ln.bsent,
            p1 |-> ln.p1, p2 |-> ln.p2, cst |-> ln.cst, gst |-> ln.gst]

CheckOf(p, st, e, o) ==
    CASE p = "C26" -> Check_C26(st, e, o, FALSE, "C26")
      [] p = "C32" -> Check_C26(st, e, o, TRUE, "C32")
      [] p = "C16" -> Check_C16(st, e, o, Conf.budget)
      [] OTHER -> {}

Consume ==
    /\ l <= Len(Trace)
    /\ LET ln == Trace[l]
           ev == ln.ev
       IN /\ l' = l + 1
          /\ IF ev.t = "Reset" THEN
                /\ s' = Init0(ev.cfg) /\ skip' = FALSE
                /\ stat' = [stat EXCEPT !.lines = @ + 1, !.traces = @ + 1]
                /\ UNCHANGED <<viol, cover>>
             ELSE IF skip \/ ev.t \in {"End", "Adv"} THEN
                /\ stat' = [stat EXCEPT !.lines = @ + 1, !.skipped = @ + 1]
                /\ UNCHANGED <<s, viol, skip, cover>>
             ELSE
                \E s2 \in {Step(s, ev)} :
                \E mine \in {UNION {CheckOf(p, s, ev, Obs(ln)) : p \in Range(Conf.props)}} :
                   /\ s' = s2
                   /\ viol' = viol \cup {[tr |-> ln.tr, i |-> ln.i, tag |-> t] : t \in mine}
                   /\ skip' = (mine # {} \/ s2.dead)
                   /\ stat' = [stat EXCEPT !.lines = @ + 1, !.checked = @ + 1]
                   /\ cover' = cover \cup {s.cst \o "/" \o ev.t \o "/" \o ev.api \o "/" \o s2.cst}
    /\ (l = Len(Trace)) => PrintT("RESULT:" \o ToJson([viol |-> viol', stat |-> stat', cover |-> cover']))

Next == Consume
Spec == Init /\ [][Next]_vars
=============================================================================
