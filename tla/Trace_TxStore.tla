--------------------------- MODULE Trace_TxStore ----------------------------
(***************************************************************************)
(* Sequential conformance of the real transactions.TransactionStore.       *)
(* "txstore_trace.ndjson": uniform records [t, op, k, v, found, rv, seq]   *)
(*   t = "reset": a fresh store (start of sequence seq)                    *)
(*   t = "op"   : operation op(k[, v]) executed; Get*/ returned (rv,found) *)
(* Every operation is replayed through TxStore!Do; the result the code     *)
(* returned is compared with ret'.  -workers 1.                            *)
(***************************************************************************)
EXTENDS TxStore

VARIABLES i, skip

Trace == ndJsonDeserialize("txstore_trace.ndjson")

Classify(r, exp, obs) ==
    LET other == IF r.op = "Get" THEN Lookup(byType, r.k) ELSE Lookup(byId, r.k) IN
    IF obs = other /\ other # exp THEN "txstore-seq/" \o r.op \o "-reads-other-key-space"
    ELSE IF exp.found /\ ~obs.found THEN "txstore-seq/" \o r.op \o "-misses-stored-value"
    ELSE IF ~exp.found /\ obs.found THEN "txstore-seq/" \o r.op \o "-finds-absent-key"
    ELSE "txstore-seq/" \o r.op \o "-wrong-value"

TInit == /\ i = 0 /\ skip = FALSE /\ InitStore /\ hist = <<>>
         /\ TLCSet(1, 0) /\ TLCSet(2, <<>>)

TNext ==
    /\ i < Len(Trace)
    /\ i' = i + 1
    /\ TLCSet(1, i + 1)
    /\ LET r == Trace[i + 1] IN
       IF r.t = "reset" THEN
           /\ byId' = Empty /\ byType' = Empty /\ ret' = Void /\ hist' = <<>> /\ skip' = FALSE
       ELSE IF skip THEN UNCHANGED <<txvars, skip>>
       ELSE
           /\ Do(Op(r.op, r.k, r.v))
           /\ hist' = Append(hist, Op(r.op, r.k, r.v))
           /\ LET obs == [found |-> r.found, v |-> r.rv] IN
              /\ skip' = (ret' # obs)
              /\ (ret' # obs) =>
                    TLCSet(2, Append(TLCGet(2), [line |-> i + 1, seq |-> r.seq, ops |-> hist',
                                                 expected |-> ret', observed |-> obs,
                                                 sig |-> Classify(r, ret', obs)]))

(* the spec keeps its own contract along every replayed sequence *)
Conf_Spec == Prop_C29_Store

Post == /\ PrintT("CONSUMED:" \o ToString(TLCGet(1)))
        /\ PrintT("BAD:" \o ToJson(TLCGet(2)))
=============================================================================
