\* non-vacuity: with deviation F12 (the shipped code) TLC must report Prop_C18 violated
\* (the check generates its cfgs from families/transactions.py:TIERS; this file mirrors one of them for manual runs:
\*  tlc -deadlock -config MC_Transactions_devF12.cfg Transactions)
CONSTANTS
  Kinds = {"base", "retry", "timed"}
  RCs = {0, 1}
  RDs = {1}
  TOs = {0, 1}
  MaxOps = 2
  CbMayFail = TRUE
  Devs = {"F12"}
  Forced = TRUE
  Emit = "none"
INIT Init
NEXT Next
INVARIANT Prop_C18
