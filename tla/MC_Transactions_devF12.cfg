\* non-vacuity: shipped finish() must violate Prop_C18
CONSTANTS
  Kinds = {"base", "retry", "timed"}
  RCs = {0,1}
  RDs = {1}
  TOs = {0,1}
  MaxOps = 2
  CbMayFail = TRUE
  Devs = {"F12"}
  Forced = TRUE
  Emit = "none"
INIT Init
NEXT Next
INVARIANT TypeOK
INVARIANT Prop_C18
INVARIANT Prop_C19
