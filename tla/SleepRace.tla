----------------------------- MODULE SleepRace -----------------------------
(***************************************************************************)
(* The one place in handler1 where the two receive loops share data: the   *)
(* MQTT loop sends broker traffic to the client with snSend (state check,  *)
(* then append to pktBuffer or write) while the MQTT-SN loop handles the   *)
(* sleep DISCONNECT, the wake-up PINGREQ (flush, PINGRESP, asleep again)   *)
(* and CONNECT (active, CONNACK, flush).  Property C11 in this window:     *)
(* what the client receives is what a sequential gateway would deliver -   *)
(* every message once, in order, nothing while asleep.                     *)
(*                                                                         *)
(* Atomic = TRUE : critical sections as in the code (sendMutex held).      *)
(* Atomic = FALSE: the unsynchronised variant (state check and append are  *)
(*                 separate steps, the flush loop and the clearing of the  *)
(*                 buffer are separate steps) - TLC finds the lost /       *)
(*                 reordered message; used to show the model can see it.   *)
(* Messages are numbered 1..N; out is the sequence of datagrams the client *)
(* received (D sleep ack, R PINGRESP, A CONNACK, or a message number).      *)
(***************************************************************************)
EXTENDS Integers, Sequences, FiniteSets, TLC

CONSTANTS N, Cmds, Atomic      \* Cmds: sequence of "sleep" | "wake" | "connect" issued by the MQTT-SN side

D == -1
R == -2
A == -3

VARIABLES st, buf, out, i, j, pcM, pcS, snap
vars == <<st, buf, out, i, j, pcM, pcS, snap>>

Init == /\ st = "active" /\ buf = <<>> /\ out = <<>> /\ i = 1 /\ j = 1
        /\ pcM = "idle" /\ pcS = "idle" /\ snap = <<>>

(* MQTT loop: snSend(message i) *)
MSendAtomic ==
    /\ Atomic /\ i <= N /\ pcS = "idle"
    /\ IF st = "asleep" THEN buf' = Append(buf, i) /\ out' = out ELSE out' = Append(out, i) /\ buf' = buf
    /\ i' = i + 1 /\ UNCHANGED <<st, j, pcM, pcS, snap>>
MCheck ==
    /\ ~Atomic /\ i <= N /\ pcM = "idle"
    /\ pcM' = IF st = "asleep" THEN "queue" ELSE "write"
    /\ UNCHANGED <<st, buf, out, i, j, pcS, snap>>
MAct ==
    /\ ~Atomic /\ pcM \in {"queue", "write"}
    /\ IF pcM = "queue" THEN buf' = Append(buf, i) /\ out' = out ELSE out' = Append(out, i) /\ buf' = buf
    /\ i' = i + 1 /\ pcM' = "idle" /\ UNCHANGED <<st, j, pcS, snap>>

(* MQTT-SN loop *)
Cmd == IF j <= Len(Cmds) THEN Cmds[j] ELSE "none"
SSleep ==
    /\ Cmd = "sleep" /\ pcS = "idle" /\ st \in {"active", "asleep"}
    /\ out' = Append(out, D) /\ st' = "asleep" /\ j' = j + 1
    /\ UNCHANGED <<buf, i, pcM, pcS, snap>>
SWakeAtomic ==
    /\ Atomic /\ Cmd = "wake" /\ pcS = "idle"
    /\ IF st = "asleep" THEN out' = (out \o buf) \o <<R>> /\ buf' = <<>> ELSE UNCHANGED <<out, buf>>
    /\ j' = j + 1 /\ UNCHANGED <<st, i, pcM, pcS, snap>>
SConnectAtomic ==
    /\ Atomic /\ Cmd = "connect" /\ pcS = "idle" /\ st = "asleep"
    /\ out' = (out \o <<A>>) \o buf /\ buf' = <<>> /\ st' = "active" /\ j' = j + 1
    /\ UNCHANGED <<i, pcM, pcS, snap>>
(* unsynchronised wake-up: set awake, take the slice, write it, clear, PINGRESP, asleep *)
SWake1 == /\ ~Atomic /\ Cmd = "wake" /\ pcS = "idle" /\ st = "asleep"
          /\ st' = "awake" /\ snap' = buf /\ pcS' = "flush" /\ UNCHANGED <<buf, out, i, j, pcM>>
SWake2 == /\ pcS = "flush" /\ out' = out \o snap /\ pcS' = "clear" /\ UNCHANGED <<st, buf, i, j, pcM, snap>>
SWake3 == /\ pcS = "clear" /\ buf' = <<>> /\ out' = Append(out, R) /\ st' = "asleep" /\ pcS' = "idle" /\ j' = j + 1
          /\ UNCHANGED <<i, pcM, snap>>

Next == MSendAtomic \/ MCheck \/ MAct \/ SSleep \/ SWakeAtomic \/ SConnectAtomic \/ SWake1 \/ SWake2 \/ SWake3
Spec == Init /\ [][Next]_vars

Nums(seq) == SelectSeq(seq, LAMBDA x : x > 0)
(* nothing lost, duplicated or reordered: delivered messages followed by buffered ones are 1..i-1 *)
Prop_C11 == (pcM = "idle" /\ pcS = "idle") => (Nums(out) \o buf = [k \in 1..(i - 1) |-> k])
=============================================================================
