-------------------------------- MODULE Cli ---------------------------------
(***************************************************************************)
(* Command-line level behaviour of the three bisquitt binaries             *)
(*     bisquitt (gateway), bisquitt-pub, bisquitt-sub                      *)
(* as far as properties C30 and C31 talk about it.                         *)
(*                                                                         *)
(* Three small sub-models share the single variable `st` (a record whose   *)
(* shape depends on the sub-model) and the history variable `hist`:        *)
(*                                                                         *)
(*  A. C30  "configuration building": a predefined-topics file (or none)   *)
(*     and a list of --predefined-topic options, applied one by one.       *)
(*     EffectiveConfig and the lookups come from Topics.tla (shared with   *)
(*     C05); this module adds what each *tool* is predicted to show for a  *)
(*     (client,id) / (client,name) query:                                  *)
(*        GwObs, PubAdm, SubAdm                                            *)
(*     and Prop_C30 (all three tools mean the same relation, and that      *)
(*     relation is "file overridden entry by entry by the options, later   *)
(*     options win, entries without client id apply to every client").     *)
(*                                                                         *)
(*  B. C31  "start or refuse": the flag matrix                             *)
(*        {--auth | --user, --password, --dtls, --insecure}                *)
(*          x {absent, flag, env}                                          *)
(*     for each tool, the decision Outcome(s) and what appears on the      *)
(*     (unencrypted) wire afterwards.  Prop_C31: no credentials in clear   *)
(*     unless --insecure was given.                                        *)
(*                                                                         *)
(*  C. C31  client library Connect(): CONNECT[,AUTH] on every attempt,     *)
(*     retries after a timeout, re-connects.  Prop_C31Lib.                 *)
(*                                                                         *)
(* Deviations (DESIGN 2.3) are used to show that the properties are not    *)
(* vacuous: with one of them switched on TLC must find a counterexample.   *)
(*   "SubFileAsOption"  bisquitt-sub hands the file *path* to the option   *)
(*                      parser (finding F22)                               *)
(*   "NoRefuse"         the plaintext check is dropped                     *)
(*   "EnvInsecureIgnored" --insecure is honoured only as a flag, not as    *)
(*                      the environment variable INSECURE                  *)
(*   "NoAuthOnRetry"    Connect() sends AUTH only with the first CONNECT   *)
(*   "AuthAlways"       Connect() sends AUTH also without a user           *)
(***************************************************************************)
EXTENDS Integers, Sequences, FiniteSets, TLC, Json

CONSTANTS
    FKeys,      \* client keys a file may define entries for (contains "*")
    FIds,       \* topic ids used by files and options
    FNames,     \* topic names used by files and options
    OptClients, \* client ids usable in 3-field options
    OptMax,     \* longest option list
    QClients,   \* clients every tool is queried for
    RetryCount, \* library model: retries after the first CONNECT
    MaxConnects,\* library model: number of Connect() calls
    Dev         \* deviations switched on (normally {})

VARIABLES st, hist

vars == <<st, hist>>

(* Topics.tla is instantiated for its constant-level operators only. *)
T == INSTANCE Topics WITH
        Clients <- FKeys, Ids <- FIds, Names <- FNames,
        QClients <- {}, QIds <- {}, QNames <- {},
        Deviations <- {}, OptMax <- 0,
        cfg <- {}, q <- [kind |-> "none", c |-> "", id |-> 0, n |-> ""]

STAR == "*"

Range(s) == {s[i] : i \in 1..Len(s)}

-----------------------------------------------------------------------------
(*                      A.  C30: configurations                            *)

NONE == "-"

(* all files: "no file", and every partial map FKeys x FIds -> FNames *)
EntsOf(f) == {[c |-> s[1], id |-> s[2], n |-> f[s]] : s \in {s \in DOMAIN f : f[s] # NONE}}
Files == {[has |-> FALSE, ents |-> {}]}
         \cup {[has |-> TRUE, ents |-> EntsOf(f)] : f \in [FKeys \X FIds -> FNames \cup {NONE}]}

(* one --predefined-topic option: "c;n;id" (hasc) or "n;id" *)
Options == [hasc : {TRUE}, c : OptClients, n : FNames, id : FIds]
           \cup [hasc : {FALSE}, c : {""}, n : FNames, id : FIds]

OptKey(o) == IF o.hasc THEN o.c ELSE STAR

(* The property text, literally: the mapping is the file's, overridden     *)
(* entry by entry by the options, later options overriding earlier ones;   *)
(* 2-field options define an entry for every client.                       *)
LastFor(opts, c, id) ==
    LET hit == {i \in 1..Len(opts) : OptKey(opts[i]) = c /\ opts[i].id = id}
    IN IF hit = {} THEN 0 ELSE CHOOSE i \in hit : \A j \in hit : j <= i

Declared(file, opts) ==
    LET keys == {e.c : e \in file} \cup {OptKey(opts[i]) : i \in 1..Len(opts)}
        ids  == {e.id : e \in file} \cup {opts[i].id : i \in 1..Len(opts)}
    IN  {[c |-> c, id |-> id, n |-> opts[LastFor(opts, c, id)].n]
            : <<c, id>> \in {p \in keys \X ids : LastFor(opts, p[1], p[2]) > 0}}
        \cup {e \in file : LastFor(opts, e.c, e.id) = 0}

(* What a tool works with after start-up.  ok = FALSE: refuses to start.   *)
ToolConfig(tool, file, opts) ==
    IF tool = "bisquitt-sub" /\ "SubFileAsOption" \in Dev /\ file.has
    THEN [ok |-> FALSE, eff |-> {}]       \* the path is not "c;n;id": parse error
    ELSE [ok |-> TRUE, eff |-> T!EffectiveConfig(file.ents, opts)]

Tools == {"bisquitt", "bisquitt-pub", "bisquitt-sub"}

(* Predicted observations.                                                 *)
(* bisquitt: a client `c` SUBSCRIBEs to predefined id `id`: the broker     *)
(* sees SUBSCRIBE(name), or the session is closed for an unknown id.       *)
GwObs(eff, c, id) ==
    LET g == T!GetName(eff, c, id)
    IN IF g.found THEN [kind |-> "sub", n |-> g.n] ELSE [kind |-> "closed", n |-> ""]

(* bisquitt-pub -i c -t n: PUBLISH with a predefined id -- any id that     *)
(* means n for c (the property leaves the choice free) -- or, if there is  *)
(* none, REGISTER n.                                                       *)
PubAdm(eff, c, n) ==
    IF T!GetId(eff, c, n) = {} THEN {[kind |-> "reg", id |-> 0]}
    ELSE {[kind |-> "predef", id |-> i] : i \in T!GetId(eff, c, n)}

(* bisquitt-sub -i c -t n: SUBSCRIBE predefined id, or SUBSCRIBE by name.  *)
SubAdm(eff, c, n) ==
    IF T!GetId(eff, c, n) = {} THEN {[kind |-> "str", id |-> 0]}
    ELSE {[kind |-> "predef", id |-> i] : i \in T!GetId(eff, c, n)}

(* The (client,id,name) relation each tool's behaviour reveals. *)
RelGw(eff)  == {<<c, i, n>> \in QClients \X FIds \X FNames : GwObs(eff, c, i) = [kind |-> "sub", n |-> n]}
RelPub(eff) == {<<c, i, n>> \in QClients \X FIds \X FNames : [kind |-> "predef", id |-> i] \in PubAdm(eff, c, n)}
RelSub(eff) == {<<c, i, n>> \in QClients \X FIds \X FNames : [kind |-> "predef", id |-> i] \in SubAdm(eff, c, n)}
RelOf(tool, eff) == CASE tool = "bisquitt" -> RelGw(eff)
                      [] tool = "bisquitt-pub" -> RelPub(eff)
                      [] OTHER -> RelSub(eff)

(* the relation the property text prescribes *)
RelDeclared(file, opts) ==
    LET d == Declared(file, opts)
        own(c, i)  == \E e \in d : e.c = c /\ e.id = i
        nm(c, i)   == (CHOOSE e \in d : e.c = c /\ e.id = i).n
    IN {<<c, i, n>> \in QClients \X FIds \X FNames :
           IF own(c, i) THEN nm(c, i) = n ELSE own(STAR, i) /\ nm(STAR, i) = n}

InitCfg == /\ st \in {[file |-> f, opts |-> <<>>, eff |-> f.ents] : f \in Files}
           /\ hist = <<>>

(* options are applied one at a time, left to right *)
AddOption(o) ==
    /\ Len(st.opts) < OptMax
    /\ st' = [st EXCEPT !.opts = Append(@, o),
                        !.eff = T!Add(st.eff, OptKey(o), o.n, o.id)]
    /\ UNCHANGED hist

NextCfg == \E o \in Options : AddOption(o)

SpecCfg == InitCfg /\ [][NextCfg]_vars

Prop_C30 ==
    LET file == st.file.ents
        rel  == RelDeclared(file, st.opts)
    IN
    /\ T!WellFormed(st.eff)
    \* one-at-a-time application = the tools' parse-then-merge = the property text
    /\ st.eff = T!EffectiveConfig(file, st.opts)
    /\ st.eff = Declared(file, st.opts)
    \* every tool starts and reveals exactly the prescribed relation
    /\ \A tool \in Tools :
          LET tc == ToolConfig(tool, st.file, st.opts)
          IN tc.ok /\ RelOf(tool, tc.eff) = rel
    \* "no predefined id" is predicted exactly when no id means the name
    /\ \A c \in QClients, n \in FNames :
          ([kind |-> "reg", id |-> 0] \in PubAdm(st.eff, c, n))
              <=> ~\E i \in FIds : <<c, i, n>> \in rel

(* test-vector emission: one line per configuration *)
OptJson(o) == [hasc |-> o.hasc, c |-> o.c, n |-> o.n, id |-> o.id]
CaseOf(s) ==
    [hasfile |-> s.file.has, file |-> s.file.ents, opts |-> s.opts,
     gw  |-> {[c |-> c, id |-> i, exp |-> GwObs(s.eff, c, i)] : c \in QClients, i \in FIds},
     pub |-> {[c |-> c, n |-> n, adm |-> PubAdm(s.eff, c, n)] : c \in QClients, n \in FNames}]
EmitCfg == PrintT("CASE:" \o ToJson(CaseOf(st)))

-----------------------------------------------------------------------------
(*                      B.  C31: start or refuse                           *)

Src == {"absent", "flag", "env"}
\* boolean options can also be given with an explicit false value (--insecure=false, INSECURE=false):
\* present on the command line / in the environment, but not "given" in the sense of the property
BSrc == Src \cup {"flag0", "env0"}
Given(x) == x \in {"flag", "env"}
ClientTools == {"bisquitt-pub", "bisquitt-sub"}

(* cred: --auth (gateway) / --user (clients); empty: the user given is ""  *)
Runs == {r \in [tool : Tools, cred : BSrc, pw : Src, dtls : BSrc, insec : BSrc, empty : BOOLEAN] :
            /\ r.empty => (r.tool \in ClientTools /\ Given(r.cred))
            /\ (r.tool \in ClientTools => r.cred \in Src)          \* --user is not a boolean
            \* explicit false values: one option at a time
            /\ Cardinality({k \in {"cred", "dtls", "insec"} : r[k] \in {"flag0", "env0"}}) <= 1}

EffInsec(r) == IF "EnvInsecureIgnored" \in Dev THEN r.insec = "flag" ELSE Given(r.insec)

Refuses(r) ==
    \/ r.empty
    \/ /\ "NoRefuse" \notin Dev
       /\ Given(r.cred) /\ ~Given(r.dtls) /\ ~EffInsec(r)

HasUser(r) == r.tool \in ClientTools /\ Given(r.cred) /\ ~r.empty

(* the decision table: what an observer sees first *)
Outcome(r) ==
    IF Refuses(r) THEN "refused"
    ELSE IF r.tool = "bisquitt" THEN "listen"
    ELSE IF Given(r.dtls) THEN "dtls"
    ELSE IF HasUser(r) THEN "connect-auth"
    ELSE "connect"

InitRun == /\ st \in [run : Runs, phase : {"cfg"}, wire : {<<>>}]
           /\ hist = <<>>

Decide ==
    /\ st.phase = "cfg"
    /\ st' = [st EXCEPT !.phase =
                 IF Refuses(st.run) THEN "refused"
                 ELSE IF st.run.tool = "bisquitt"
                      THEN (IF Given(st.run.dtls) THEN "listen-dtls" ELSE "listen-plain")
                      ELSE (IF Given(st.run.dtls) THEN "dial-dtls" ELSE "dial-plain")]
    /\ UNCHANGED hist

ClientTalks ==
    \/ /\ st.phase = "dial-plain"
       /\ st' = [st EXCEPT !.phase = "connecting",
                           !.wire = <<"CONNECT">> \o (IF HasUser(st.run) THEN <<"AUTH">> ELSE <<>>)]
       /\ UNCHANGED hist
    \/ /\ st.phase = "dial-dtls"
       /\ st' = [st EXCEPT !.phase = "handshake", !.wire = <<"DTLS-HELLO">>]
       /\ UNCHANGED hist

NextRun == Decide \/ ClientTalks

SpecRun == InitRun /\ [][NextRun]_vars

(* credentials travel (or are accepted) in clear *)
PlainCreds(s) ==
    \/ "AUTH" \in Range(s.wire)
    \/ s.run.tool = "bisquitt" /\ s.phase = "listen-plain" /\ Given(s.run.cred)

Prop_C31 ==
    \* never in clear unless --insecure
    /\ PlainCreds(st) => Given(st.run.insec)
    \* refusal is exactly "credentials, no DTLS, no --insecure" (or an empty user)
    /\ st.phase # "cfg" =>
          (st.phase = "refused" <=>
              (st.run.empty \/ (Given(st.run.cred) /\ ~Given(st.run.dtls) /\ ~Given(st.run.insec))))
    \* no user => no AUTH; user => AUTH right after every CONNECT
    /\ ~HasUser(st.run) => "AUTH" \notin Range(st.wire)
    /\ HasUser(st.run) =>
          \A i \in 1..Len(st.wire) : st.wire[i] = "CONNECT" =>
                (i < Len(st.wire) /\ st.wire[i + 1] = "AUTH")
    \* the table used by the conformance oracle agrees with the machine
    /\ st.phase # "cfg" =>
          CASE Outcome(st.run) = "refused" -> st.phase = "refused"
            [] Outcome(st.run) = "listen" -> st.phase \in {"listen-plain", "listen-dtls"}
            [] Outcome(st.run) = "dtls" -> st.phase \in {"dial-dtls", "handshake"}
            [] Outcome(st.run) = "connect-auth" ->
                    st.phase = "dial-plain" \/ st.wire = <<"CONNECT", "AUTH">>
            [] OTHER -> st.phase = "dial-plain" \/ st.wire = <<"CONNECT">>

EmitRun == st.phase = "cfg" => PrintT("RUN:" \o ToJson([run |-> st.run, exp |-> Outcome(st.run)]))

-----------------------------------------------------------------------------
(*                 C.  C31: client library Connect()                       *)

(* events of the environment: the application calls Connect / Register /   *)
(* Disconnect; the gateway drops, accepts or rejects a CONNECT.            *)

AttemptOut(user, first) ==
    <<"CONNECT">> \o
    (IF "AuthAlways" \in Dev THEN <<"AUTH">>
     ELSE IF user /\ (first \/ "NoAuthOnRetry" \notin Dev) THEN <<"AUTH">>
     ELSE <<>>)

InitLib == /\ st \in [user : BOOLEAN, pw : BOOLEAN, phase : {"idle"}, n : {0}, calls : {0},
                      last : {<<>>}, out : {<<>>}]
           /\ hist = <<>>

Ev(e) == hist' = Append(hist, e)

LibConnect ==
    /\ st.phase \in {"idle", "failed"}
    /\ st.calls < MaxConnects
    /\ st' = [st EXCEPT !.phase = "waiting", !.n = 1, !.calls = @ + 1,
                        !.last = AttemptOut(st.user, TRUE),
                        !.out = @ \o AttemptOut(st.user, TRUE)]
    /\ Ev("connect")

(* no CONNACK within ConnectTimeout: retry, or give up after RetryCount retries *)
LibDrop ==
    /\ st.phase = "waiting"
    /\ IF st.n <= RetryCount
       THEN st' = [st EXCEPT !.n = @ + 1,
                             !.last = AttemptOut(st.user, FALSE),
                             !.out = @ \o AttemptOut(st.user, FALSE)]
       ELSE st' = [st EXCEPT !.phase = "failed", !.last = <<>>]
    /\ Ev("drop")

LibAccept ==
    /\ st.phase = "waiting"
    /\ st' = [st EXCEPT !.phase = "active", !.last = <<>>]
    /\ Ev("accept")

LibReject ==
    /\ st.phase = "waiting"
    /\ st' = [st EXCEPT !.phase = "failed", !.last = <<>>]
    /\ Ev("reject")

LibRegister ==
    /\ st.phase = "active"
    /\ "REGISTER" \notin Range(st.out)       \* once is enough
    /\ st' = [st EXCEPT !.last = <<"REGISTER">>, !.out = Append(@, "REGISTER")]
    /\ Ev("register")

LibDisconnect ==
    /\ st.phase = "active"
    /\ st' = [st EXCEPT !.phase = "idle", !.last = <<"DISCONNECT">>, !.out = Append(@, "DISCONNECT")]
    /\ Ev("disconnect")

NextLib ==
    /\ \/ LibConnect \/ LibDrop \/ LibAccept \/ LibReject \/ LibRegister \/ LibDisconnect
    /\ PrintT("LIB:" \o ToJson([user |-> st.user, pw |-> st.pw, retrycount |-> RetryCount, events |-> hist',
                                 expect |-> st'.out]))

SpecLib == InitLib /\ [][NextLib]_vars

ViewLib == st      \* one emitted schedule per transition of the state graph

ConnectsFollowedByAuth(w) ==
    \A i \in 1..Len(w) : w[i] = "CONNECT" => (i < Len(w) /\ w[i + 1] = "AUTH")

Prop_C31Lib ==
    /\ ~st.user => "AUTH" \notin Range(st.out)
    /\ st.user => ConnectsFollowedByAuth(st.out)
    \* AUTH is never sent on its own
    /\ \A i \in 1..Len(st.out) : st.out[i] = "AUTH" => (i > 1 /\ st.out[i - 1] = "CONNECT")
=============================================================================
