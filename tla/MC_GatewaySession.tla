------------------------- MODULE MC_GatewaySession -------------------------
(***************************************************************************)
(* Model checking of the gateway-session reference model under an          *)
(* adversarial MQTT-SN client, a conforming (but arbitrarily timed) broker *)
(* and time, plus generation of one implementation test per transition.    *)
(*                                                                         *)
(*  - `bad` collects the clauses of the listed properties that the model's *)
(*    OWN outputs violate (GatewayChecks applied to the model): the design *)
(*    check is the invariant  bad = {}.                                    *)
(*  - `hist` is the sequence of environment events; with VIEW = state      *)
(*    without hist every distinct abstract state is expanded once and      *)
(*    every transition is emitted once (EMIT) as a schedule for the real   *)
(*    code (harness/gwdrv), whose recorded trace is then judged by         *)
(*    Trace_GatewaySession.                                                *)
(***************************************************************************)
EXTENDS GatewayChecks, Json

CONSTANTS
    Family,     \* "connect" | "data" | "sleep"
    Groups,     \* event groups enabled (strings)
    MaxEvents,  \* bound on the number of environment events
    Emit,       \* TRUE: print one schedule per transition
    EmitFullOnly, \* TRUE: print only schedules of full length (random walks in -simulate mode)
    Emit2,      \* TRUE: additionally print every transition extended by every event enabled after it
    MsgIds,     \* message IDs used by both sides
    AuthModes,  \* subset of {TRUE, FALSE}
    CredModes,  \* subset of {TRUE, FALSE}: gateway configured with credentials
    Qoss,       \* QoS values for publishes
    Deviations  \* signatures of the known findings (known_findings.json): deviations of the
                \* implementation that the reference model reproduces on purpose

VARIABLES s, hist, bad
vars == <<s, hist, bad>>

-----------------------------------------------------------------------------
(* Configurations *)
PredefSeq == << [c |-> "*", id |-> 2, n |-> "pre/x"], [c |-> "c1", id |-> 5, n |-> "pre/y"],
                [c |-> "*", id |-> 6, n |-> "pre/z"], [c |-> "c1", id |-> 6, n |-> "own/z"],
                \* a predefined wildcard filter: legal for SUBSCRIBE by ID, never a PUBLISH topic name (C24)
                [c |-> "*", id |-> 7, n |-> "w/#"] >>
MkCfg(auth, creds) ==
    [auth |-> auth, hasuser |-> creds, user |-> IF creds THEN "gwu" ELSE "", haspass |-> creds,
     pass |-> IF creds THEN "gwp" ELSE "", retrydelay |-> 10, retrycount |-> 1,
     tidmin |-> 1, tidmax |-> 3, skiptids |-> 0, predef |-> PredefSeq]

-----------------------------------------------------------------------------
(* Event constructors (uniform records, cf. harness/absmap) *)
P0 == [t |-> "NONE", dup |-> FALSE, qos |-> 0, retain |-> FALSE, tit |-> 0, tid |-> 0, mid |-> 0,
       rc |-> 0, dur |-> 0, hasdur |-> FALSE, topic |-> "", wild |-> FALSE, short |-> FALSE,
       sname |-> "", swild |-> FALSE, data |-> "", will |-> FALSE, clean |-> FALSE, cid |-> "",
       method |-> "", plain |-> FALSE, plainok |-> FALSE, user |-> "", pass |-> "", empty |-> FALSE]
M0 == [t |-> "NONE", dup |-> FALSE, qos |-> 0, retain |-> FALSE, topic |-> "", wild |-> FALSE,
       short |-> FALSE, sid |-> 0, mid |-> 0, pl |-> "s:", plen |-> 0, tlen |-> 3, rc |-> 0, codes |-> <<>>, rqos |-> 0]
EvC(p) == [t |-> "C", p |-> p, m |-> M0, n |-> 0]
EvB(m) == [t |-> "B", p |-> P0, m |-> m, n |-> 0]
EvT(t, n) == [t |-> t, p |-> P0, m |-> M0, n |-> n]

Names == {"a/b", "n/w"}
WildNames == {"a/+"}
ShortNames == {"ab"}
ShortId(n) == 24930   \* "ab" = 0x6162
\* filters that START with a wildcard (subscribed once each, QoS 1)
LeadWild == {"#", "+/b"}
Attr(n) == [wild |-> n \in WildNames \/ n = "w/#" \/ n \in LeadWild, short |-> n \in ShortNames \/ n = "a+"]

Connects ==
    {EvC([P0 EXCEPT !.t = "CONNECT", !.will = w, !.dur = d, !.cid = "c1", !.clean = TRUE])
       : w \in BOOLEAN, d \in {0, 2}}
Auths ==
    { EvC([P0 EXCEPT !.t = "AUTH", !.method = "PLAIN", !.plain = TRUE, !.plainok = TRUE, !.user = "u1", !.pass = "p1"]),
      EvC([P0 EXCEPT !.t = "AUTH", !.method = "PLAIN", !.plain = TRUE, !.plainok = FALSE, !.data = "s:u1"]),
      \* well-formed PLAIN data with an empty password / an empty user name
      EvC([P0 EXCEPT !.t = "AUTH", !.method = "PLAIN", !.plain = TRUE, !.plainok = TRUE, !.user = "u2", !.pass = ""]),
      EvC([P0 EXCEPT !.t = "AUTH", !.method = "PLAIN", !.plain = TRUE, !.plainok = TRUE, !.user = "", !.pass = "p3"]),
      EvC([P0 EXCEPT !.t = "AUTH", !.method = "X", !.plain = FALSE, !.plainok = TRUE, !.user = "u1", !.pass = "p1"]) }
\* long enough to overwrite anything an earlier, shorter packet (AUTH) left in a reused receive buffer
WT == "will/topic/of/client/c1/0123456789"
WM == "s:will-message-0123456789a"    \* 24 octets: the longest payload absmap.EncData keeps verbatim
Wills ==
    { EvC([P0 EXCEPT !.t = "WILLTOPIC", !.topic = WT, !.qos = 1, !.retain = TRUE]),
      EvC([P0 EXCEPT !.t = "WILLTOPIC", !.empty = TRUE]),
      EvC([P0 EXCEPT !.t = "WILLTOPIC", !.topic = WT, !.qos = 3]),
      EvC([P0 EXCEPT !.t = "WILLMSG", !.data = WM]),
      \* an empty will message is legal: the will (topic, QoS, retain) stays
      EvC([P0 EXCEPT !.t = "WILLMSG", !.data = "s:"]) }
Sleeps == { EvC([P0 EXCEPT !.t = "DISCONNECT", !.dur = 3, !.hasdur = TRUE]),
            EvC([P0 EXCEPT !.t = "DISCONNECT", !.dur = 1, !.hasdur = TRUE]),
            EvC([P0 EXCEPT !.t = "PINGREQ", !.cid = "c1"]) }
Terms == { EvC([P0 EXCEPT !.t = "DISCONNECT"]), EvT("Shutdown", 0), EvT("BEof", 0), EvT("CRaw", 0), EvT("BRaw", 0) }
Others == { EvC([P0 EXCEPT !.t = "SEARCHGW"]), EvC([P0 EXCEPT !.t = "WILLTOPICUPD", !.topic = WT]),
            EvC([P0 EXCEPT !.t = "CONNACK"]), EvC([P0 EXCEPT !.t = "SUBACK", !.mid = 1]) }
Registers ==
    \* "pre/x", "own/z": names that are also predefined for this client
    {EvC([P0 EXCEPT !.t = "REGISTER", !.mid = m, !.topic = n, !.wild = Attr(n).wild]) : m \in MsgIds, n \in Names \cup {"w/#", "pre/x", "own/z"}}
Subscribes ==
    {EvC([P0 EXCEPT !.t = "SUBSCRIBE", !.mid = m, !.qos = q, !.tit = 0, !.topic = n, !.wild = Attr(n).wild, !.dup = d])
       : m \in MsgIds, q \in {1, 3}, n \in {"a/b", "pre/x"} \cup WildNames, d \in BOOLEAN}
    \cup {EvC([P0 EXCEPT !.t = "SUBSCRIBE", !.mid = m, !.qos = 1, !.tit = 0, !.topic = n, !.wild = TRUE]) : m \in MsgIds, n \in LeadWild}
    \cup {EvC([P0 EXCEPT !.t = "SUBSCRIBE", !.mid = m, !.qos = 0, !.tit = 1, !.tid = i]) : m \in MsgIds, i \in {5, 6, 7, 9}}
    \cup {EvC([P0 EXCEPT !.t = "SUBSCRIBE", !.mid = m, !.qos = 2, !.tit = 2, !.tid = ShortId("ab"), !.sname = "ab"]) : m \in MsgIds}
Unsubscribes ==
    {EvC([P0 EXCEPT !.t = "UNSUBSCRIBE", !.mid = m, !.tit = 0, !.topic = "a/b"]) : m \in MsgIds}
    \cup {EvC([P0 EXCEPT !.t = "UNSUBSCRIBE", !.mid = m, !.tit = 1, !.tid = i]) : m \in MsgIds, i \in {6, 9}}
    \cup {EvC([P0 EXCEPT !.t = "UNSUBSCRIBE", !.mid = m, !.tit = 2, !.tid = ShortId("ab"), !.sname = "ab"]) : m \in MsgIds}
Publishes ==
    {EvC([P0 EXCEPT !.t = "PUBLISH", !.qos = q, !.tit = 0, !.tid = i, !.mid = m, !.data = "s:p1", !.retain = (q = 1), !.dup = (q = 2)])
       : q \in Qoss, i \in {1, 2}, m \in MsgIds}
    \cup {EvC([P0 EXCEPT !.t = "PUBLISH", !.qos = q, !.tit = 1, !.tid = i, !.mid = m, !.data = "s:p2"])
            : q \in Qoss, i \in {2, 6, 7, 9}, m \in MsgIds}
    \cup {EvC([P0 EXCEPT !.t = "PUBLISH", !.qos = q, !.tit = 2, !.tid = ShortId("ab"), !.sname = "ab", !.mid = m, !.data = "s:"])
            : q \in Qoss, m \in MsgIds}
    \cup {EvC([P0 EXCEPT !.t = "PUBLISH", !.qos = 1, !.tit = 2, !.tid = 24875, !.sname = "a+", !.swild = TRUE, !.mid = m, !.data = "s:p3"]) : m \in MsgIds}
    \cup {EvC([P0 EXCEPT !.t = "PUBLISH", !.qos = 0, !.tit = 3, !.tid = 1, !.mid = m, !.data = "s:p4"]) : m \in MsgIds}
Pubrels == {EvC([P0 EXCEPT !.t = "PUBREL", !.mid = m]) : m \in MsgIds}
ClientAcks ==
    {EvC([P0 EXCEPT !.t = t, !.mid = m, !.rc = rc, !.tid = 1]) : t \in {"REGACK", "PUBACK"}, m \in MsgIds, rc \in {0, 2}}
    \cup {EvC([P0 EXCEPT !.t = t, !.mid = m]) : t \in {"PUBREC", "PUBCOMP"}, m \in MsgIds}
    \cup {EvC([P0 EXCEPT !.t = "REGACK", !.mid = 65535, !.tid = 1])}
BPublishes ==
    {EvB([M0 EXCEPT !.t = "PUBLISH", !.topic = n, !.qos = q, !.mid = IF q = 0 THEN 0 ELSE m, !.pl = "s:b1", !.plen = 2,
                     !.retain = (q = 2), !.short = Attr(n).short, !.sid = IF Attr(n).short THEN ShortId(n) ELSE 0])
       : n \in Names \cup ShortNames \cup {"pre/x", "pre/z", "own/z"}, q \in Qoss \ {3}, m \in MsgIds}
BAcks ==
    {EvB([M0 EXCEPT !.t = t, !.mid = m]) : t \in {"PUBACK", "PUBREC", "PUBCOMP", "UNSUBACK", "PUBREL"}, m \in MsgIds}
    \cup {EvB([M0 EXCEPT !.t = "SUBACK", !.mid = m, !.codes = <<c>>]) : m \in MsgIds, c \in {0, 1, 2, 128}}
    \cup {EvB([M0 EXCEPT !.t = "PINGRESP"])}
BConnacks(st) ==
    \* conforming broker: CONNACK only answers a CONNECT
    IF st.cx.on /\ st.cx.sent
    THEN {EvB([M0 EXCEPT !.t = "CONNACK", !.rc = rc]) : rc \in (IF Family = "connect" THEN 0..5 ELSE {0, 5})}
    ELSE {}
Pings == {EvC([P0 EXCEPT !.t = "PINGREQ", !.cid = "c1"])}

Times(st) ==
    LET due == DueTimes(st)
        lim == IF due # {} /\ SetMin(due) > st.now THEN SetMin(due) - st.now ELSE 1000
        \* time never jumps over a timer (the step driver stops at every eventful tick)
    IN {EvT("Adv", n) : n \in {k \in ({1, lim} \cup (IF "longtime" \in Groups THEN {10, 25} ELSE {})) : k <= lim /\ k < 1000}}

(* A well-behaved client reuses the message ID of one of its own exchanges in   *)
(* progress only to retransmit the same request.                              *)
SameRequest(st, e) ==
    \* a connected client does not go to sleep in the middle of a connect exchange it restarted
    IF e.t = "C" /\ e.p.t = "DISCONNECT" /\ e.p.dur # 0 /\ st.cx.on /\ st.st # "disconnected" THEN FALSE
    ELSE TRUE

EvSum(e) == EvName(e) \o (IF e.t = "C" THEN "(m" \o ToString(e.p.mid) \o ",q" \o ToString(e.p.qos) \o ",t" \o ToString(e.p.tit)
                                      \o "/" \o ToString(e.p.tid) \o "," \o e.p.topic \o e.p.sname \o ",d" \o ToString(e.p.dur) \o ",rc" \o ToString(e.p.rc) \o ")"
                          ELSE IF e.t = "B" THEN "(m" \o ToString(e.m.mid) \o ",q" \o ToString(e.m.qos) \o "," \o e.m.topic \o ",rc" \o ToString(e.m.rc)
                                      \o "," \o ToString(e.m.codes) \o ")"
                          ELSE "(" \o ToString(e.n) \o ")")

AllEvents(st) ==
    IF ~st.alive THEN {}
    ELSE IF st.dying THEN {EvT("Adv", 1)}
    ELSE (IF "connect" \in Groups THEN Connects ELSE {})
         \cup (IF "auth" \in Groups THEN Auths ELSE {})
         \cup (IF "will" \in Groups THEN Wills ELSE {})
         \cup (IF "sleep" \in Groups THEN Sleeps ELSE {})
         \cup (IF "term" \in Groups THEN Terms ELSE {})
         \cup (IF "other" \in Groups THEN Others ELSE {})
         \cup (IF "reg" \in Groups THEN Registers ELSE {})
         \cup (IF "sub" \in Groups THEN Subscribes ELSE {})
         \cup (IF "unsub" \in Groups THEN Unsubscribes ELSE {})
         \cup (IF "pub" \in Groups THEN Publishes ELSE {})
         \cup (IF "pubrel" \in Groups THEN Pubrels ELSE {})
         \cup (IF "cack" \in Groups THEN ClientAcks ELSE {})
         \cup (IF "bpub" \in Groups THEN BPublishes ELSE {})
         \cup (IF "back" \in Groups THEN BAcks ELSE {})
         \cup (IF "ping" \in Groups THEN Pings ELSE {})
         \cup BConnacks(st)
         \cup (IF "time" \in Groups THEN Times(st) ELSE {})

Events(st) == {e \in AllEvents(st) : SameRequest(st, e)}

-----------------------------------------------------------------------------
(* the model's own outputs as an observation *)
ShortNameOf(tid) == IF tid = 24930 THEN "ab" ELSE IF tid = 24875 THEN "a+" ELSE "?"
ObsSn(p) == p @@ [wf |-> TRUE, size |-> 10, sname |-> IF p.tit = 2 THEN ShortNameOf(p.tid) ELSE ""]
MqValid(m) ==
    /\ m.qos <= 2 /\ m.rqos <= 2 /\ m.willqos <= 2
    /\ (m.t = "PUBLISH" => m.topic # "" /\ m.topic \notin (WildNames \cup LeadWild \cup {"w/#", "a+"}))
    /\ (m.t \in {"SUBSCRIBE", "UNSUBSCRIBE"} => m.topic # "")
    /\ (m.t = "CONNECT" => (m.willflag => m.willtopic # ""))
    /\ (m.t = "SUBSCRIBE" => ~m.dup)
ObsMq(m) == m @@ [valid |-> MqValid(m), problems |-> IF MqValid(m) THEN <<>> ELSE <<"invalid">>]
SelfObs(st) ==
    [outC |-> [i \in DOMAIN st.outC |-> ObsSn(st.outC[i])],
     outB |-> [i \in DOMAIN st.outB |-> ObsMq(st.outB[i])],
     bclosed |-> ~st.bopen, ended |-> ~st.alive, st |-> st.st, nbuf |-> Len(st.buf),
     pend |-> <<>>, reg |-> <<>>, leaked |-> 0, bjunk |-> FALSE, now |-> st.now, wasEnded |-> FALSE]

SelfChecks(st, e, s2) ==
    LET o == SelfObs(s2) IN
    Check_C01(st, e, o, s2) \cup Check_C02(st, e, o, s2) \cup Check_C03(st, e, o, s2)
    \cup Check_C04(st, e, o, s2) \cup Check_C06(st, e, o, s2) \cup Check_C07(st, e, o, s2)
    \cup Check_C08(st, e, o, s2) \cup Check_C09(st, e, o, s2) \cup Check_C10(st, e, o, s2)
    \cup Check_C11(st, e, o, s2) \cup Check_C12(st, e, o, s2, st.lastB) \cup Check_C13(st, e, o, s2)
    \cup Check_C14(st, e, o, s2) \cup Check_C23(st, e, o, s2) \cup Check_C24(st, e, o, s2)
    \cup Check_C34(st, e, o, s2)

-----------------------------------------------------------------------------
ConnectedState(cfg) ==
    LET c == EvC([P0 EXCEPT !.t = "CONNECT", !.dur = 2, !.cid = "c1", !.clean = TRUE])
        a == EvB([M0 EXCEPT !.t = "CONNACK"])
    IN Step(Step(InitState(cfg), c, NoHint), a, NoHint)
Prefix == IF Family = "connect" THEN <<>>
          ELSE << EvC([P0 EXCEPT !.t = "CONNECT", !.dur = 2, !.cid = "c1", !.clean = TRUE]),
                  EvB([M0 EXCEPT !.t = "CONNACK"]) >>

Init ==
    /\ \E au \in AuthModes, cr \in CredModes :
          s = IF Family = "connect" THEN InitState(MkCfg(au, cr)) ELSE ConnectedState(MkCfg(au, cr))
    /\ hist = <<>>
    /\ bad = {}

Next ==
    /\ Len(hist) < MaxEvents
    /\ \E e \in Events(s) :
          \E s2 \in {Step(s, e, NoHint)} :
          /\ s' = s2
          /\ hist' = Append(hist, e)
          /\ bad' = SelfChecks(s, e, s2)
          /\ (bad' # {} => PrintT("BAD:" \o ToJson([bad |-> bad', events |-> [i \in DOMAIN hist' |-> EvSum(hist'[i])]])))
          /\ ((Emit /\ (~EmitFullOnly \/ Len(hist') = MaxEvents \/ ~s2.alive)) =>
                 PrintT("SCHED:" \o ToJson([cfg |-> s.cfg, prefix |-> Prefix, events |-> hist'])))
          \* transition-pair coverage: every transition followed by every event enabled after it.  Two
          \* histories that reach the same abstract state need not reach the same implementation state,
          \* so the successor's events are also replayed along THIS history.
          \* (only around the connect exchange - s.cx.on before or after the transition - where the model's state
          \* is known to be coarser than the implementation's: will topic received / empty, AUTH pending)
          /\ ((Emit /\ Emit2 /\ (s.cx.on \/ s2.cx.on)) =>
                 \A e2 \in Events(s2) :
                    PrintT("SCHED:" \o ToJson([cfg |-> s.cfg, prefix |-> Prefix, events |-> Append(hist', e2)])))

Spec == Init /\ [][Next]_vars

DesignOK == bad \subseteq Deviations

(* VIEW: the abstract state with times relative to now, without history *)
Rel(t, now) == IF t = 0 THEN 0 ELSE t - now
View ==
    << [s EXCEPT !.now = 0, !.lastB = Rel(s.lastB, s.now), !.lastC = Rel(s.lastC, s.now),
                 !.dieAt = Rel(s.dieAt, s.now), !.sleepUntil = Rel(s.sleepUntil, s.now),
                 !.cx = [s.cx EXCEPT !.deadline = Rel(@, s.now), !.at = 0],
                 !.pinger = [s.pinger EXCEPT !.next = Rel(@, s.now), !.until = Rel(@, s.now)],
                 !.ctx = {[x EXCEPT !.due = Rel(@, s.now)] : x \in s.ctx},
                 !.btx = {[x EXCEPT !.due = Rel(@, s.now)] : x \in s.btx},
                 !.outC = <<>>, !.outB = <<>>],
       bad >>
=============================================================================
