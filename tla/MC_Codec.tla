------------------------------ MODULE MC_Codec ------------------------------
(***************************************************************************)
(* Model-checking wrapper of Codec: three small state machines whose states *)
(* are datagrams / packets.  TLC checks the Codec properties on every state *)
(* and (Emit) prints each state as a test vector with the expected result   *)
(* for the Go driver harness/codecdrv (direction spec -> code).             *)
(*                                                                          *)
(*  tree   : x = datagram; Init <<>>; Next appends one octet of Alphabet     *)
(*           while Len < MaxLen  => all datagrams of length <= MaxLen over  *)
(*           Alphabet, one state each (C20, C22).                           *)
(*  struct : x = datagram; Init = canonical encodings of boundary packets;  *)
(*           Next = one structural mutation (header form switch, length     *)
(*           field +-1/0/255/256, truncation, extension, flags octet, AUTH  *)
(*           method length octet, reserved type ...), depth <= MutDepth     *)
(*           (C20, C22: header forms the encoder never emits).              *)
(*  body   : x = well-framed datagram (correct length octet and type) of     *)
(*           every type; Init = empty bodies and bodies made of one         *)
(*           repeated octet; Next appends one octet of BodyAlphabet and     *)
(*           re-frames => every body of length 0..min(fixed part +          *)
(*           BodyExtra, BodyCap) over BodyAlphabet: all-zero / all-0xFF     *)
(*           variable parts, NUL-only names, client ids, payloads, will     *)
(*           topics, auth methods ... (C20, C22).                           *)
(*  pkt    : x = packet; Init = all boundary packets (constructors x flags  *)
(*           x boundary ids x boundary lengths); no transitions (C21).      *)
(***************************************************************************)
EXTENDS Codec, Json, TLC

CONSTANTS Alphabet,     \* tree: octet alphabet
          MaxLen,       \* tree: maximal datagram length
          Emit,         \* print vectors
          EmitDepth,    \* struct: print states up to this mutation depth
          MutDepth,     \* struct: mutation depth
          VarLens,      \* pkt/struct: lengths of the variable part
          BigLens,      \* pkt/struct: additional large lengths (subset of types x flags)
          BodyAlphabet, \* body: tiny octet alphabet of the exhaustive small bodies
          BodyExtra,    \* body: bodies up to (fixed part + BodyExtra) octets ...
          BodyCap,      \* body: ... capped at BodyCap octets are enumerated exhaustively
          RepCap,       \* body: bodies made of one repeated octet up to (fixed + BodyExtra) capped at RepCap
          ShortIds,     \* ids for the inverse laws of the short-topic coding
          ShortPairIds  \* ids for the pairwise injectivity check

ShortAll   == 0..65535      \* cfg: ShortIds <- ShortAll
ShortPairs == 0..511        \* cfg: ShortPairIds <- ShortPairs

VARIABLES x, depth
vars == <<x, depth>>

BOOL == {TRUE, FALSE}
\* `<<>> \o' forces an eager tuple (a lazily evaluated function value makes every set
\* normalisation / comparison re-evaluate the body: measured 4x slower)
Pat(n, s) == <<>> \o [i \in 1..n |-> (i * 7 + s) % 256]
IDs    == {0, 1, 255, 256, 65534, 65535}
IDsFew == {0, 258, 65535}
PLAIN  == <<80, 76, 65, 73, 78>>

-----------------------------------------------------------------------------
(* Vectors *)
DgVector(d) ==
  LET r == Parse(d)
      \* alt: the wrong-offset reading (names the mechanism of a long-form-small-length finding)
      alt == IF Class(d) = "long-form-small-length" /\ WrongOffsetParse(d).ok
             THEN [ok |-> TRUE, pkt |-> WrongOffsetParse(d).pkt] ELSE [ok |-> FALSE, pkt |-> Blank]
  IN
  IF r.ok
  THEN [d |-> d, cls |-> Class(d), pcls |-> PanicClass(d), ok |-> TRUE, hl |-> r.hl, lenf |-> r.lenf, pkt |-> r.pkt,
        cb |-> CanonBody(d), alt |-> alt]
  ELSE [d |-> d, cls |-> Class(d), pcls |-> PanicClass(d), ok |-> FALSE, why |-> r.why, alt |-> alt]

PkVector(p) == [p |-> p, bytes |-> Encode(p), cls |-> PanicClass(Encode(p))]

EmitDg(d) == Emit => PrintT("VEC:" \o ToJson(DgVector(d)))
EmitPk(p) == Emit => PrintT("VEC:" \o ToJson(PkVector(p)))

-----------------------------------------------------------------------------
(* pkt: boundary packets *)
NZ(S) == S \ {0}
AllLens == VarLens \cup BigLens
SmallLens == {l \in VarLens : l <= 2}

PktsOf(t) ==
  CASE t = ADVERTISE -> {[P0(t) EXCEPT !.gwid = g, !.duration = du] : g \in {0, 1, 255}, du \in IDs}
    [] t = SEARCHGW -> {[P0(t) EXCEPT !.radius = r] : r \in {0, 1, 255}}
    [] t = GWINFO -> {[P0(t) EXCEPT !.gwid = g, !.data = Pat(n, 3)] : g \in {0, 7, 255}, n \in AllLens}
    [] t = AUTH ->
         {[P0(t) EXCEPT !.reason = r, !.method = m, !.data = Pat(n, 5)] :
             r \in {0, 24, 25, 255}, m \in {PLAIN} \cup {Pat(k, 11) : k \in {0, 1, 253, 254, 255}},
             n \in SmallLens}
         \cup {[P0(t) EXCEPT !.reason = 0, !.method = PLAIN, !.data = Pat(n, 5)] : n \in AllLens}
    [] t = CONNECT ->
         {[P0(t) EXCEPT !.will = w, !.clean = c, !.protoid = 1, !.duration = du, !.clientid = Pat(n, 9)] :
             w \in BOOL, c \in BOOL, du \in IDs, n \in {1, 2, 23}}
         \cup {[P0(t) EXCEPT !.will = TRUE, !.protoid = 1, !.duration = 258, !.clientid = Pat(n, 9)] :
                 n \in NZ(AllLens)}
    [] t \in {CONNACK, WILLTOPICRESP, WILLMSGRESP} -> {[P0(t) EXCEPT !.rc = r] : r \in {0, 1, 2, 3, 255}}
    [] t \in {WILLTOPICREQ, WILLMSGREQ, PINGRESP} -> {P0(t)}
    [] t \in {WILLTOPIC, WILLTOPICUPD} ->
         {P0(t)}
         \cup {[P0(t) EXCEPT !.qos = q, !.retain = r, !.topic = Pat(n, 13)] :
                 q \in 0..3, r \in BOOL, n \in {1, 2}}
         \cup {[P0(t) EXCEPT !.qos = 1, !.retain = TRUE, !.topic = Pat(n, 13)] : n \in NZ(AllLens)}
    [] t \in {WILLMSG, WILLMSGUPD} -> {[P0(t) EXCEPT !.data = Pat(n, 17)] : n \in AllLens}
    [] t = REGISTER ->
         {[P0(t) EXCEPT !.topicid = ti, !.msgid = mi, !.topic = Pat(n, 19)] :
             ti \in IDs, mi \in IDs, n \in {1, 2}}
         \cup {[P0(t) EXCEPT !.topicid = ti, !.msgid = 513, !.topic = Pat(n, 19)] :
                 ti \in IDsFew, n \in NZ(AllLens)}
    [] t \in {REGACK, PUBACK} ->
         {[P0(t) EXCEPT !.topicid = ti, !.msgid = mi, !.rc = r] : ti \in IDs, mi \in IDs, r \in {0, 3, 255}}
    [] t = PUBLISH ->
         {[P0(t) EXCEPT !.dup = d, !.qos = q, !.retain = r, !.tit = ty, !.topicid = ti, !.msgid = mi,
                        !.data = Pat(n, 23)] :
             d \in BOOL, q \in 0..3, r \in BOOL, ty \in 0..3, ti \in IDs, mi \in IDs, n \in {0, 1}}
         \cup {[P0(t) EXCEPT !.dup = d, !.qos = 2, !.tit = 1, !.topicid = 258, !.msgid = 772,
                             !.data = Pat(n, 23)] : d \in BOOL, n \in AllLens}
    [] t \in {PUBCOMP, PUBREC, PUBREL, UNSUBACK} -> {[P0(t) EXCEPT !.msgid = mi] : mi \in IDs}
    [] t = SUBSCRIBE ->
         {[P0(t) EXCEPT !.dup = d, !.qos = q, !.msgid = mi, !.topic = Pat(n, 29)] :
             d \in BOOL, q \in 0..3, mi \in IDs, n \in {1, 2}}
         \cup {[P0(t) EXCEPT !.dup = d, !.qos = q, !.tit = ty, !.msgid = mi, !.topicid = ti] :
                 d \in BOOL, q \in 0..3, ty \in {1, 2}, mi \in IDs, ti \in IDs}
         \cup {[P0(t) EXCEPT !.qos = 1, !.msgid = 258, !.topic = Pat(n, 29)] : n \in NZ(AllLens)}
    [] t = UNSUBSCRIBE ->
         {[P0(t) EXCEPT !.msgid = mi, !.topic = Pat(n, 31)] : mi \in IDs, n \in {1, 2}}
         \cup {[P0(t) EXCEPT !.tit = ty, !.msgid = mi, !.topicid = ti] : ty \in {1, 2}, mi \in IDs, ti \in IDs}
         \cup {[P0(t) EXCEPT !.msgid = 258, !.topic = Pat(n, 31)] : n \in NZ(AllLens)}
    [] t = SUBACK ->
         {[P0(t) EXCEPT !.qos = q, !.topicid = ti, !.msgid = mi, !.rc = r] :
             q \in 0..3, ti \in IDs, mi \in IDs, r \in {0, 3, 255}}
    [] t = PINGREQ -> {[P0(t) EXCEPT !.clientid = Pat(n, 37)] : n \in AllLens}
    [] t = DISCONNECT -> {[P0(t) EXCEPT !.duration = du] : du \in IDs}
    [] OTHER -> {}

PktVectors == UNION {PktsOf(t) : t \in Types}

InitPkt == x \in PktVectors /\ depth = 0 /\ EmitPk(x)
NextPkt == FALSE /\ UNCHANGED vars

Inv_C21 == Prop_C21(x) /\ LegalPkt(x)      \* every vector is a legal packet and round-trips in the spec

ASSUME ShortLaws == Prop_ShortBijection(ShortIds) /\ Prop_ShortBijectionNames(Byte)
ASSUME ShortInj  == Prop_ShortInjective(ShortPairIds)

-----------------------------------------------------------------------------
(* tree *)
InitTree == x = <<>> /\ depth = 0 /\ EmitDg(x)
NextTree == /\ Len(x) < MaxLen
            /\ \E b \in Alphabet : x' = Append(x, b)
            /\ depth' = depth + 1
            /\ EmitDg(x')

Inv_C20 == Inv_ParseTotal(x) /\ Class(x) \in ClassNames /\ PanicClass(x) \in ClassNames
Inv_C22 == Prop_C22(x)

-----------------------------------------------------------------------------
(* struct *)
StructLens == {l \in VarLens : l <= 2} \cup {l \in AllLens : l >= 245}

BasePktsOf(t) ==        \* a reduced, flag-rich selection; every type is present
  CASE t = GWINFO -> {[P0(t) EXCEPT !.gwid = 7, !.data = Pat(n, 3)] : n \in StructLens}
    [] t = AUTH -> {[P0(t) EXCEPT !.reason = 24, !.method = m, !.data = Pat(n, 5)] :
                      m \in {PLAIN, Pat(253, 11)}, n \in {0, 1, 2}}
                   \cup {[P0(t) EXCEPT !.method = PLAIN, !.data = Pat(n, 5)] : n \in StructLens}
    [] t = CONNECT -> {[P0(t) EXCEPT !.will = TRUE, !.clean = TRUE, !.protoid = 1, !.duration = 258,
                                     !.clientid = Pat(n, 9)] : n \in NZ(StructLens)}
    [] t \in {WILLTOPIC, WILLTOPICUPD} ->
         {P0(t)} \cup {[P0(t) EXCEPT !.qos = 3, !.retain = TRUE, !.topic = Pat(n, 13)] : n \in NZ(StructLens)}
    [] t \in {WILLMSG, WILLMSGUPD} -> {[P0(t) EXCEPT !.data = Pat(n, 17)] : n \in StructLens}
    [] t = REGISTER -> {[P0(t) EXCEPT !.topicid = 258, !.msgid = 772, !.topic = Pat(n, 19)] : n \in NZ(StructLens)}
    [] t = PUBLISH -> {[P0(t) EXCEPT !.dup = TRUE, !.qos = 3, !.retain = TRUE, !.tit = 2, !.topicid = 258,
                                     !.msgid = 772, !.data = Pat(n, 23)] : n \in StructLens}
    [] t = SUBSCRIBE ->
         {[P0(t) EXCEPT !.dup = TRUE, !.qos = 2, !.msgid = 258, !.topic = Pat(n, 29)] : n \in NZ(StructLens)}
         \cup {[P0(t) EXCEPT !.qos = 1, !.tit = ty, !.msgid = 258, !.topicid = 772] : ty \in {1, 2}}
    [] t = UNSUBSCRIBE ->
         {[P0(t) EXCEPT !.msgid = 258, !.topic = Pat(n, 31)] : n \in NZ(StructLens)}
         \cup {[P0(t) EXCEPT !.tit = ty, !.msgid = 258, !.topicid = 772] : ty \in {1, 2}}
    [] t = PINGREQ -> {[P0(t) EXCEPT !.clientid = Pat(n, 37)] : n \in StructLens}
    [] t = ADVERTISE -> {[P0(t) EXCEPT !.gwid = 7, !.duration = 258]}
    [] t = SEARCHGW -> {[P0(t) EXCEPT !.radius = 9]}
    [] t \in {CONNACK, WILLTOPICRESP, WILLMSGRESP} -> {[P0(t) EXCEPT !.rc = 3]}
    [] t \in {REGACK, PUBACK} -> {[P0(t) EXCEPT !.topicid = 258, !.msgid = 772, !.rc = 2]}
    [] t \in {PUBCOMP, PUBREC, PUBREL, UNSUBACK} -> {[P0(t) EXCEPT !.msgid = 258]}
    [] t = SUBACK -> {[P0(t) EXCEPT !.qos = 2, !.topicid = 258, !.msgid = 772, !.rc = 1]}
    [] t = DISCONNECT -> {P0(t), [P0(t) EXCEPT !.duration = 258]}
    [] OTHER -> {P0(t)}

BaseDgrams == {Encode(p) : p \in UNION {BasePktsOf(t) : t \in Types}}

ReservedSample == {17, 25, 30, 254, 255}
InByte(S) == S \cap Byte
SetAt(d, i, v) == [d EXCEPT ![i] = v]

Mutations(d) ==
  LET n == Len(d) IN
  (IF n >= 1 THEN {SubSeq(d, 1, n - 1)} ELSE {})
  \cup {Append(d, 0), Append(d, 255)}
  \cup {SubSeq(d, 1, k) : k \in {2, 3} \cap (0..n)}
  \cup (IF HdrOk(d)
        THEN LET t == TypeOf(d) b == BodyOf(d) lf == LenF(d) h == HL(d) m == Len(BodyOf(d)) IN
             \* 3-octet length form announcing: same value, the exact size, small and boundary values
             {<<1>> \o BE(v) \o <<t>> \o b : v \in {lf, m + 4, 0, 4, 255, 256, 65535} \cap U16Range}
             \* 1-octet length form (first octet 1 is the long marker, excluded)
             \cup {<<v, t>> \o b : v \in InByte({lf % 256, (m + 2) % 256, 0, 2, 255, (lf + 1) % 256,
                                                  (lf + 255) % 256}) \ {1}}
             \cup {SetAt(d, h, r) : r \in ReservedSample}
             \cup {SubSeq(d, 1, k) : k \in {h, h + 1} \cap (0..n)}
             \cup (IF m >= 1 THEN {SetAt(d, h + 1, v) : v \in {0, 3, 255}} ELSE {})
             \cup (IF t = AUTH /\ m >= 2
                   THEN {SetAt(d, h + 2, v) : v \in InByte({0, 1, 253, 254, 255, m - 3, m - 2, m - 1})}
                   ELSE {})
             \cup (IF t = CONNECT /\ m >= 2 THEN {SetAt(d, h + 2, 0), SetAt(d, h + 2, 2)} ELSE {})
        ELSE {})

InitStruct == x \in BaseDgrams /\ depth = 0 /\ EmitDg(x)
NextStruct == /\ depth < MutDepth
              /\ x' \in Mutations(x)
              /\ depth' = depth + 1
              /\ (depth' <= EmitDepth => EmitDg(x'))

(* the base datagrams are canonical encodings: accepted, in class canonical *)
Inv_StructBase == depth = 0 => Parse(x).ok /\ Class(x) = "canonical"

-----------------------------------------------------------------------------
(* body: exhaustive small bodies, well framed, for every type *)
FixedLen(t) ==      \* octets of the fixed part of the body (before the variable part, if any)
  CASE t \in {WILLTOPICREQ, WILLMSGREQ, WILLMSG, WILLMSGUPD, PINGREQ, PINGRESP} -> 0
    [] t \in {SEARCHGW, GWINFO, CONNACK, WILLTOPIC, WILLTOPICUPD, WILLTOPICRESP, WILLMSGRESP} -> 1
    [] t \in {AUTH, PUBCOMP, PUBREC, PUBREL, UNSUBACK, DISCONNECT} -> 2
    [] t \in {ADVERTISE, SUBSCRIBE, UNSUBSCRIBE} -> 3
    [] t \in {CONNECT, REGISTER} -> 4
    [] t \in {REGACK, PUBLISH, PUBACK} -> 5
    [] t = SUBACK -> 6
    [] OTHER -> 0

Min2(a, b) == IF a <= b THEN a ELSE b
BodyMax(t) == Min2(FixedLen(t) + BodyExtra, BodyCap)
RepMax(t)  == Min2(FixedLen(t) + BodyExtra, RepCap)
Framed(t, b) == Header(t, Len(b)) \o b

InitBody == /\ x \in {Framed(t, <<>> \o [i \in 1..n |-> c]) : t \in Types, n \in 0..7, c \in BodyAlphabet}
            /\ Len(BodyOf(x)) <= RepMax(TypeOf(x))
            /\ depth = 0 /\ EmitDg(x)
NextBody == /\ Len(BodyOf(x)) < BodyMax(TypeOf(x))
            /\ \E c \in BodyAlphabet : x' = Framed(TypeOf(x), Append(BodyOf(x), c))
            /\ depth' = depth + 1
            /\ EmitDg(x')

(* well framed: the only non-canonical class reachable is an AUTH method-length octet >= 254 *)
Inv_BodyFramed == /\ Class(x) \in {"canonical", "auth-method-len-overflow"}
                  /\ LenF(x) = Len(x) /\ HL(x) = 2 /\ TypeOf(x) \in Types

View == x      \* a datagram reached at different depths is one state
=============================================================================
