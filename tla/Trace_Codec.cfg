\* Judge a batch of records produced by harness/codecdrv (file codec_trace.ndjson next to the spec).
\* Run with -workers 1 (TLCSet/TLCGet high-water mark).
INIT Init
NEXT Next
POSTCONDITION Post
