INIT Init
NEXT Next
