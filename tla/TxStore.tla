------------------------------ MODULE TxStore -------------------------------
(***************************************************************************)
(* Sequential specification of transactions.TransactionStore (bisquitt     *)
(* transactions/transaction_store.go): two independent atomic maps,        *)
(*   byId   : message id  -> transaction   (Store / Get / Delete)          *)
(*   byType : packet type -> transaction   (StoreByType / GetByType /      *)
(*                                          DeleteByType)                  *)
(* Keys and values are integers (the driver tags every stored transaction  *)
(* with a positive integer; 0 = no transaction).  A map is a function      *)
(* whose DOMAIN is the set of present keys, so keys need not be declared.  *)
(*                                                                         *)
(* An operation is a record [op, k, v]; Do(o) is the one atomic step and   *)
(* leaves the result in ret = [found, v] (Store*/Delete* return nothing:   *)
(* Void).  Lin_TxStore.tla uses Do as the linearisation step,              *)
(* Trace_TxStore.tla replays recorded sequential runs through it.          *)
(***************************************************************************)
EXTENDS Integers, Sequences, TLC, Json

CONSTANTS K,        \* keys used by the model (both key spaces)
          V,        \* values used by the model
          MaxOps    \* length of the operation sequences enumerated

VARIABLES byId, byType, ret, hist

txvars == <<byId, byType, ret, hist>>

Empty == [x \in {} |-> 0]

Put(m, key, val) == [x \in DOMAIN m \cup {key} |-> IF x = key THEN val ELSE m[x]]
Del(m, key)      == [x \in DOMAIN m \ {key} |-> m[x]]
Void             == [found |-> FALSE, v |-> 0]
Lookup(m, key)   == IF key \in DOMAIN m THEN [found |-> TRUE, v |-> m[key]] ELSE Void

IdOps   == {"Store", "Get", "Delete"}
TypeOps == {"StoreByType", "GetByType", "DeleteByType"}

InitStore == byId = Empty /\ byType = Empty /\ ret = Void

Do(o) ==
    CASE o.op = "Store"        -> byId' = Put(byId, o.k, o.v) /\ ret' = Void /\ UNCHANGED byType
      [] o.op = "Get"          -> ret' = Lookup(byId, o.k) /\ UNCHANGED <<byId, byType>>
      [] o.op = "Delete"       -> byId' = Del(byId, o.k) /\ ret' = Void /\ UNCHANGED byType
      [] o.op = "StoreByType"  -> byType' = Put(byType, o.k, o.v) /\ ret' = Void /\ UNCHANGED byId
      [] o.op = "GetByType"    -> ret' = Lookup(byType, o.k) /\ UNCHANGED <<byId, byType>>
      [] o.op = "DeleteByType" -> byType' = Del(byType, o.k) /\ ret' = Void /\ UNCHANGED byId

-----------------------------------------------------------------------------
(* Model: every operation sequence of length MaxOps over K, V.             *)

Op(name, key, val) == [op |-> name, k |-> key, v |-> val]

ModelOps == {Op(n, key, val) : n \in {"Store", "StoreByType"}, key \in K, val \in V}
            \cup {Op(n, key, 0) : n \in {"Get", "Delete", "GetByType", "DeleteByType"}, key \in K}

Init == InitStore /\ hist = <<>>

Next == /\ Len(hist) < MaxOps
        /\ \E o \in ModelOps :
              /\ Do(o)
              /\ hist' = Append(hist, o)
              /\ (Len(hist') = MaxOps => PrintT("SEQ:" \o ToJson(hist')))

-----------------------------------------------------------------------------
(* C29, sequential contract: a lookup returns the value of the latest      *)
(* store to the same key of the same key space that no later delete of     *)
(* that key (same key space) removed -- whatever happened in the other     *)
(* key space and to other keys.                                            *)

Space(name) == IF name \in IdOps THEN "id" ELSE "type"
IsWrite(name) == name \in {"Store", "Delete", "StoreByType", "DeleteByType"}

LastWrite(h, sp, key) ==
    LET w == {j \in 1..Len(h) : IsWrite(h[j].op) /\ Space(h[j].op) = sp /\ h[j].k = key}
    IN IF w = {} THEN 0 ELSE CHOOSE j \in w : \A j2 \in w : j2 <= j

Expected(h) ==     \* result of the last operation of h according to the contract
    LET o == h[Len(h)] IN
    IF o.op \in {"Get", "GetByType"} THEN
        LET l == LastWrite(h, Space(o.op), o.k) IN
        IF l > 0 /\ h[l].op \in {"Store", "StoreByType"} THEN [found |-> TRUE, v |-> h[l].v] ELSE Void
    ELSE Void

Prop_C29_Store == Len(hist) > 0 => ret = Expected(hist)
=============================================================================
