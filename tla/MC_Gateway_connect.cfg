SPECIFICATION Spec
CONSTANTS
  Family = "connect"
  Groups = {"connect", "auth", "will", "sleep", "term", "other", "pub", "reg", "time"}
  MaxEvents = 4
  Emit = FALSE
  MsgIds = {1}
  AuthModes = {TRUE, FALSE}
  CredModes = {TRUE, FALSE}
  Qoss = {0, 3}
INVARIANT DesignOK
VIEW View
CHECK_DEADLOCK FALSE
