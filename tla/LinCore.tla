------------------------------ MODULE LinCore -------------------------------
(***************************************************************************)
(* Linearizability of recorded concurrent histories (C29).                 *)
(*                                                                         *)
(* A history is a record [hid, prog, min, max, ops] where ops is a         *)
(* sequence of completed operations                                        *)
(*    [id, p, op, k, v, found, rv, cs, rs]                                 *)
(* id: 1..n, p: goroutine, op/k/v: operation and arguments, (found, rv):   *)
(* the result the real code returned, cs / rs: stamps taken from one       *)
(* atomic counter immediately before the call and immediately after the    *)
(* return.  o2 really precedes o if o2.rs < o.cs.                          *)
(*                                                                         *)
(* The history is linearizable iff the operations can be applied one at a  *)
(* time to the sequential specification, each somewhere between its call   *)
(* and its return, giving exactly the recorded results.  The search state  *)
(* is the set `done` of operations already linearised plus the state of    *)
(* the sequential object; an operation may be linearised next iff it is    *)
(* not done and every operation that really precedes it is done (Minimal). *)
(* The Lin_* modules add the object-specific step.                         *)
(***************************************************************************)
EXTENDS Integers, Sequences, FiniteSets

OpsOf(x) == {x.ops[j] : j \in 1..Len(x.ops)}

Minimal(x, done) ==
    {o \in OpsOf(x) : /\ o.id \notin done
                      /\ \A o2 \in OpsOf(x) : o2.rs < o.cs => o2.id \in done}

Complete(x, done) == Cardinality(done) = Len(x.ops)
=============================================================================
