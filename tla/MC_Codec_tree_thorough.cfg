\* C20/C22: every datagram of length <= 4 over the 36-octet alphabet; properties only (no vectors:
\* the length <= 3 vectors come from MC_Codec_tree_quick.cfg, the full 2^24 space from the Go side).
CONSTANTS
  Alphabet = {0,1,2,3,4,5,6,7,8,9,10,11,12,13,14,15,16,17,18,19,20,21,22,23,24,25,26,27,28,29,30,127,128,253,254,255}
  MaxLen = 4
  Emit = FALSE
  EmitDepth = 0
  MutDepth = 0
  VarLens = {0}
  BigLens = {}
  BodyAlphabet = {}
  BodyExtra = 0
  BodyCap = 0
  RepCap = 0
  ShortIds = {0}
  ShortPairIds = {0}
INIT InitTree
NEXT NextTree
VIEW View
INVARIANTS Inv_C20 Inv_C22
