---------------------------- MODULE Transactions ----------------------------
(***************************************************************************)
(* Lock-level model of bisquitt's transactions.TransactionBase,            *)
(* RetryTransaction and TimedTransaction (transactions/*.go) in their      *)
(* INTENDED form; the three places where the shipped code deviates are     *)
(* named deviations (constant Devs):                                       *)
(*   "F12"    finish() is not idempotent (transaction_base.go:47-73)       *)
(*   "F13"    RetryTransaction: timeout()/Proceed() re-arm the timer and   *)
(*            call the retry callback without looking at Done; a failed    *)
(*            callback is followed by restartTimer(); Success()/Fail()     *)
(*            stop the timer *before* finishing (retry_transaction.go)     *)
(*   "F13stale" timeout() acts on an expiry that was outdated by a Proceed()  *)
(*            between the timer firing and timeout() taking its lock: the   *)
(*            budget just reset is charged / exhausted at once              *)
(*   "F13nil" NewTimedTransaction: the timer callback runs Fail() ->       *)
(*            stopTimer() -> t.timer.Stop() although t.timer is assigned   *)
(*            only after AfterFunc returned (timed_transaction.go:24)      *)
(* Devs = {}: TLC proves Prop_C18 / Prop_C19.  Devs = {d}: TLC must find a *)
(* counterexample (non-vacuity; MC_Transactions_dev*.cfg).                 *)
(*                                                                         *)
(* Threads: callers 1..MaxOps (one API call each: Success, Fail, Proceed), *)
(* TMR = the goroutine started by time.AfterFunc (timeout() split where it *)
(* takes retryNumMutex, increments retryNum, calls the retry callback,     *)
(* calls Fail, re-arms the timer), WAT = the ctx watcher goroutine, CTOR =  *)
(* the constructor.  todo[th] is the rest of the thread's program; a step  *)
(* is one critical-section-sized piece.  Accesses to the `timer` field are *)
(* atomic steps here; that they really are (no data race) is what the      *)
(* -race instrument of the check looks at.                                 *)
(*                                                                         *)
(* Time: `now` in ticks; it advances only when nothing can run (like the   *)
(* synctest bubble of the driver), so a timer fires at exactly its due     *)
(* tick and before any API call issued "at" that tick.                     *)
(*                                                                         *)
(* Forced = FALSE: API calls and cancellation may start at any moment      *)
(*   (every interleaving at lock granularity, incl. the window between a   *)
(*   timer firing and timeout() taking its lock).  State form of C18.      *)
(* Forced = TRUE: environment events are issued only at quiescence or      *)
(*   while the retry callback is parked (= inside timeout()), i.e. exactly *)
(*   the schedules harness/txdrv can force on the real code.  After each   *)
(*   event the model feeds its own observation to TxMonitor and the event  *)
(*   sequence `hist` is printed as a schedule (Emit).                      *)
(***************************************************************************)
EXTENDS TxMonitor, TLC, Json, FiniteSets

CONSTANTS Kinds,      \* subset of {"base","retry","timed"}
          RCs, RDs,   \* RetryCount / RetryDelay (ticks) ranges
          TOs,        \* timeouts (ticks) of the timed transaction
          MaxOps,     \* API calls + cancellations per behaviour
          CbMayFail,  \* the retry callback may return an error
          Devs, Forced,
          Emit        \* "none" | "all" (every observation) | "end" (observations at the horizon)

VARIABLES P, now, done, err, errAtDone, fin, bmu, rmu, retryNum, tset, armed, due,
          todo, farg, nops, cancelled, wdone, cbRuns, cbAD, cbDecAD, armAD, nilRead,
          stale, autopass, pend, pret, hist, mon

core  == <<P, now, done, err, errAtDone, fin, bmu, rmu, retryNum, tset, armed, due,
           todo, farg, nops, cancelled, wdone, cbRuns, cbAD, cbDecAD, armAD, nilRead,
           stale, autopass, pend, pret>>
vars  == <<core, hist, mon>>
View  == core

TMR == 10
CTOR == 12
Callers == 1..MaxOps
Thr == Callers \cup {TMR, CTOR}
None == [e |-> "", err |-> FALSE]

Dev(d) == d \in Devs
Params == [kind: Kinds, rc: RCs, rd: RDs, to: TOs]
\* one representative parameter record per kind (unused parameters pinned)
Canon(p) == CASE p.kind = "base"  -> p.rc = 0 /\ p.rd = 1 /\ p.to = 0
              [] p.kind = "retry" -> p.to = 0
              [] p.kind = "timed" -> p.rc = 0 /\ p.rd = 1
Horizon == CASE P.kind = "base"  -> 1
             [] P.kind = "retry" -> (P.rc + 1) * P.rd + 1
             [] P.kind = "timed" -> P.to + 1

Init ==
    /\ P \in {p \in Params : Canon(p)}
    /\ now = 0 /\ done = FALSE /\ err = "nil" /\ errAtDone = "nil" /\ fin = 0
    /\ bmu = 0 /\ rmu = 0 /\ retryNum = 0
    /\ tset = FALSE /\ armed = FALSE /\ due = 0
    /\ todo = [th \in Thr |-> IF th = CTOR /\ P.kind = "timed" THEN <<"n_arm", "n_set">> ELSE <<>>]
    /\ farg = [th \in Thr |-> "nil"]
    /\ nops = 0 /\ cancelled = FALSE /\ wdone = FALSE
    /\ cbRuns = 0 /\ cbAD = 0 /\ cbDecAD = 0 /\ armAD = FALSE /\ nilRead = FALSE
    /\ stale = FALSE /\ autopass = FALSE
    /\ pend = IF Forced THEN [e |-> "new", err |-> FALSE] ELSE None
    /\ pret = 0 /\ hist = <<>> /\ mon = Mon0(P)

(* ------------------------------------------------------------ programs *)
Replace(th, seq) == todo' = [todo EXCEPT ![th] = seq \o Tail(todo[th])]
Pop(th)          == todo' = [todo EXCEPT ![th] = Tail(todo[th])]
At(th, l)        == todo[th] # <<>> /\ Head(todo[th]) = l

\* restartTimer(): stop the current timer, start a new one; the intended
\* version does not start one for a finished transaction
Rearm == IF done /\ ~Dev("F13")
         THEN armed' = FALSE /\ UNCHANGED <<due, armAD>>
         ELSE armed' = TRUE /\ due' = now + P.rd /\ armAD' = (armAD \/ done)

\* TransactionBase.Success()/Fail(e): lock; [finished already -> return]; set err; finally(); close(done); unlock
BLock(th) == /\ At(th, "b_lock") /\ bmu = 0
             /\ IF done /\ ~Dev("F12")
                THEN Pop(th) /\ UNCHANGED <<bmu, err>>
                ELSE /\ bmu' = th
                     /\ err' = IF farg[th] = "nil" THEN err ELSE farg[th]
                     /\ Replace(th, <<"b_fin", "b_close">>)
             /\ UNCHANGED <<P, now, done, errAtDone, fin, rmu, retryNum, tset, armed, due, farg, nops,
                            cancelled, wdone, cbRuns, cbAD, cbDecAD, armAD, nilRead, pend, pret, stale, autopass>>
BFin(th) == /\ At(th, "b_fin") /\ fin' = fin + 1 /\ Pop(th)
            /\ UNCHANGED <<P, now, done, err, errAtDone, bmu, rmu, retryNum, tset, armed, due, farg, nops,
                           cancelled, wdone, cbRuns, cbAD, cbDecAD, armAD, nilRead, pend, pret, stale, autopass>>
BClose(th) == /\ At(th, "b_close") /\ bmu' = 0 /\ Pop(th)
              /\ done' = TRUE /\ errAtDone' = IF done THEN errAtDone ELSE err
              /\ UNCHANGED <<P, now, err, fin, rmu, retryNum, tset, armed, due, farg, nops,
                             cancelled, wdone, cbRuns, cbAD, cbDecAD, armAD, nilRead, pend, pret, stale, autopass>>

\* stopTimer() of a caller / the watcher (t.timer is assigned: they run after the constructor)
Stop(th) == /\ At(th, "stop") /\ armed' = FALSE /\ Pop(th)
            /\ UNCHANGED <<P, now, done, err, errAtDone, fin, bmu, rmu, retryNum, tset, due, farg, nops,
                           cancelled, wdone, cbRuns, cbAD, cbDecAD, armAD, nilRead, pend, pret, stale, autopass>>

\* RetryTransaction.Proceed(): under retryNumMutex: retryNum = 0; restartTimer()
PDo(th) == /\ At(th, "p_do") /\ rmu = 0
           /\ retryNum' = 0 /\ Rearm /\ pret' = pret + 1 /\ Pop(th)
           /\ stale' = At(TMR, "t_lock")      \* an expiry that fired but has not run yet is now outdated
           /\ UNCHANGED <<P, now, done, err, errAtDone, fin, bmu, rmu, tset, farg, nops,
                          cancelled, wdone, cbRuns, cbAD, cbDecAD, nilRead, pend, autopass>>

\* the timer expires: time.AfterFunc starts a goroutine
Fire == /\ todo[TMR] = <<>> /\ armed /\ due <= now
        /\ armed' = FALSE /\ stale' = FALSE
        /\ IF P.kind = "retry"
           THEN todo' = [todo EXCEPT ![TMR] = <<"t_lock">>] /\ UNCHANGED farg
           ELSE /\ todo' = [todo EXCEPT ![TMR] = IF Dev("F13nil") THEN <<"tt_stop", "b_lock">> ELSE <<"b_lock">>]
                /\ farg' = [farg EXCEPT ![TMR] = "timeout"]
        /\ UNCHANGED <<P, now, done, err, errAtDone, fin, bmu, rmu, retryNum, tset, due, nops,
                       cancelled, wdone, cbRuns, cbAD, cbDecAD, armAD, nilRead, pend, pret, autopass>>

\* RetryTransaction.timeout(): lock; [finished or outdated expiry -> return]; retryNum++; budget exhausted -> Fail(ErrNoMoreRetries)
TLock == /\ At(TMR, "t_lock") /\ rmu = 0 /\ rmu' = TMR
         /\ IF (done /\ ~Dev("F13")) \/ (stale /\ ~Dev("F13stale"))
            THEN Replace(TMR, <<"t_unlock">>) /\ UNCHANGED <<retryNum, farg, cbDecAD>>
            ELSE /\ retryNum' = retryNum + 1
                 /\ cbDecAD' = cbDecAD + (IF done /\ retryNum + 1 <= P.rc THEN 1 ELSE 0)
                 /\ IF retryNum + 1 > P.rc
                    THEN Replace(TMR, <<"b_lock", "t_unlock">>) /\ farg' = [farg EXCEPT ![TMR] = "nomore"]
                    ELSE Replace(TMR, <<"t_cb">>) /\ UNCHANGED farg
         /\ UNCHANGED <<P, now, done, err, errAtDone, fin, bmu, tset, armed, due, nops,
                        cancelled, wdone, cbRuns, cbAD, armAD, nilRead, pend, pret, stale, autopass>>
\* the retry callback is entered (and parks until it is released)
TCb == /\ At(TMR, "t_cb") /\ Replace(TMR, IF autopass THEN <<"t_rearm">> ELSE <<"t_park">>)
       /\ cbRuns' = cbRuns + 1 /\ cbAD' = cbAD + (IF done THEN 1 ELSE 0) /\ UNCHANGED cbDecAD
       /\ UNCHANGED <<P, now, done, err, errAtDone, fin, bmu, rmu, retryNum, tset, armed, due, farg, nops,
                      cancelled, wdone, armAD, nilRead, pend, pret, stale, autopass>>
Parked == At(TMR, "t_park")
\* the callback returns; error -> Fail(err) [shipped code: and restartTimer()]; nil -> restartTimer()
CbReturn(e) ==
    /\ Parked
    /\ IF e THEN /\ farg' = [farg EXCEPT ![TMR] = "cb"]
                 /\ Replace(TMR, IF Dev("F13") THEN <<"b_lock", "t_rearm">> ELSE <<"b_lock", "t_unlock">>)
            ELSE Replace(TMR, <<"t_rearm">>) /\ UNCHANGED farg
TRearm == /\ At(TMR, "t_rearm") /\ Rearm /\ rmu' = 0 /\ Pop(TMR)
          /\ UNCHANGED <<P, now, done, err, errAtDone, fin, bmu, retryNum, tset, farg, nops,
                         cancelled, wdone, cbRuns, cbAD, cbDecAD, nilRead, pend, pret, stale, autopass>>
TUnlock == /\ At(TMR, "t_unlock") /\ rmu' = 0 /\ Pop(TMR)
           /\ UNCHANGED <<P, now, done, err, errAtDone, fin, bmu, retryNum, tset, armed, due, farg, nops,
                          cancelled, wdone, cbRuns, cbAD, cbDecAD, armAD, nilRead, pend, pret, stale, autopass>>
\* shipped TimedTransaction: the timer callback calls t.Fail -> t.stopTimer -> t.timer.Stop()
TTStop == /\ At(TMR, "tt_stop")
          /\ IF tset THEN Pop(TMR) /\ UNCHANGED nilRead
                     ELSE nilRead' = TRUE /\ todo' = [todo EXCEPT ![TMR] = <<>>]   \* panic
          /\ UNCHANGED <<P, now, done, err, errAtDone, fin, bmu, rmu, retryNum, tset, armed, due, farg, nops,
                         cancelled, wdone, cbRuns, cbAD, cbDecAD, armAD, pend, pret, stale, autopass>>

\* NewTimedTransaction: t.timer = time.AfterFunc(...) is two steps
NArm == /\ At(CTOR, "n_arm") /\ armed' = TRUE /\ due' = P.to /\ Pop(CTOR)
        /\ UNCHANGED <<P, now, done, err, errAtDone, fin, bmu, rmu, retryNum, tset, farg, nops,
                       cancelled, wdone, cbRuns, cbAD, cbDecAD, armAD, nilRead, pend, pret, stale, autopass>>
NSet == /\ At(CTOR, "n_set") /\ tset' = TRUE /\ Pop(CTOR)
        /\ UNCHANGED <<P, now, done, err, errAtDone, fin, bmu, rmu, retryNum, armed, due, farg, nops,
                       cancelled, wdone, cbRuns, cbAD, cbDecAD, armAD, nilRead, pend, pret, stale, autopass>>
Constructed == todo[CTOR] = <<>>

\* ctx watcher: select { <-ctx.Done(): stopTimer(); <-t.Done(): return }
Watch == /\ P.kind # "base" /\ Constructed /\ cancelled /\ ~wdone /\ wdone' = TRUE
         /\ \/ armed' = FALSE
            \/ done /\ UNCHANGED armed
         /\ UNCHANGED <<P, now, done, err, errAtDone, fin, bmu, rmu, retryNum, tset, due, todo, farg, nops,
                        cancelled, cbRuns, cbAD, cbDecAD, armAD, nilRead, pend, pret, stale, autopass>>

Internal == \/ \E th \in Thr : BLock(th) \/ BFin(th) \/ BClose(th) \/ Stop(th) \/ PDo(th)
            \/ Fire \/ TLock \/ TCb \/ TRearm \/ TUnlock \/ TTStop \/ NArm \/ NSet \/ Watch
\* nothing can run (explicit form; QuiescentDef cross-checks it against ENABLED)
Runnable == \/ \E th \in Thr : /\ todo[th] # <<>>
                               /\ \/ Head(todo[th]) \in {"b_fin", "b_close", "stop", "t_cb", "t_rearm", "t_unlock",
                                                        "tt_stop", "n_arm", "n_set"}
                                  \/ Head(todo[th]) = "b_lock" /\ bmu = 0
                                  \/ Head(todo[th]) \in {"p_do", "t_lock"} /\ rmu = 0
            \/ todo[TMR] = <<>> /\ armed /\ due <= now
            \/ P.kind # "base" /\ todo[CTOR] = <<>> /\ cancelled /\ ~wdone
Quiescent == ~Runnable
QuiescentDef == Quiescent <=> ~ENABLED Internal

(* --------------------------------------------------------- environment *)
Program(k) ==
    CASE k = "P" -> <<"p_do">>
      [] P.kind = "base" -> <<"b_lock">>
      [] P.kind = "timed" -> <<"stop", "b_lock">>
      [] P.kind = "retry" -> IF Dev("F13") THEN <<"stop", "b_lock">> ELSE <<"b_lock", "stop">>

OpKinds == IF P.kind = "retry" THEN {"S", "F", "P"} ELSE {"S", "F"}
MayIssue == IF Forced THEN pend = None /\ Quiescent ELSE TRUE
Post(e, cberr) == pend' = IF Forced THEN [e |-> e, err |-> cberr] ELSE None

Op(k) == /\ MayIssue /\ Constructed /\ nops < MaxOps
         /\ k \in OpKinds
         /\ Forced /\ k = "P" => ~Parked     \* would only queue behind timeout(); same as issuing it after the release
         /\ nops' = nops + 1
         /\ todo' = [todo EXCEPT ![nops + 1] = Program(k)]
         /\ farg' = [farg EXCEPT ![nops + 1] = IF k = "F" THEN "user" ELSE "nil"]
         /\ Post(k, FALSE)
         /\ UNCHANGED <<P, now, done, err, errAtDone, fin, bmu, rmu, retryNum, tset, armed, due,
                        cancelled, wdone, cbRuns, cbAD, cbDecAD, armAD, nilRead, pret, stale, autopass>>
Cancel == /\ MayIssue /\ Constructed /\ nops < MaxOps /\ P.kind # "base" /\ ~cancelled
          /\ nops' = nops + 1 /\ cancelled' = TRUE /\ Post("C", FALSE)
          /\ UNCHANGED <<P, now, done, err, errAtDone, fin, bmu, rmu, retryNum, tset, armed, due, todo, farg,
                         wdone, cbRuns, cbAD, cbDecAD, armAD, nilRead, pret, stale, autopass>>
Rel(e) == /\ MayIssue /\ CbReturn(e) /\ Post("rel", e)
          /\ UNCHANGED <<P, now, done, err, errAtDone, fin, bmu, rmu, retryNum, tset, armed, due, nops,
                         cancelled, wdone, cbRuns, cbAD, cbDecAD, armAD, nilRead, pret, stale, autopass>>
Tick == /\ pend = None /\ Quiescent /\ ~Parked /\ now < Horizon
        /\ now' = now + 1 /\ Post("tick", FALSE)
        /\ UNCHANGED <<P, done, err, errAtDone, fin, bmu, rmu, retryNum, tset, armed, due, todo, farg, nops,
                       cancelled, wdone, cbRuns, cbAD, cbDecAD, armAD, nilRead, pret, stale, autopass>>

\* a tick that makes a timer expire, with an API call issued at that very instant:
\* the call races with the expiry (the window between time.AfterFunc's goroutine
\* starting and timeout() taking its lock); the retry callback does not park
TickOp(k) == /\ Forced /\ pend = None /\ Quiescent /\ ~Parked /\ now < Horizon
             /\ Constructed /\ nops < MaxOps /\ k \in OpKinds
             /\ armed /\ due = now + 1
             /\ now' = now + 1 /\ nops' = nops + 1 /\ autopass' = TRUE
             /\ todo' = [todo EXCEPT ![nops + 1] = Program(k)]
             /\ farg' = [farg EXCEPT ![nops + 1] = IF k = "F" THEN "user" ELSE "nil"]
             /\ Post("t" \o k, FALSE)
             /\ UNCHANGED <<P, done, err, errAtDone, fin, bmu, rmu, retryNum, tset, armed, due,
                            cancelled, wdone, cbRuns, cbAD, cbDecAD, armAD, nilRead, stale, pret>>

Env == \/ \E k \in {"S", "F", "P"} : Op(k) \/ TickOp(k)
       \/ Cancel \/ Tick
       \/ \E e \in (IF CbMayFail THEN BOOLEAN ELSE {FALSE}) : Rel(e)

(* ---------------------------------------------------------- observation *)
\* finad = 0: in the model finally() (b_fin) always precedes close(done) (b_close) within finish()
Obs(ev) == [ev |-> ev.e, cberr |-> ev.err, now |-> now, done |-> done, err |-> err, fin |-> fin, finad |-> 0,
            cb |-> cbRuns, cbad |-> cbAD, pret |-> pret, parked |-> Parked]
Sched(h) == [kind |-> P.kind, rc |-> P.rc, rd |-> P.rd, to |-> P.to, ev |-> Tail(h)]
Observe == /\ Forced /\ pend # None /\ Quiescent
           /\ mon' = MonStep(mon, Obs(pend))
           /\ hist' = Append(hist, pend)
           /\ pend' = None /\ pret' = 0 /\ autopass' = FALSE
           /\ CASE Emit = "all" -> PrintT("SCHED:" \o ToJson(Sched(hist')))
                [] Emit = "end" -> (now = Horizon => PrintT("SCHED:" \o ToJson(Sched(hist'))))
                [] OTHER -> TRUE
           /\ UNCHANGED <<P, now, done, err, errAtDone, fin, bmu, rmu, retryNum, tset, armed, due, todo, farg,
                          nops, cancelled, wdone, cbRuns, cbAD, cbDecAD, armAD, nilRead, stale>>

Next == \/ (Internal /\ UNCHANGED <<hist, mon>>)
        \/ (Env /\ UNCHANGED <<hist, mon>>)
        \/ Observe
Spec == Init /\ [][Next]_vars

(* ----------------------------------------------------------- properties *)
\* C18, state form (every interleaving): completes at most once, Err frozen at
\* Done, finally exactly once, no retry decided / timer started after Done
\* (a callback that timeout() decided on before Done closed may still be entered
\* concurrently with Success(); in forced schedules decision and entry coincide
\* and the monitor sees cbAD),
\* no timer left running for a finished transaction, t.timer never used unset
PropS_C18 == /\ fin <= 1
             /\ done => (fin = 1 /\ err = errAtDone)
             /\ cbDecAD = 0     \* timeout() never decides to retry a finished transaction
             /\ ~armAD
             /\ ~nilRead
             /\ (done /\ Quiescent) => ~armed
\* C18 / C19 as the monitor states them (forced mode; the same operators judge the real code)
Prop_C18 == PropS_C18 /\ mon.v18 = ""
Prop_C19 == mon.v19 = ""

TypeOK == /\ bmu \in Thr \cup {0} /\ rmu \in Thr \cup {0} /\ retryNum \in 0..(P.rc + 1)
          /\ fin \in 0..(MaxOps + 4) /\ now \in 0..Horizon
=============================================================================
