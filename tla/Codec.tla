------------------------------- MODULE Codec -------------------------------
(***************************************************************************)
(* MQTT-SN 1.2 wire format as bisquitt uses it (28 packet types including  *)
(* the non-standard AUTH extension 0x03).  Pure (constant) module: no      *)
(* variables, so it can be EXTENDed / INSTANCEd by model-checking wrappers *)
(* (MC_Codec), by the codec trace spec (Trace_Codec) and by the session    *)
(* trace specs as datagram oracle.                                         *)
(*                                                                         *)
(* A datagram is a sequence over 0..255.  A packet is a *uniform* record   *)
(* (all fields always present, unused ones at their default) so that       *)
(* packets can be compared with `=', printed with ToJson and read back     *)
(* from the Go driver without missing-field errors.  Strings (topic names, *)
(* client ids, auth method) are byte sequences.                            *)
(*                                                                         *)
(*   Parse(d)   total:  [ok |-> FALSE, ...] or [ok |-> TRUE, hl, lenf, pkt]*)
(*   Encode(p)  canonical datagram of a packet                             *)
(*                                                                         *)
(* Header (MQTT-SN 1.2, 5.2.1): if the first octet is 0x01 the length      *)
(* field is 3 octets (0x01, hi, lo) and the header is 4 octets, otherwise  *)
(* the header is 2 octets.  The *body* of a datagram is everything after   *)
(* the header form actually present (the transport delivers whole          *)
(* datagrams; the value of the length field is not used for slicing -      *)
(* WellFormed() adds `length field = size' for datagrams that are sent).   *)
(* The encoder uses the 1-octet form iff the total size is <= 255.         *)
(*                                                                         *)
(* Every sequence access below is guarded by a length test; TLC raises an  *)
(* evaluation error on any out-of-range application, so checking           *)
(* Inv_ParseTotal over a set of datagrams proves that Parse never reads    *)
(* outside the datagram on that set.                                       *)
(***************************************************************************)
EXTENDS Integers, Sequences, FiniteSets

Byte == 0..255

-----------------------------------------------------------------------------
(* Type codes *)
ADVERTISE     == 0
SEARCHGW      == 1
GWINFO        == 2
AUTH          == 3     \* bisquitt extension (reserved in MQTT-SN 1.2)
CONNECT       == 4
CONNACK       == 5
WILLTOPICREQ  == 6
WILLTOPIC     == 7
WILLMSGREQ    == 8
WILLMSG       == 9
REGISTER      == 10
REGACK        == 11
PUBLISH       == 12
PUBACK        == 13
PUBCOMP       == 14
PUBREC        == 15
PUBREL        == 16
SUBSCRIBE     == 18
SUBACK        == 19
UNSUBSCRIBE   == 20
UNSUBACK      == 21
PINGREQ       == 22
PINGRESP      == 23
DISCONNECT    == 24
WILLTOPICUPD  == 26
WILLTOPICRESP == 27
WILLMSGUPD    == 28
WILLMSGRESP   == 29

Types == {ADVERTISE, SEARCHGW, GWINFO, AUTH, CONNECT, CONNACK, WILLTOPICREQ,
          WILLTOPIC, WILLMSGREQ, WILLMSG, REGISTER, REGACK, PUBLISH, PUBACK,
          PUBCOMP, PUBREC, PUBREL, SUBSCRIBE, SUBACK, UNSUBSCRIBE, UNSUBACK,
          PINGREQ, PINGRESP, DISCONNECT, WILLTOPICUPD, WILLTOPICRESP,
          WILLMSGUPD, WILLMSGRESP}

ASSUME Cardinality(Types) = 28

TypeName(t) ==
  CASE t = ADVERTISE -> "ADVERTISE" [] t = SEARCHGW -> "SEARCHGW" [] t = GWINFO -> "GWINFO"
    [] t = AUTH -> "AUTH" [] t = CONNECT -> "CONNECT" [] t = CONNACK -> "CONNACK"
    [] t = WILLTOPICREQ -> "WILLTOPICREQ" [] t = WILLTOPIC -> "WILLTOPIC"
    [] t = WILLMSGREQ -> "WILLMSGREQ" [] t = WILLMSG -> "WILLMSG" [] t = REGISTER -> "REGISTER"
    [] t = REGACK -> "REGACK" [] t = PUBLISH -> "PUBLISH" [] t = PUBACK -> "PUBACK"
    [] t = PUBCOMP -> "PUBCOMP" [] t = PUBREC -> "PUBREC" [] t = PUBREL -> "PUBREL"
    [] t = SUBSCRIBE -> "SUBSCRIBE" [] t = SUBACK -> "SUBACK" [] t = UNSUBSCRIBE -> "UNSUBSCRIBE"
    [] t = UNSUBACK -> "UNSUBACK" [] t = PINGREQ -> "PINGREQ" [] t = PINGRESP -> "PINGRESP"
    [] t = DISCONNECT -> "DISCONNECT" [] t = WILLTOPICUPD -> "WILLTOPICUPD"
    [] t = WILLTOPICRESP -> "WILLTOPICRESP" [] t = WILLMSGUPD -> "WILLMSGUPD"
    [] t = WILLMSGRESP -> "WILLMSGRESP" [] OTHER -> "RESERVED"

(* Direction tables (used by WellFormed, property C23 of the session specs) *)
GwToCl == {ADVERTISE, GWINFO, CONNACK, WILLTOPICREQ, WILLMSGREQ, REGISTER, REGACK, PUBLISH,
           PUBACK, PUBREC, PUBREL, PUBCOMP, SUBACK, UNSUBACK, PINGREQ, PINGRESP, DISCONNECT,
           WILLTOPICRESP, WILLMSGRESP}
ClToGw == {SEARCHGW, AUTH, CONNECT, WILLTOPIC, WILLMSG, REGISTER, REGACK, PUBLISH, PUBACK,
           PUBREC, PUBREL, PUBCOMP, SUBSCRIBE, UNSUBSCRIBE, PINGREQ, PINGRESP, DISCONNECT,
           WILLTOPICUPD, WILLMSGUPD}

MaxPacketLen == 8192
MaxPayloadLength == 7168

-----------------------------------------------------------------------------
(* Arithmetic helpers (no bit operators needed) *)
U16(s, i) == s[i] * 256 + s[i + 1]
BE(n)     == <<(n \div 256) % 256, n % 256>>
Bit(b, m) == (b \div m) % 2 = 1          \* m is the bit's weight: 128, 16, 8, 4
QoSOf(b)  == (b \div 32) % 4
TitOf(b)  == b % 4
B2N(x, m) == IF x THEN m ELSE 0

-----------------------------------------------------------------------------
(* Packets: uniform records *)
Blank == [type |-> -1, dup |-> FALSE, qos |-> 0, retain |-> FALSE, will |-> FALSE,
          clean |-> FALSE, tit |-> 0, topicid |-> 0, msgid |-> 0, rc |-> 0,
          duration |-> 0, protoid |-> 0, gwid |-> 0, radius |-> 0, reason |-> 0,
          method |-> <<>>, data |-> <<>>, topic |-> <<>>, clientid |-> <<>>]

FieldNames == {"type", "dup", "qos", "retain", "will", "clean", "tit", "topicid", "msgid",
               "rc", "duration", "protoid", "gwid", "radius", "reason", "method", "data",
               "topic", "clientid"}

P0(t) == [Blank EXCEPT !.type = t]

-----------------------------------------------------------------------------
(* Header *)
HdrOk(d)  == Len(d) >= 2 /\ (d[1] = 1 => Len(d) >= 4)
IsLong(d) == d[1] = 1
HL(d)     == IF d[1] = 1 THEN 4 ELSE 2
LenF(d)   == IF d[1] = 1 THEN U16(d, 2) ELSE d[1]
TypeOf(d) == d[HL(d)]
BodyOf(d) == SubSeq(d, HL(d) + 1, Len(d))

Header(t, n) ==          \* encoder's header for a body of n octets
  IF n + 2 <= 255 THEN <<n + 2, t>> ELSE <<1>> \o BE(n + 4) \o <<t>>

-----------------------------------------------------------------------------
(* Per-type body layouts.  b = body (everything after the actual header),    *)
(* n = Len(b).  Returns [ok, why, pkt].                                      *)
No(why) == [ok |-> FALSE, why |-> why, pkt |-> Blank]
Yes(p)  == [ok |-> TRUE, why |-> "", pkt |-> p]

ParseTopicSel(t, b, p) ==    \* SUBSCRIBE / UNSUBSCRIBE tail: name or 2-octet id by TopicIdType
  LET n == Len(b) tit == TitOf(b[1]) IN
  CASE tit = 0 -> Yes([p EXCEPT !.tit = 0, !.msgid = U16(b, 2), !.topic = SubSeq(b, 4, n)])
    [] tit \in {1, 2} ->
         IF n = 5 THEN Yes([p EXCEPT !.tit = tit, !.msgid = U16(b, 2), !.topicid = U16(b, 4)])
         ELSE No("bad-length")
    [] OTHER -> No("reserved-topic-id-type")

ParseBody(t, b) ==
  LET n == Len(b) IN
  IF t \notin Types THEN No("reserved-type")     \* (first: cheap exit for the 228 reserved codes)
  ELSE
  CASE t = ADVERTISE ->
         IF n = 3 THEN Yes([P0(t) EXCEPT !.gwid = b[1], !.duration = U16(b, 2)]) ELSE No("bad-length")
    [] t = SEARCHGW ->
         IF n = 1 THEN Yes([P0(t) EXCEPT !.radius = b[1]]) ELSE No("bad-length")
    [] t = GWINFO ->
         IF n >= 1 THEN Yes([P0(t) EXCEPT !.gwid = b[1], !.data = SubSeq(b, 2, n)]) ELSE No("bad-length")
    [] t = AUTH ->          \* reason, method length, method, data
         IF n >= 2 /\ n >= 2 + b[2]
         THEN Yes([P0(t) EXCEPT !.reason = b[1], !.method = SubSeq(b, 3, 2 + b[2]),
                                !.data = SubSeq(b, 3 + b[2], n)])
         ELSE No("bad-length")
    [] t = CONNECT ->       \* flags, protocol id (must be 1), duration, client id (>= 1 octet)
         IF n >= 5
         THEN IF b[2] = 1
              THEN Yes([P0(t) EXCEPT !.will = Bit(b[1], 8), !.clean = Bit(b[1], 4), !.protoid = 1,
                                     !.duration = U16(b, 3), !.clientid = SubSeq(b, 5, n)])
              ELSE No("bad-protocol-id")
         ELSE No("bad-length")
    [] t \in {CONNACK, WILLTOPICRESP, WILLMSGRESP} ->
         IF n = 1 THEN Yes([P0(t) EXCEPT !.rc = b[1]]) ELSE No("bad-length")
    [] t \in {WILLTOPICREQ, WILLMSGREQ, PINGRESP} ->
         IF n = 0 THEN Yes(P0(t)) ELSE No("bad-length")
    [] t \in {WILLTOPIC, WILLTOPICUPD} ->   \* empty form (no flags, no topic) or flags + topic (>= 1)
         IF n = 0 THEN Yes(P0(t))
         ELSE IF n >= 2
              THEN Yes([P0(t) EXCEPT !.qos = QoSOf(b[1]), !.retain = Bit(b[1], 16),
                                     !.topic = SubSeq(b, 2, n)])
              ELSE No("bad-length")
    [] t \in {WILLMSG, WILLMSGUPD} -> Yes([P0(t) EXCEPT !.data = b])
    [] t = REGISTER ->      \* topic id, msg id, topic name (>= 1 octet)
         IF n >= 5
         THEN Yes([P0(t) EXCEPT !.topicid = U16(b, 1), !.msgid = U16(b, 3), !.topic = SubSeq(b, 5, n)])
         ELSE No("bad-length")
    [] t \in {REGACK, PUBACK} ->
         IF n = 5
         THEN Yes([P0(t) EXCEPT !.topicid = U16(b, 1), !.msgid = U16(b, 3), !.rc = b[5]])
         ELSE No("bad-length")
    [] t = PUBLISH ->       \* flags, topic id, msg id, data
         IF n >= 5
         THEN Yes([P0(t) EXCEPT !.dup = Bit(b[1], 128), !.qos = QoSOf(b[1]), !.retain = Bit(b[1], 16),
                                !.tit = TitOf(b[1]), !.topicid = U16(b, 2), !.msgid = U16(b, 4),
                                !.data = SubSeq(b, 6, n)])
         ELSE No("bad-length")
    [] t \in {PUBCOMP, PUBREC, PUBREL, UNSUBACK} ->
         IF n = 2 THEN Yes([P0(t) EXCEPT !.msgid = U16(b, 1)]) ELSE No("bad-length")
    [] t = SUBSCRIBE ->     \* flags, msg id, topic name (>= 1) | topic id
         IF n >= 4
         THEN ParseTopicSel(t, b, [P0(t) EXCEPT !.dup = Bit(b[1], 128), !.qos = QoSOf(b[1])])
         ELSE No("bad-length")
    [] t = UNSUBSCRIBE ->
         IF n >= 4 THEN ParseTopicSel(t, b, P0(t)) ELSE No("bad-length")
    [] t = SUBACK ->        \* flags, topic id, msg id, return code
         IF n = 6
         THEN Yes([P0(t) EXCEPT !.qos = QoSOf(b[1]), !.topicid = U16(b, 2), !.msgid = U16(b, 4),
                                !.rc = b[6]])
         ELSE No("bad-length")
    [] t = PINGREQ -> Yes([P0(t) EXCEPT !.clientid = b])
    [] t = DISCONNECT ->    \* optional duration; duration 0 == no duration
         IF n = 0 THEN Yes(P0(t))
         ELSE IF n = 2 THEN Yes([P0(t) EXCEPT !.duration = U16(b, 1)]) ELSE No("bad-length")
    [] OTHER -> No("reserved-type")

Fail(why) == [ok |-> FALSE, why |-> why, hl |-> 0, lenf |-> 0, pkt |-> Blank]

Parse(d) ==
  IF Len(d) < 2 THEN Fail("short")
  ELSE IF d[1] = 1 /\ Len(d) < 4 THEN Fail("long-header-truncated")
  ELSE LET r == ParseBody(TypeOf(d), BodyOf(d)) IN
       IF r.ok THEN [ok |-> TRUE, why |-> "", hl |-> HL(d), lenf |-> LenF(d), pkt |-> r.pkt]
       ELSE Fail(r.why)

(* What a decoder decodes that derives the header length from the *announced* length        *)
(* (<= 255 => 2 octets) instead of from the form present: for a 3-octet length announcing       *)
(* <= 255 the body then starts two octets early.  Not part of the intended format; used only   *)
(* to name the mechanism of a finding (signature C22/body-offset/long-form-small-length).       *)
WrongOffsetParse(d) == ParseBody(d[4], SubSeq(d, 3, Len(d)))
IsWrongOffsetDecode(d, pkt) ==
  /\ Len(d) >= 4 /\ d[1] = 1 /\ LenF(d) <= 255
  /\ WrongOffsetParse(d).ok /\ WrongOffsetParse(d).pkt = pkt

-----------------------------------------------------------------------------
(* Encoder *)
EncBody(p) ==
  LET t == p.type IN
  CASE t = ADVERTISE -> <<p.gwid>> \o BE(p.duration)
    [] t = SEARCHGW -> <<p.radius>>
    [] t = GWINFO -> <<p.gwid>> \o p.data
    [] t = AUTH -> <<p.reason, Len(p.method)>> \o p.method \o p.data
    [] t = CONNECT -> <<B2N(p.will, 8) + B2N(p.clean, 4), p.protoid>> \o BE(p.duration) \o p.clientid
    [] t \in {CONNACK, WILLTOPICRESP, WILLMSGRESP} -> <<p.rc>>
    [] t \in {WILLTOPICREQ, WILLMSGREQ, PINGRESP} -> <<>>
    [] t \in {WILLTOPIC, WILLTOPICUPD} ->
         IF p.topic = <<>> THEN <<>> ELSE <<p.qos * 32 + B2N(p.retain, 16)>> \o p.topic
    [] t \in {WILLMSG, WILLMSGUPD} -> p.data
    [] t = REGISTER -> BE(p.topicid) \o BE(p.msgid) \o p.topic
    [] t \in {REGACK, PUBACK} -> BE(p.topicid) \o BE(p.msgid) \o <<p.rc>>
    [] t = PUBLISH -> <<B2N(p.dup, 128) + p.qos * 32 + B2N(p.retain, 16) + p.tit>>
                      \o BE(p.topicid) \o BE(p.msgid) \o p.data
    [] t \in {PUBCOMP, PUBREC, PUBREL, UNSUBACK} -> BE(p.msgid)
    [] t = SUBSCRIBE -> <<B2N(p.dup, 128) + p.qos * 32 + p.tit>> \o BE(p.msgid)
                        \o (IF p.tit = 0 THEN p.topic ELSE BE(p.topicid))
    [] t = UNSUBSCRIBE -> <<p.tit>> \o BE(p.msgid) \o (IF p.tit = 0 THEN p.topic ELSE BE(p.topicid))
    [] t = SUBACK -> <<p.qos * 32>> \o BE(p.topicid) \o BE(p.msgid) \o <<p.rc>>
    [] t = PINGREQ -> p.clientid
    [] t = DISCONNECT -> IF p.duration = 0 THEN <<>> ELSE BE(p.duration)
    [] OTHER -> <<>>

Encode(p) == LET b == EncBody(p) IN Header(p.type, Len(b)) \o b

-----------------------------------------------------------------------------
(* Legal packets: only the fields of the type are set, all within range.    *)
U16Range == 0..65535
IsBytes(s) == \A i \in 1..Len(s) : s[i] \in Byte

Relevant(p) ==      \* p with every field that its type does not carry reset to the default
  LET t == p.type IN
  CASE t = ADVERTISE -> [P0(t) EXCEPT !.gwid = p.gwid, !.duration = p.duration]
    [] t = SEARCHGW -> [P0(t) EXCEPT !.radius = p.radius]
    [] t = GWINFO -> [P0(t) EXCEPT !.gwid = p.gwid, !.data = p.data]
    [] t = AUTH -> [P0(t) EXCEPT !.reason = p.reason, !.method = p.method, !.data = p.data]
    [] t = CONNECT -> [P0(t) EXCEPT !.will = p.will, !.clean = p.clean, !.protoid = p.protoid,
                                    !.duration = p.duration, !.clientid = p.clientid]
    [] t \in {CONNACK, WILLTOPICRESP, WILLMSGRESP} -> [P0(t) EXCEPT !.rc = p.rc]
    [] t \in {WILLTOPICREQ, WILLMSGREQ, PINGRESP} -> P0(t)
    [] t \in {WILLTOPIC, WILLTOPICUPD} ->
         IF p.topic = <<>> THEN P0(t)
         ELSE [P0(t) EXCEPT !.qos = p.qos, !.retain = p.retain, !.topic = p.topic]
    [] t \in {WILLMSG, WILLMSGUPD} -> [P0(t) EXCEPT !.data = p.data]
    [] t = REGISTER -> [P0(t) EXCEPT !.topicid = p.topicid, !.msgid = p.msgid, !.topic = p.topic]
    [] t \in {REGACK, PUBACK} -> [P0(t) EXCEPT !.topicid = p.topicid, !.msgid = p.msgid, !.rc = p.rc]
    [] t = PUBLISH -> [P0(t) EXCEPT !.dup = p.dup, !.qos = p.qos, !.retain = p.retain, !.tit = p.tit,
                                    !.topicid = p.topicid, !.msgid = p.msgid, !.data = p.data]
    [] t \in {PUBCOMP, PUBREC, PUBREL, UNSUBACK} -> [P0(t) EXCEPT !.msgid = p.msgid]
    [] t = SUBSCRIBE ->
         IF p.tit = 0
         THEN [P0(t) EXCEPT !.dup = p.dup, !.qos = p.qos, !.msgid = p.msgid, !.topic = p.topic]
         ELSE [P0(t) EXCEPT !.dup = p.dup, !.qos = p.qos, !.tit = p.tit, !.msgid = p.msgid,
                            !.topicid = p.topicid]
    [] t = UNSUBSCRIBE ->
         IF p.tit = 0 THEN [P0(t) EXCEPT !.msgid = p.msgid, !.topic = p.topic]
         ELSE [P0(t) EXCEPT !.tit = p.tit, !.msgid = p.msgid, !.topicid = p.topicid]
    [] t = SUBACK -> [P0(t) EXCEPT !.qos = p.qos, !.topicid = p.topicid, !.msgid = p.msgid, !.rc = p.rc]
    [] t = PINGREQ -> [P0(t) EXCEPT !.clientid = p.clientid]
    [] t = DISCONNECT -> [P0(t) EXCEPT !.duration = p.duration]
    [] OTHER -> Blank

LegalPkt(p) ==
  /\ p.type \in Types
  /\ p = Relevant(p)
  /\ p.qos \in 0..3 /\ p.tit \in 0..3
  /\ p.topicid \in U16Range /\ p.msgid \in U16Range /\ p.duration \in U16Range
  /\ p.rc \in Byte /\ p.gwid \in Byte /\ p.radius \in Byte /\ p.reason \in Byte
  /\ IsBytes(p.method) /\ IsBytes(p.data) /\ IsBytes(p.topic) /\ IsBytes(p.clientid)
  /\ Len(p.method) <= 255
  /\ Len(p.data) <= MaxPayloadLength /\ Len(p.topic) <= MaxPayloadLength
  /\ Len(p.clientid) <= MaxPayloadLength
  /\ (p.type = CONNECT => p.protoid = 1 /\ Len(p.clientid) >= 1)
  /\ (p.type # CONNECT => p.protoid = 0)
  /\ (p.type = REGISTER => Len(p.topic) >= 1)
  /\ (p.type \in {SUBSCRIBE, UNSUBSCRIBE} => p.tit \in 0..2 /\ (p.tit = 0 => Len(p.topic) >= 1))

-----------------------------------------------------------------------------
(* C21: encode-then-decode, length field, header form                        *)
Prop_C21(p) ==
  LegalPkt(p) =>
    LET d == Encode(p) r == Parse(d) IN
      /\ r.ok /\ r.pkt = p
      /\ r.lenf = Len(d)                          \* length field = datagram size
      /\ (r.hl = 2 <=> Len(d) <= 255)             \* 1-octet length form iff size <= 255
      /\ Len(d) <= MaxPacketLen

(* Short topic names: 2 octets <-> 16 bit id *)
EncShort(s)  == s[1] * 256 + s[2]
DecShort(id) == <<id \div 256, id % 256>>
Prop_ShortBijection(ids) ==      \* Enc o Dec = identity on ids (so Dec is injective on ids)
  \A id \in ids : EncShort(DecShort(id)) = id /\ Len(DecShort(id)) = 2 /\ IsBytes(DecShort(id))
Prop_ShortInjective(ids) ==      \* the same fact stated pairwise (quadratic: use a reduced range)
  \A id1, id2 \in ids : DecShort(id1) = DecShort(id2) => id1 = id2
Prop_ShortBijectionNames(bs) ==  \* Dec o Enc = identity on all names over bs x bs (Enc injective, Dec onto)
  \A a, b \in bs : DecShort(EncShort(<<a, b>>)) = <<a, b>> /\ EncShort(<<a, b>>) \in U16Range

-----------------------------------------------------------------------------
(* C22: a decoded packet reflects the datagram.  CanonBody(d) is the body of *)
(* d with exactly the allowed differences applied: flag bits the type        *)
(* ignores are cleared and a DISCONNECT duration of 0 is dropped.            *)
CanonFlags(t, f) ==
  CASE t = PUBLISH -> f - ((f \div 4) % 4) * 4                 \* keeps DUP, QoS, Retain, TopicIdType
    [] t = SUBSCRIBE -> f - ((f \div 4) % 8) * 4               \* keeps DUP, QoS, TopicIdType
    [] t = UNSUBSCRIBE -> f % 4                                \* keeps TopicIdType
    [] t = SUBACK -> ((f \div 32) % 4) * 32                    \* keeps QoS
    [] t = CONNECT -> ((f \div 4) % 4) * 4                     \* keeps Will, CleanSession
    [] t \in {WILLTOPIC, WILLTOPICUPD} -> ((f \div 16) % 8) * 16   \* keeps QoS, Retain
    [] OTHER -> f

HasFlags(t) == t \in {PUBLISH, SUBSCRIBE, UNSUBSCRIBE, SUBACK, CONNECT, WILLTOPIC, WILLTOPICUPD}

CanonBody(d) ==
  LET t == TypeOf(d) b == BodyOf(d) IN
  IF t = DISCONNECT /\ b = <<0, 0>> THEN <<>>
  ELSE IF HasFlags(t) /\ Len(b) >= 1 THEN <<CanonFlags(t, b[1])>> \o Tail(b)
  ELSE b

Prop_C22(d) ==
  LET r == Parse(d) IN
  r.ok =>
    LET e == Encode(r.pkt) IN
      /\ TypeOf(e) = TypeOf(d)
      /\ BodyOf(e) = CanonBody(d)          \* every field sits at its layout position after the actual header
      /\ Parse(e).ok /\ Parse(e).pkt = r.pkt
      /\ r.hl = (IF d[1] = 1 THEN 4 ELSE 2)
      /\ (LegalPkt(r.pkt) \/ Len(BodyOf(d)) > MaxPayloadLength)   \* what decodes is a legal packet

(* C20 on the spec side: Parse is total (evaluates without error) *)
Inv_ParseTotal(d) == Parse(d).ok \in BOOLEAN

-----------------------------------------------------------------------------
(* C23 helper for the session specs *)
WellFormed(d, dir) ==
  LET r == Parse(d) IN
  /\ r.ok
  /\ r.lenf = Len(d)
  /\ (r.hl = 2 <=> Len(d) <= 255)
  /\ Len(d) <= MaxPacketLen
  /\ r.pkt.type \in dir

-----------------------------------------------------------------------------
(* Structural class of a datagram; names the mechanism in finding signatures. *)
(* Class: for decode-fidelity findings (the header form dominates);            *)
(* PanicClass: for crashes (the AUTH method-length octet dominates).           *)
AuthOverflow(d) == TypeOf(d) = AUTH /\ Len(BodyOf(d)) >= 2 /\ BodyOf(d)[2] >= 254

Class(d) ==
  IF Len(d) < 2 THEN "short"
  ELSE IF d[1] = 1 /\ Len(d) < 4 THEN "long-header-truncated"
  ELSE IF d[1] = 1 /\ LenF(d) <= 255 THEN "long-form-small-length"
  ELSE IF AuthOverflow(d) THEN "auth-method-len-overflow"
  ELSE IF TypeOf(d) \notin Types THEN "reserved-type"
  ELSE IF LenF(d) # Len(d) THEN "length-field-mismatch"
  ELSE "canonical"

PanicClass(d) ==
  IF HdrOk(d) /\ AuthOverflow(d) THEN "auth-method-len-overflow" ELSE Class(d)

ClassNames == {"short", "long-header-truncated", "auth-method-len-overflow",
               "long-form-small-length", "reserved-type", "length-field-mismatch", "canonical"}

TypeAt(d) == IF HdrOk(d) THEN TypeOf(d) ELSE -1
=============================================================================
