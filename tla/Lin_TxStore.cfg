CONSTANTS
  K = {}
  V = {}
  MaxOps = 0
INIT LInit
NEXT LNext
INVARIANT Conf_Spec
