---------------------------- MODULE ClientLib ----------------------------
(***************************************************************************)
(* One bisquitt client.Client (client/client.go, net.go, *_transaction.go, *)
(* sleep_transaction.go, message_handlers.go) at the granularity of       *)
(* quiescent steps: an API call begins, a packet arrives from the gateway, *)
(* or virtual time advances until timers fire.  Time is in ticks of 100 ms.*)
(*                                                                         *)
(* The behaviour is written as pure step functions over a state record so  *)
(* that the same definitions are used (1) by the model-checking / schedule *)
(* generating specification at the end of this module and (2) by          *)
(* Trace_ClientLib.tla, which replays traces recorded from the real code.  *)
(* Dev is the set of named deviations of the current code from the         *)
(* intended behaviour; with Dev = {} the specification is the intended one.*)
(***************************************************************************)
EXTENDS Integers, Sequences, FiniteSets, TLC, Json

CONSTANTS Dev,        \* subset of DevNames
          CfgRD, CfgRC, CfgCT, CfgKA,  \* RetryDelay, RetryCount, ConnectTimeout, KeepAlive (ticks)
          GenApis,    \* API calls the generator may issue (records, see ApiEv)
          GenGw,      \* gateway packet templates the generator may inject
          GenMids,    \* message IDs for gateway-initiated / foreign packets
          MaxEv,      \* bound on the number of environment events
          MaxCalls    \* bound on API calls

DevNames == {"NoDupPublish",      \* F14 retransmitted PUBLISH without DUP
             "PubrelDropped",     \* F15 PUBREL without exchange is dropped
             "RegisterReject",    \* F16 REGISTER for a known name always rejected
             "NilOnTerminate",    \* pending calls return nil when the client terminates cleanly
             "SharedStore",       \* C06: one store for both directions
             "KaSync"}            \* keep-alive loop blocks inside Ping()

PW == 600   \* maxPingrespWait = 1 minute
RT == 10    \* receive loop read timeout = 1 s: upper bound of the shutdown latency

---------------------------------------------------------------------------
(* Topic-filter matching, MQTT 3.1.1 section 4.7.  Filters and names are   *)
(* sequences of levels.                                                    *)
ValidFilter(f) == \A i \in 1..Len(f) : f[i] = "#" => i = Len(f)

RECURSIVE MatchesRec(_, _)
MatchesRec(f, n) ==
    IF Len(f) = 0 THEN Len(n) = 0
    ELSE IF f[1] = "#" THEN Len(f) = 1          \* multi-level wildcard: only as last level; matches parent too
    ELSE IF Len(n) = 0 THEN FALSE
    ELSE (f[1] = "+" \/ f[1] = n[1]) /\ MatchesRec(Tail(f), Tail(n))

(* closed form, used to cross-check the recursive definition *)
MatchesDecl(f, n) ==
    /\ ValidFilter(f)
    /\ IF Len(f) > 0 /\ f[Len(f)] = "#"
       THEN /\ Len(n) >= Len(f) - 1
            /\ \A i \in 1..(Len(f) - 1) : f[i] = "+" \/ f[i] = n[i]
       ELSE /\ Len(n) = Len(f)
            /\ \A i \in 1..Len(f) : f[i] = "+" \/ f[i] = n[i]

Matches(f, n) == MatchesRec(f, n)

---------------------------------------------------------------------------
(* helpers *)
Upd(f, k, v) == [x \in (DOMAIN f) \cup {k} |-> IF x = k THEN v ELSE f[x]]
Del(f, k)    == [x \in (DOMAIN f) \ {k} |-> f[x]]
Range(f)     == {f[x] : x \in DOMAIN f}
Min(S)       == CHOOSE x \in S : \A y \in S : x <= y
EmptyFn      == [x \in {} |-> 0]

P0 == [t |-> "", mid |-> 0, tid |-> 0, dup |-> FALSE, qos |-> 0, tit |-> 0, rc |-> 0,
       hascid |-> FALSE, hasdur |-> FALSE, tl |-> <<>>, retx |-> FALSE]

WakePing == [P0 EXCEPT !.t = "PINGREQ", !.hascid = TRUE]

TxRec(kind, phase, call, due, pkt, tl, h, tit, tid) ==
    [kind |-> kind, phase |-> phase, call |-> call, due |-> due, retries |-> 0,
     pkt |-> pkt, tl |-> tl, h |-> h, tit |-> tit, tid |-> tid,
     refused |-> 0]   \* ghost: refusals received and taken as "try again later"
TyRec(kind, phase, call, due, pkt, dur, close) ==
    [kind |-> kind, phase |-> phase, call |-> call, due |-> due, retries |-> 0,
     pkt |-> pkt, dur |-> dur, close |-> close]
CallRec(api, dl, qos, f, h) == [api |-> api, dl |-> dl, qos |-> qos, acked |-> FALSE, term |-> FALSE, f |-> f, h |-> h]

NoDeliv == [on |-> FALSE, adm |-> {}, pl |-> "", qos |-> 0]
NoCb    == [h |-> "", tl |-> <<>>]
Res(s, out, rets) == [s |-> s, out |-> out, rets |-> rets, deliv |-> NoDeliv]

InitState(cfg) ==
    [cfg |-> cfg, st |-> "disconnected", alive |-> TRUE, werr |-> "", endDue |-> -1, ended |-> FALSE,
     reg |-> EmptyFn, hnd |-> EmptyFn, seq |-> 1, alloc |-> EmptyFn, gwused |-> {}, tx |-> EmptyFn, rtx |-> EmptyFn, ty |-> EmptyFn,
     calls |-> EmptyFn, kaDue |-> -1, gap |-> 0, ncall |-> 0, subs |-> {}, kaGhost |-> FALSE, kaFail |-> "",
     \* KaSync deviation only: the keep-alive loop is inside Ping(); occupancy of
     \* stateChangeCh and who is blocked in notifyStateChange
     kaBusy |-> FALSE, ch |-> "", blocked |-> <<>>, inq |-> <<>>, kaStuck |-> FALSE]

Bound(s, api, dur) ==
    CASE api = "Connect" -> (s.cfg.rc + 1) * s.cfg.ct
      [] api = "Sleep"   -> (s.cfg.rc + 1) * s.cfg.rd + dur + PW
      [] OTHER           -> (s.cfg.rc + 1) * s.cfg.rd

KaPing(s) == "PINGREQ" \in DOMAIN s.ty /\ s.ty["PINGREQ"].call = "ka"

---------------------------------------------------------------------------
(* state changes and the keep-alive loop                                   *)

(* intended: the loop consumes every state change at once: ticker stopped,  *)
(* a keep-alive ping in flight abandoned, ticker re-armed when active      *)
SetStateOk(s, new) ==
    IF s.st = new \/ s.cfg.ka = 0 THEN [s EXCEPT !.st = new]
    ELSE LET s1 == IF KaPing(s) THEN [s EXCEPT !.ty = Del(@, "PINGREQ"), !.kaGhost = TRUE] ELSE s
         IN  [s1 EXCEPT !.st = new, !.gap = 0,
                        !.kaDue = IF new = "active" THEN s.cfg.ka ELSE -1]

(* Deviation KaSync (the code as it is): keepaliveLoop calls c.Ping() and  *)
(* does not read stateChangeCh until the ping is over.  The channel has     *)
(* capacity 1 (`ch`); a further notifyStateChange blocks its caller        *)
(* (`blocked`: who, with what is left for it to do).  The result says       *)
(* whether the caller continues.                                           *)
SetStateK(s, new, who) ==
    IF "KaSync" \notin Dev THEN [s |-> SetStateOk(s, new), cont |-> TRUE]
    ELSE IF s.st = new \/ s.cfg.ka = 0 THEN [s |-> [s EXCEPT !.st = new], cont |-> TRUE]
    ELSE IF ~s.kaBusy
         THEN [s |-> [s EXCEPT !.st = new, !.gap = 0,
                               !.kaDue = IF new = "active" THEN s.cfg.ka ELSE -1], cont |-> TRUE]
    ELSE IF s.ch = ""
         THEN [s |-> [s EXCEPT !.st = new, !.ch = new], cont |-> TRUE]
    ELSE [s |-> [s EXCEPT !.st = new, !.blocked = Append(@, [who EXCEPT !.val = new])], cont |-> FALSE]

Who(w, call) == [who |-> w, call |-> call, val |-> ""]
SetState(s, new) == SetStateK(s, new, Who("other", "")).s
RecvBlocked(s) == \E i \in 1..Len(s.blocked) : s.blocked[i].who \in {"connack", "sleepack"}

---------------------------------------------------------------------------
(* a call returns; ghost `subs`: subscriptions according to the API results *)
RetRec(s, c, err) == [call |-> c, err |-> err, api |-> s.calls[c].api, qos |-> s.calls[c].qos, acked |-> s.calls[c].acked,
                      term |-> FALSE]  \* term: returned because the client terminated (any error but nil)
SubsAfter(s, c, err) ==
    LET k == s.calls[c]
    IN  IF err # "nil" THEN s.subs
        ELSE IF k.api \in {"Subscribe", "SubscribePredefined"}
             THEN {x \in s.subs : x.f # k.f} \cup {[f |-> k.f, h |-> k.h]}
        ELSE IF k.api \in {"Unsubscribe", "UnsubscribePredefined"}
             THEN {x \in s.subs : x.f # k.f}
        ELSE s.subs
Return(r, c, err) ==
    IF c \in DOMAIN r.s.calls /\ ~r.s.calls[c].term   \* a call already waiting for the end of the client returns then
    THEN [r EXCEPT !.s.calls = Del(@, c), !.s.subs = SubsAfter(r.s, c, err),
                   !.rets = @ \cup {RetRec(r.s, c, err)}]
    ELSE r
Instant(s, a, err) == [call |-> a.call, err |-> err, api |-> a.api, qos |-> a.qos, acked |-> FALSE, term |-> FALSE]


(* termination of the client (group context cancelled)                     *)
TermErr(s, werr, api) ==
    IF api \in {"Disconnect", "Close"} THEN werr
    ELSE IF werr = "nil" THEN (IF "NilOnTerminate" \in Dev THEN "nil" ELSE "terminated") ELSE werr

StopTimers(s) ==
    [s EXCEPT !.tx = [m \in DOMAIN s.tx |-> [s.tx[m] EXCEPT !.due = -1]],
              !.ty = [k \in DOMAIN s.ty |-> IF s.ty[k].kind = "sleep" THEN s.ty[k] ELSE [s.ty[k] EXCEPT !.due = -1]],
              !.kaDue = -1]

(* immediate: the receive loop itself ended (error / connection closed):   *)
(* every pending call returns in the same step.  Otherwise the receive loop *)
(* notices within RT ticks; pending calls return when it has ended.        *)
Terminate(r, werr, immediate) ==
    LET s  == r.s
        s1 == StopTimers(s)
    IN  IF ~s.alive THEN r
        ELSE IF "KaSync" \in Dev /\ s.kaBusy /\ werr = "nil"
        THEN \* keepaliveLoop sits in Ping() -> returns c.group.Wait() from inside the group: never
             [r EXCEPT !.s = [s1 EXCEPT !.alive = FALSE, !.werr = werr, !.kaStuck = TRUE,
                                       !.calls = [c \in DOMAIN s.calls |-> [s.calls[c] EXCEPT !.term = TRUE]]]]
        ELSE IF immediate
        THEN [r EXCEPT !.s = [s1 EXCEPT !.alive = FALSE, !.werr = werr, !.ended = TRUE, !.calls = EmptyFn],
                       !.rets = r.rets \cup {[RetRec(s, c, TermErr(s, werr, s.calls[c].api)) EXCEPT !.term = TRUE] : c \in DOMAIN s.calls}]
        ELSE [r EXCEPT !.s = [s1 EXCEPT !.alive = FALSE, !.werr = werr, !.endDue = RT,
                                       !.calls = [c \in DOMAIN s.calls |->
                                                   [s.calls[c] EXCEPT !.term = TRUE, !.dl = RT]]]]

---------------------------------------------------------------------------
(* API calls                                                               *)
PredefName(s, tid) == IF tid \in DOMAIN s.cfg.predef THEN {s.cfg.predef[tid]} ELSE {}

(* The message ID of a new exchange is the client's free choice: no property says which ID it
   allocates, only that retransmissions keep it and that acknowledgements are matched by it.  a.mid > 0 is
   the choice bound from the observation (trace validation); the generator resolves the choice to a
   counter (a.mid = 0).  `alloc` (ghost) remembers which call was given which ID so that generated
   gateway packets can refer to "the ID of call c" instead of a number. *)
NewTx(s, a, kind, phase, pkt, tl, h, tit, tid) ==
    LET mid == IF a.mid > 0 THEN a.mid ELSE s.seq
        p   == [pkt EXCEPT !.mid = mid]
    IN Res([s EXCEPT !.seq = @ + 1, !.alloc = Upd(@, mid, a.call),
                     !.tx = Upd(@, mid, TxRec(kind, phase, a.call, s.cfg.rd, p, tl, h, tit, tid)),
                     !.calls = Upd(@, a.call, CallRec(a.api, Bound(s, a.api, 0), a.qos, IF tit = 1 THEN (IF PredefName(s, tid) = {} THEN <<>> ELSE CHOOSE x \in PredefName(s, tid) : TRUE) ELSE tl, h))],
           <<p>>, {})

DoPublish(s, a, tit, tid) ==
    LET pk == [P0 EXCEPT !.t = "PUBLISH", !.qos = a.qos, !.tit = tit, !.tid = tid]
    IN  IF a.qos > 3 THEN Res(s, <<>>, {Instant(s, a, "badqos")})   \* refused: invalid QoS
        ELSE IF a.qos \in {0, 3}
        THEN Res(s, <<pk>>, {Instant(s, a, "nil")})   \* whatever MsgId it carries is irrelevant (never referred to)
        ELSE NewTx(s, a, IF a.qos = 1 THEN "pub1" ELSE "pub2", "pubrec", pk, a.tl, "", tit, tid)

DoDisconnect(s, a) ==
    IF s.st \notin {"active", "awake"}
    THEN IF a.api = "Close"
         THEN Terminate(Res(s, <<>>, {Instant(s, a, "nil")}), "nil", TRUE)
         ELSE Res(s, <<>>, {Instant(s, a, "nil")})
    ELSE LET pk == [P0 EXCEPT !.t = "DISCONNECT"]
             s1 == [s EXCEPT !.ty = Upd(@, "DISCONNECT", TyRec("disc", "", a.call, s.cfg.rd, pk, 0, a.api = "Close")),
                             !.calls = Upd(@, a.call, CallRec(a.api, Bound(s, a.api, 0), 0, <<>>, ""))]
         IN  Res(SetState(s1, "disconnected"), <<pk>>, {})

DoSleep(s, a) ==
    LET call == CallRec("Sleep", Bound(s, "Sleep", a.dur), 0, <<>>, "")
    IN  CASE s.st = "active" ->
               LET pk == [P0 EXCEPT !.t = "DISCONNECT", !.hasdur = (a.dsec > 0)]
               IN Res([s EXCEPT !.ty = Upd(@, "DISCONNECT", TyRec("sleep", "awaitdisc", a.call, s.cfg.rd, pk, a.dur, FALSE)),
                                !.calls = Upd(@, a.call, call)], <<pk>>, {})
          [] s.st = "awake" ->
               LET s1 == [s EXCEPT !.ty = Upd(@, "DISCONNECT", TyRec("sleep", "asleep", a.call, a.dur, P0, a.dur, FALSE)),
                                   !.calls = Upd(@, a.call, call)]
               IN Res(SetState(s1, "asleep"), <<>>, {})
          [] OTHER -> Res(s, <<>>, {Instant(s, a, "badstate")})

DoApi(s, a) ==
    IF ~s.alive  \* not modelled beyond: the call has to return
    THEN Res([s EXCEPT !.calls = Upd(@, a.call, [CallRec(a.api, RT, a.qos, <<>>, "") EXCEPT !.term = TRUE])], <<>>, {})
    ELSE CASE a.api = "Connect" ->
               LET pk == [P0 EXCEPT !.t = "CONNECT", !.hascid = TRUE]
               IN Res([s EXCEPT !.ty = Upd(@, "CONNECT", TyRec("conn", "", a.call, s.cfg.ct, pk, 0, FALSE)),
                                !.calls = Upd(@, a.call, CallRec("Connect", Bound(s, "Connect", 0), 0, <<>>, ""))], <<pk>>, {})
           [] a.api = "Register" ->
               NewTx(s, a, "reg", "", [P0 EXCEPT !.t = "REGISTER", !.tl = a.tl], a.tl, "", 0, 0)
           [] a.api = "Subscribe" ->
               NewTx(s, a, "sub", "", [P0 EXCEPT !.t = "SUBSCRIBE", !.qos = a.qos,
                                                 !.tit = IF a.short THEN 2 ELSE 0,
                                                 !.tid = IF a.short THEN a.stid ELSE 0,
                                                 !.tl = a.tl],
                     a.tl, a.h, IF a.short THEN 2 ELSE 0, IF a.short THEN a.stid ELSE 0)
           [] a.api = "SubscribePredefined" ->
               NewTx(s, a, "sub", "", [P0 EXCEPT !.t = "SUBSCRIBE", !.qos = a.qos, !.tit = 1, !.tid = a.tid],
                     <<>>, a.h, 1, a.tid)
           [] a.api = "Unsubscribe" ->
               NewTx(s, a, "unsub", "", [P0 EXCEPT !.t = "UNSUBSCRIBE",
                                                   !.tit = IF a.short THEN 2 ELSE 0,
                                                   !.tid = IF a.short THEN a.stid ELSE 0,
                                                   !.tl = a.tl],
                     a.tl, "", IF a.short THEN 2 ELSE 0, IF a.short THEN a.stid ELSE 0)
           [] a.api = "UnsubscribePredefined" ->
               NewTx(s, a, "unsub", "", [P0 EXCEPT !.t = "UNSUBSCRIBE", !.tit = 1, !.tid = a.tid], <<>>, "", 1, a.tid)
           [] a.api = "Publish" ->
               IF a.short THEN DoPublish(s, a, 2, a.stid)
               ELSE IF a.tl \in DOMAIN s.reg THEN DoPublish(s, a, 0, s.reg[a.tl])
               ELSE Res(s, <<>>, {Instant(s, a, "notreg")})
           [] a.api = "PublishPredefined" -> DoPublish(s, a, 1, a.tid)
           [] a.api = "Ping" ->
               LET pk == [P0 EXCEPT !.t = "PINGREQ"]
               IN Res([s EXCEPT !.ty = Upd(@, "PINGREQ", TyRec("ping", "", a.call, s.cfg.rd, pk, 0, FALSE)),
                                !.calls = Upd(@, a.call, CallRec("Ping", Bound(s, "Ping", 0), 0, <<>>, "")),
                                !.gap = 0], <<pk>>, {})
           [] a.api = "Sleep" -> DoSleep(s, a)
           [] a.api \in {"Disconnect", "Close"} -> DoDisconnect(s, a)

---------------------------------------------------------------------------
(* packets from the gateway (handlePacket, net.go)                         *)
Resolve(s, tit, tid, ptl) ==
    CASE tit = 0 -> {n \in DOMAIN s.reg : s.reg[n] = tid}
      [] tit = 1 -> PredefName(s, tid)
      [] tit = 2 -> {ptl}
      [] OTHER   -> {}

Handlers(s, n) == {s.hnd[f] : f \in {g \in DOMAIN s.hnd : Matches(g, n)}}

(* admissible outcomes of dispatching a message whose topic resolves to one *)
(* of `names` (several names may share an ID; several filters may match)    *)
Deliver(r, names, pl, qos) ==
    [r EXCEPT !.deliv = [on |-> TRUE, pl |-> pl, qos |-> qos,
        adm |-> UNION {IF Handlers(r.s, n) = {} THEN {NoCb}
                       ELSE {[h |-> x, tl |-> n] : x \in Handlers(r.s, n)} : n \in names}]]

Die(r, err) == Terminate(r, err, TRUE)

FinishTx(r, mid, err) ==
    LET c == r.s.tx[mid].call
    IN Return([r EXCEPT !.s.tx = Del(@, mid)], c, err)

DoSuback(s, p) ==
    LET t    == s.tx[p.mid]
        name == CASE t.tit = 0 -> {t.tl} [] t.tit = 1 -> PredefName(s, t.tid) [] OTHER -> {t.tl}
        r    == Res(s, <<>>, {})
    IN  IF p.rc # 0 THEN FinishTx(r, p.mid, "rejected")
        ELSE IF name = {} THEN FinishTx(r, p.mid, "badpredef")
        ELSE LET n  == CHOOSE x \in name : TRUE
                 s1 == [s EXCEPT !.hnd = Upd(@, n, t.h),
                                 !.reg = IF t.tit = 0 /\ p.tid # 0 THEN Upd(@, n, p.tid) ELSE @]
             IN FinishTx(Res(s1, <<>>, {}), p.mid, "nil")

DoUnsuback(s, p) ==
    LET t    == s.tx[p.mid]
        name == CASE t.tit = 0 -> {t.tl} [] t.tit = 1 -> PredefName(s, t.tid) [] OTHER -> {t.tl}
    IN  IF name = {} THEN FinishTx(Res(s, <<>>, {}), p.mid, "badpredef")
        ELSE LET n == CHOOSE x \in name : TRUE
             IN FinishTx(Res([s EXCEPT !.hnd = Del(@, n)], <<>>, {}), p.mid, "nil")

DoPublishIn(s, p) ==
    LET names == Resolve(s, p.tit, p.tid, p.tl)
    IN CASE p.qos = 0 ->
              IF names = {} THEN Die(Res(s, <<>>, {}), "proto") ELSE Deliver(Res(s, <<>>, {}), names, p.data, 0)
         [] p.qos = 1 ->
              LET ack == <<[P0 EXCEPT !.t = "PUBACK", !.mid = p.mid, !.tid = p.tid]>>
              IN IF names = {} THEN Die(Res(s, ack, {}), "proto") ELSE Deliver(Res(s, ack, {}), names, p.data, 1)
         [] p.qos = 2 ->
              IF "SharedStore" \in Dev /\ p.mid \in DOMAIN s.tx
              THEN Res(s, <<>>, {})      \* unexpected transaction type: dropped
              \* gwused (ghost): message IDs the gateway has used for exchanges of its own - a client exchange with
              \* such an ID has lived next to an exchange of the other direction with a coinciding ID (C06)
              ELSE Res([s EXCEPT !.rtx = Upd(@, p.mid, [tit |-> p.tit, tid |-> p.tid, tl |-> p.tl, pl |-> p.data]),
                                 !.gwused = @ \cup {p.mid}],
                       <<[P0 EXCEPT !.t = "PUBREC", !.mid = p.mid]>>, {})
         [] OTHER -> Die(Res(s, <<>>, {}), "proto")

DoPubrel(s, p) ==
    LET comp == <<[P0 EXCEPT !.t = "PUBCOMP", !.mid = p.mid]>>
    IN  IF p.mid \in DOMAIN s.rtx /\ ~("SharedStore" \in Dev /\ p.mid \in DOMAIN s.tx)
        THEN LET m     == s.rtx[p.mid]
                 names == Resolve(s, m.tit, m.tid, m.tl)
                 r     == Res([s EXCEPT !.rtx = Del(@, p.mid)], comp, {})
             IN IF names = {} THEN r ELSE Deliver(r, names, m.pl, 2)
        ELSE IF "PubrelDropped" \in Dev THEN Res(s, <<>>, {}) ELSE Res(s, comp, {})

DoDisconnectIn(s) ==
    IF "DISCONNECT" \notin DOMAIN s.ty
    THEN Terminate(Res(SetState(s, "disconnected"), <<>>, {}), "nil", FALSE)
    ELSE LET t == s.ty["DISCONNECT"]
         IN  CASE t.kind = "disc" ->
                    LET r == Return(Res([s EXCEPT !.ty = Del(@, "DISCONNECT")], <<>>, {}), t.call, "nil")
                    IN Terminate(r, "nil", t.close)
               [] t.kind = "sleep" /\ t.phase = "awaitdisc" ->
                    LET d == SetStateK([s EXCEPT !.ty["DISCONNECT"].phase = "asleep", !.ty["DISCONNECT"].due = -1],
                                       "asleep", Who("sleepack", t.call))
                    IN Res(IF d.cont THEN [d.s EXCEPT !.ty["DISCONNECT"].due = t.dur] ELSE d.s, <<>>, {})
               [] OTHER -> Res(s, <<>>, {})

(* KaSync: what a released notifier still has to do *)
Continue(r, b) ==
    LET s == r.s
    IN CASE b.who = "wake" ->
              IF "DISCONNECT" \in DOMAIN s.ty /\ s.ty["DISCONNECT"].call = b.call
              THEN [r EXCEPT !.s.ty["DISCONNECT"].due = PW, !.out = Append(@, WakePing)] ELSE r
         [] b.who = "connack" ->
              IF "CONNECT" \in DOMAIN s.ty /\ s.ty["CONNECT"].call = b.call
              THEN Return([r EXCEPT !.s.ty = Del(@, "CONNECT")], b.call, "nil") ELSE r
         [] b.who = "sleepack" ->
              IF "DISCONNECT" \in DOMAIN s.ty /\ s.ty["DISCONNECT"].call = b.call
              THEN [r EXCEPT !.s.ty["DISCONNECT"].due = s.ty["DISCONNECT"].dur] ELSE r
         [] OTHER -> r

RECURSIVE DoGw(_, _)
RECURSIVE DrainInq(_)
DrainInq(r) ==
    IF Len(r.s.inq) = 0 \/ RecvBlocked(r.s) \/ ~r.s.alive THEN r
    ELSE LET p  == Head(r.s.inq)
             r2 == DoGw([r.s EXCEPT !.inq = Tail(@)], p)
         IN DrainInq([s |-> r2.s, out |-> r.out \o r2.out, rets |-> r.rets \cup r2.rets,
                      deliv |-> IF r2.deliv.on THEN r2.deliv ELSE r.deliv])

(* the keep-alive loop is back in its select: it takes the parked state     *)
(* change, then the blocked notifiers get through one after the other       *)
RECURSIVE Release(_)
Release(r) ==
    LET s == r.s
    IN  IF s.ch # ""
        THEN Release([r EXCEPT !.s.ch = "", !.s.gap = 0,
                               !.s.kaDue = IF s.ch = "active" THEN s.cfg.ka ELSE -1])
        ELSE IF Len(s.blocked) = 0 THEN DrainInq(r)
        ELSE LET b == Head(s.blocked)
             IN Release(Continue([r EXCEPT !.s.blocked = Tail(@), !.s.gap = 0,
                                           !.s.kaDue = IF b.val = "active" THEN s.cfg.ka ELSE -1], b))

DoPingresp(s) ==
    IF "PINGREQ" \in DOMAIN s.ty
    THEN LET t == s.ty["PINGREQ"]
             r == Res([s EXCEPT !.ty = Del(@, "PINGREQ")], <<>>, {})
         IN IF t.call = "ka"
            THEN (IF "KaSync" \in Dev
                  THEN Release([r EXCEPT !.s.kaBusy = FALSE])
                  ELSE r)
            ELSE Return(r, t.call, "nil")
    ELSE IF "DISCONNECT" \in DOMAIN s.ty /\ s.ty["DISCONNECT"].kind = "sleep" /\ s.ty["DISCONNECT"].phase = "awaitping"
    THEN Return(Res([s EXCEPT !.ty = Del(@, "DISCONNECT")], <<>>, {}), s.ty["DISCONNECT"].call, "nil")
    ELSE Res(s, <<>>, {})

Handled == {"CONNACK", "REGISTER", "REGACK", "SUBACK", "UNSUBACK", "PUBLISH", "PUBREL", "PUBACK", "PUBREC",
            "PUBCOMP", "DISCONNECT", "WILLTOPICREQ", "WILLMSGREQ", "PINGRESP"}

DoGw(s, p) ==
    LET r0 == Res(s, <<>>, {})
        txk(m) == IF m \in DOMAIN s.tx THEN s.tx[m].kind ELSE ""
    IN
    IF ~s.alive THEN r0
    ELSE IF RecvBlocked(s) THEN Res([s EXCEPT !.inq = Append(@, p)], <<>>, {})  \* nobody reads the connection
    ELSE CASE p.t = "CONNACK" ->
            IF "CONNECT" \notin DOMAIN s.ty THEN r0
            ELSE LET c == s.ty["CONNECT"].call
                     s1 == [s EXCEPT !.ty = Del(@, "CONNECT")]
                     d  == SetStateK(s, "active", Who("connack", c))
                 IN IF p.rc # 0 THEN Return(Res(s1, <<>>, {}), c, "rejected")
                    ELSE IF d.cont THEN Return(Res([d.s EXCEPT !.ty = Del(@, "CONNECT")], <<>>, {}), c, "nil")
                    ELSE Res(d.s, <<>>, {})  \* receive loop blocked inside Connack(): transaction not finished
      [] p.t = "REGISTER" ->
            LET known == p.tl \in DOMAIN s.reg
                rej   == known /\ (s.reg[p.tl] # p.tid \/ "RegisterReject" \in Dev)
            IN Res(IF rej THEN s ELSE [s EXCEPT !.reg = Upd(@, p.tl, p.tid)],
                   <<[P0 EXCEPT !.t = "REGACK", !.mid = p.mid, !.tid = p.tid, !.rc = IF rej THEN 2 ELSE 0]>>, {})
      [] p.t = "REGACK" ->
            IF txk(p.mid) # "reg" THEN r0
            ELSE IF p.rc # 0 THEN FinishTx(r0, p.mid, "rejected")
            ELSE FinishTx(Res([s EXCEPT !.reg = Upd(@, s.tx[p.mid].tl, p.tid)], <<>>, {}), p.mid, "nil")
      [] p.t = "SUBACK"   -> IF txk(p.mid) # "sub" THEN r0 ELSE DoSuback(s, p)
      [] p.t = "UNSUBACK" -> IF txk(p.mid) # "unsub" THEN r0 ELSE DoUnsuback(s, p)
      [] p.t = "PUBLISH"  -> DoPublishIn(s, p)
      [] p.t = "PUBREL"   -> DoPubrel(s, p)
      [] p.t = "PUBACK"   ->
            IF txk(p.mid) # "pub1" THEN r0
            ELSE FinishTx([r0 EXCEPT !.s.calls[s.tx[p.mid].call].acked = TRUE], p.mid, "nil")
      [] p.t = "PUBREC"   ->
            IF txk(p.mid) # "pub2" \/ s.tx[p.mid].phase # "pubrec" THEN r0
            ELSE LET rel == [P0 EXCEPT !.t = "PUBREL", !.mid = p.mid]
                     c   == s.tx[p.mid].call
                 IN Res([s EXCEPT !.tx[p.mid].phase = "pubcomp", !.tx[p.mid].pkt = rel,
                                  !.tx[p.mid].retries = 0, !.tx[p.mid].due = s.cfg.rd,
                                  !.calls[c].dl = Bound(s, "Publish", 0)], <<rel>>, {})
      [] p.t = "PUBCOMP"  ->
            IF txk(p.mid) # "pub2" \/ s.tx[p.mid].phase # "pubcomp" THEN r0
            ELSE FinishTx([r0 EXCEPT !.s.calls[s.tx[p.mid].call].acked = TRUE], p.mid, "nil")
      [] p.t = "DISCONNECT"   -> DoDisconnectIn(s)
      [] p.t = "PINGRESP"     -> DoPingresp(s)
      [] p.t = "WILLTOPICREQ" -> Res(s, <<[P0 EXCEPT !.t = "WILLTOPIC"]>>, {})
      [] p.t = "WILLMSGREQ"   -> Res(s, <<[P0 EXCEPT !.t = "WILLMSG"]>>, {})
      [] OTHER -> Die(r0, "proto")   \* unhandled packet type / undecodable datagram

---------------------------------------------------------------------------
(* timers                                                                  *)
NeedsDup(pk) == pk.t = "SUBSCRIBE" \/ (pk.t = "PUBLISH" /\ "NoDupPublish" \notin Dev)

FireTx(s, mid) ==
    LET t == s.tx[mid]
    IN  IF t.retries < s.cfg.rc
        THEN LET pk == [t.pkt EXCEPT !.dup = IF NeedsDup(t.pkt) THEN TRUE ELSE @, !.retx = TRUE]
             IN Res([s EXCEPT !.tx[mid].retries = @ + 1, !.tx[mid].due = s.cfg.rd, !.tx[mid].pkt = pk], <<pk>>, {})
        ELSE FinishTx(Res(s, <<>>, {}), mid, "noretries")

FireTy(s, k) ==
    LET t == s.ty[k]
        r0 == Res(s, <<>>, {})
    IN CASE t.kind = "conn" ->
              IF t.retries < s.cfg.rc
              THEN Res([s EXCEPT !.ty[k].retries = @ + 1, !.ty[k].due = s.cfg.ct], <<[t.pkt EXCEPT !.retx = TRUE]>>, {})
              ELSE Return(Res([s EXCEPT !.ty = Del(@, k)], <<>>, {}), t.call, "conntimeout")
         [] t.kind = "ping" ->
              IF t.retries < s.cfg.rc
              THEN Res([s EXCEPT !.ty[k].retries = @ + 1, !.ty[k].due = s.cfg.rd, !.gap = 0], <<[t.pkt EXCEPT !.retx = TRUE]>>, {})
              ELSE LET s1 == [s EXCEPT !.ty = Del(@, k)]
                   IN IF t.call = "ka"
                      THEN \* the keep-alive loop ends with the error: the client terminates
                           Terminate(Res([s1 EXCEPT !.kaBusy = FALSE,
                                                    !.kaFail = IF s.st # "active" THEN "not-active"
                                                               ELSE IF \E i \in 1..Len(s.inq) : s.inq[i].t = "PINGRESP" THEN "answer-unread"
                                                               ELSE "unanswered"], <<>>, {}), "noretries", FALSE)
                      ELSE Return(Res(s1, <<>>, {}), t.call, "noretries")
         [] t.kind = "disc" ->
              IF t.retries < s.cfg.rc
              THEN Res([s EXCEPT !.ty[k].retries = @ + 1, !.ty[k].due = s.cfg.rd], <<[t.pkt EXCEPT !.retx = TRUE]>>, {})
              ELSE Terminate(Return(Res([s EXCEPT !.ty = Del(@, k)], <<>>, {}), t.call, "nil"), "nil", t.close)
         [] t.kind = "sleep" /\ t.phase = "awaitdisc" ->
              IF t.retries < s.cfg.rc
              THEN Res([s EXCEPT !.ty[k].retries = @ + 1, !.ty[k].due = s.cfg.rd], <<[t.pkt EXCEPT !.retx = TRUE]>>, {})
              ELSE Return(Res([s EXCEPT !.ty = Del(@, k)], <<>>, {}), t.call, "noretries")
         [] t.kind = "sleep" /\ t.phase = "asleep" ->
              LET d == SetStateK([s EXCEPT !.ty[k].phase = "awaitping", !.ty[k].due = -1], "awake", Who("wake", t.call))
              IN IF d.cont THEN Res([d.s EXCEPT !.ty[k].due = PW], <<WakePing>>, {})
                 ELSE Res(d.s, <<>>, {})   \* wakeup() blocked in notifyStateChange before sending
         [] t.kind = "sleep" /\ t.phase = "awaitping" ->
              Return(Res([s EXCEPT !.ty = Del(@, k)], <<>>, {}), t.call, "pingwait")
         [] OTHER -> r0

FireKa(s) ==
    IF KaPing(s) \/ s.kaBusy THEN Res([s EXCEPT !.kaDue = s.cfg.ka], <<>>, {})
    ELSE LET pk == [P0 EXCEPT !.t = "PINGREQ"]
         IN Res([s EXCEPT !.kaDue = s.cfg.ka, !.gap = 0,
                          !.kaBusy = "KaSync" \in Dev,
                          !.ty = Upd(@, "PINGREQ", TyRec("ping", "", "ka", s.cfg.rd, pk, 0, FALSE))], <<pk>>, {})

FireEnd(s) ==
    LET r == Res([s EXCEPT !.endDue = -1, !.ended = TRUE, !.calls = EmptyFn], <<>>, {})
    IN [r EXCEPT !.rets = {[RetRec(s, c, TermErr(s, s.werr, s.calls[c].api)) EXCEPT !.term = TRUE] : c \in DOMAIN s.calls}]

(* timers are named <<"tx", mid>>, <<"ty", type>>, <<"ka">>, <<"end">> *)
DueTimers(s) ==
    {<<"tx", m>> : m \in {x \in DOMAIN s.tx : s.tx[x].due = 0}}
    \cup {<<"ty", k>> : k \in {x \in DOMAIN s.ty : s.ty[x].due = 0}}
    \cup (IF s.kaDue = 0 THEN {<<"ka">>} ELSE {})
    \cup (IF s.endDue = 0 THEN {<<"end">>} ELSE {})

Dues(s) == {s.tx[m].due : m \in DOMAIN s.tx} \cup {s.ty[k].due : k \in DOMAIN s.ty} \cup {s.kaDue, s.endDue}
PosDues(s) == {d \in Dues(s) : d >= 0}
NextDue(s) == IF PosDues(s) = {} THEN -1 ELSE Min(PosDues(s))

Fire(s, tm) ==
    CASE tm[1] = "tx" -> IF tm[2] \in DOMAIN s.tx /\ s.tx[tm[2]].due = 0 THEN FireTx(s, tm[2]) ELSE Res(s, <<>>, {})
      [] tm[1] = "ty" -> IF tm[2] \in DOMAIN s.ty /\ s.ty[tm[2]].due = 0 THEN FireTy(s, tm[2]) ELSE Res(s, <<>>, {})
      [] tm[1] = "ka" -> IF s.kaDue = 0 THEN FireKa(s) ELSE Res(s, <<>>, {})
      [] OTHER        -> IF s.endDue = 0 THEN FireEnd(s) ELSE Res(s, <<>>, {})

Merge(r1, r2) == [s |-> r2.s, out |-> r1.out \o r2.out, rets |-> r1.rets \cup r2.rets,
                  deliv |-> IF r2.deliv.on THEN r2.deliv ELSE r1.deliv]

RECURSIVE FireSeq(_, _)
FireSeq(r, order) ==
    IF Len(order) = 0 THEN r ELSE FireSeq(Merge(r, Fire(r.s, order[1])), Tail(order))

(* all orderings of a finite set *)
RECURSIVE Orders(_)
Orders(S) == IF S = {} THEN {<<>>} ELSE UNION {{<<x>> \o o : o \in Orders(S \ {x})} : x \in S}

(* let n ticks pass (no timer may be due before) *)
Dec(d, n) == IF d >= 0 THEN d - n ELSE d
Elapse(s, n) ==
    [s EXCEPT !.tx = [m \in DOMAIN s.tx |-> [s.tx[m] EXCEPT !.due = Dec(@, n)]],
              !.ty = [k \in DOMAIN s.ty |-> [s.ty[k] EXCEPT !.due = Dec(@, n)]],
              !.kaDue = Dec(@, n), !.endDue = Dec(@, n),
              !.calls = [c \in DOMAIN s.calls |-> [s.calls[c] EXCEPT !.dl = @ - n]],
              !.gap = IF s.alive /\ s.st = "active" /\ s.cfg.ka > 0 THEN @ + n ELSE @]


---------------------------------------------------------------------------
(* Model-checking / schedule-generating specification                      *)
(*                                                                         *)
(* s    : the client state record                                          *)
(* obs  : the last environment event with what the client did              *)
(* ok   : conjunction of the step properties so far (checked in Next so    *)
(*        that every transition is judged although VIEW hides obs)         *)
(* hist : the environment events so far (not in VIEW): emitted as a test   *)
(*        schedule for every transition                                    *)
VARIABLES s, obs, ok, hist

vars == <<s, obs, ok, hist>>
View == <<s, ok>>
(* for the small focused configurations: every history is a state of its own, i.e. TLC enumerates all
   event sequences (paths), not only one path per abstract state - the real code may well be in
   different states after histories that the specification does not distinguish *)
ViewPaths == <<s, ok, hist>>

Cfg0 == [rd |-> CfgRD, rc |-> CfgRC, ct |-> CfgCT, ka |-> CfgKA, predef |-> (1 :> <<"pre", "one">>)]

Obs0 == [ev |-> [e |-> "init"], out |-> <<>>, rets |-> {}, deliv |-> NoDeliv, pre |-> InitState(Cfg0)]

Init == /\ s = InitState(Cfg0)
        /\ obs = Obs0
        /\ ok = "ok"
        /\ hist = <<>>

Life(st) == {c \in DOMAIN st.calls : st.calls[c].api \in {"Connect", "Sleep", "Disconnect", "Close"}}

(* API records with any = TRUE ("out of place" calls) are issued in every  *)
(* client state, also where the library refuses them or where the gateway  *)
(* would: Sleep before Connect, Publish of an unregistered topic or with   *)
(* an invalid QoS, data calls while disconnected / asleep / awake.  The    *)
(* specification: a refused call returns an error at once, sends nothing,  *)
(* changes nothing and leaves nothing behind.                              *)
(* assumptions about the application: life-cycle calls are not issued     *)
(* concurrently, data calls only while active; Close may come at any time  *)
(* the client is not in the middle of another life-cycle call              *)
ApiOk(st, a) ==
    /\ st.alive /\ st.ncall < MaxCalls
    /\ CASE a.api = "Connect"    -> Life(st) = {} /\ st.st \in {"disconnected", "awake"}
         [] a.api = "Sleep"      -> Life(st) = {} /\ (st.st \in {"active", "awake"} \/ a.any)
         [] a.api = "Disconnect" -> Life(st) = {} /\ (st.st \in {"active", "awake"} \/ a.any)
         [] a.api = "Close"      -> \/ Life(st) = {}
                                    \/ /\ "DISCONNECT" \in DOMAIN st.ty
                                       /\ st.ty["DISCONNECT"].kind = "sleep" /\ st.ty["DISCONNECT"].phase = "asleep"
                                       /\ Cardinality(Life(st)) = 1
         [] a.api = "Ping"       -> (st.st = "active" \/ a.any) /\ "PINGREQ" \notin DOMAIN st.ty /\ st.cfg.ka = 0
         [] OTHER                -> st.st = "active" \/ a.any

GwMids(st, p) ==
    CASE p.midsrc = "none" -> {0}
      [] p.midsrc = "pend" -> DOMAIN st.tx \cup DOMAIN st.rtx
      [] p.midsrc = "gw"   -> DOMAIN st.rtx \cup GenMids   \* the gateway's own exchanges (open or foreign)
      [] OTHER             -> DOMAIN st.tx \cup DOMAIN st.rtx \cup GenMids

StepProps(pre, ev, r) ==
    LET post == r.s
        outs == {r.out[i] : i \in 1..Len(r.out)}
    IN
    \* C17
    IF \E x \in r.rets : x.api \in {"Publish", "PublishPredefined"} /\ x.qos \in {1, 2} /\ ((x.err = "nil") # x.acked)
        THEN "C17/publish-result-vs-ack"
    ELSE IF \E q \in outs : q.retx /\ q.t \in {"PUBLISH", "SUBSCRIBE"} /\ ~q.dup
        THEN "C17/retransmit-no-dup"
    ELSE IF ev.e = "gw" /\ ev.p.t = "PUBREL" /\ pre.alive /\ ~RecvBlocked(pre)
            /\ ~\E q \in outs : q.t = "PUBCOMP" /\ q.mid = ev.p.mid
        THEN "C17/pubrel-unanswered"
    \* C27
    ELSE IF r.deliv.on /\ \E o \in r.deliv.adm : o # NoCb /\ ~\E x \in pre.subs : x.h = o.h /\ MatchesDecl(x.f, o.tl)
        THEN "C27/callback-not-subscribed-or-not-matching"
    \* C28
    ELSE IF \E c \in DOMAIN post.calls : post.calls[c].dl < 0
        THEN "C28/call-overdue"
    ELSE IF ~post.alive /\ post.endDue = -1 /\ (post.calls # EmptyFn \/ post.kaStuck \/ ~post.ended)
        THEN "C28/goroutines-after-end"
    \* C33
    ELSE IF post.alive /\ post.st = "active" /\ post.cfg.ka > 0 /\ post.gap > post.cfg.ka
        THEN "C33/no-pingreq-within-keepalive"
    ELSE IF \E q \in outs : q.t = "PINGREQ" /\ ~q.hascid /\ post.st \in {"asleep", "disconnected"} /\ KaPing(pre)
        THEN "C33/keepalive-ping-while-not-active"
    ELSE IF post.kaFail \in {"not-active", "answer-unread"}
        THEN "C33/api-failed-by-keepalive"
    ELSE IF RecvBlocked(post)
        THEN "C33/receive-loop-blocked-by-keepalive"
    \* C06 (client half): a gateway-initiated QoS 2 exchange is served whatever client exchanges are pending
    ELSE IF ev.e = "gw" /\ ev.p.t = "PUBLISH" /\ ev.p.qos = 2 /\ pre.alive /\ ~RecvBlocked(pre)
            /\ ~\E q \in outs : q.t = "PUBREC" /\ q.mid = ev.p.mid
        THEN "C06/pubrec-missing"
    \* C16 (client half): a retransmitted REGISTER (known name, same ID) is accepted again
    ELSE IF ev.e = "gw" /\ ev.p.t = "REGISTER" /\ pre.alive /\ ~RecvBlocked(pre)
            /\ ev.p.tl \in DOMAIN pre.reg /\ pre.reg[ev.p.tl] = ev.p.tid
            /\ ~\E q \in outs : q.t = "REGACK" /\ q.mid = ev.p.mid /\ q.rc = 0
        THEN "C16/register-retransmit-rejected"
    ELSE "ok"

Step(ev, r) ==
    /\ s' = r.s
    /\ obs' = [ev |-> ev, out |-> r.out, rets |-> r.rets, deliv |-> r.deliv, pre |-> s]
    /\ ok' = IF ok # "ok" THEN ok ELSE StepProps(s, ev, r)
    /\ hist' = Append(hist, ev)
    /\ PrintT("SCHED:" \o ToJson(hist'))
    /\ (ok' # "ok" /\ ok = "ok") => PrintT("BAD:" \o ToJson([sig |-> ok', hist |-> hist']))

ApiEv == \E a0 \in GenApis :
           LET a == [a0 EXCEPT !.call = "c" \o ToString(s.ncall)]
           IN /\ ApiOk(s, a)
              /\ LET r == DoApi([s EXCEPT !.ncall = @ + 1], a) IN Step([e |-> "api", a |-> a], r)

Refusal(st, p) == /\ p.t \in {"REGACK", "SUBACK"} /\ p.rc # 0 /\ p.mid \in DOMAIN st.tx
                  /\ st.tx[p.mid].kind = (IF p.t = "REGACK" THEN "reg" ELSE "sub")

Refused(st, p) == [st EXCEPT !.tx[p.mid].refused = @ + 1]

GwEv == \E p0 \in GenGw : \E m \in GwMids(s, p0) :
           LET p == [p0 EXCEPT !.mid = m]
               \* ref: the packet carries the message ID of that call's exchange, whatever ID the client chose
               ref == IF m \in DOMAIN s.alloc THEN s.alloc[m] ELSE ""
           IN /\ s.alive
              /\ \/ Step([e |-> "gw", p |-> p, ref |-> ref], DoGw(s, p))
                 \* a refusal may also be taken as "try again later": the exchange goes on unchanged (no progress)
                 \/ /\ Refusal(s, p)
                    /\ Step([e |-> "gw", p |-> p, ref |-> ref], Res(Refused(s, p), <<>>, {}))

AdvEv == /\ NextDue(s) > 0
         /\ LET n  == NextDue(s)
                s1 == Elapse(s, n)
            IN \E ord \in Orders(DueTimers(s1)) :
                  Step([e |-> "adv", n |-> n], FireSeq(Res(s1, <<>>, {}), ord))

Next == /\ Len(hist) < MaxEv
        /\ ok = "ok"
        /\ (ApiEv \/ GwEv \/ AdvEv)

Spec == Init /\ [][Next]_vars

Prop_All == ok = "ok"
Prop_C17 == ok \notin {"C17/publish-result-vs-ack", "C17/retransmit-no-dup", "C17/pubrel-unanswered"}
Prop_C27 == ok # "C27/callback-not-subscribed-or-not-matching"
Prop_C28 == ok \notin {"C28/call-overdue", "C28/goroutines-after-end"}
Prop_C33 == ok \notin {"C33/no-pingreq-within-keepalive", "C33/keepalive-ping-while-not-active",
                        "C33/api-failed-by-keepalive", "C33/receive-loop-blocked-by-keepalive"}
Prop_C06 == ok # "C06/pubrec-missing"
Prop_C16 == ok # "C16/register-retransmit-rejected"

(* type sanity of the state record (also guards the step functions against *)
(* partial definitions: every CASE must have matched)                      *)
TypeOK == /\ s.st \in {"disconnected", "active", "asleep", "awake"}
          /\ \A m \in DOMAIN s.tx : s.tx[m].kind \in {"pub1", "pub2", "reg", "sub", "unsub"}
          /\ DOMAIN s.ty \subseteq {"CONNECT", "PINGREQ", "DISCONNECT"}

---------------------------------------------------------------------------
(* C27: exhaustive cross-check of the recursive matcher against the closed *)
(* form over all filters / names of <= 3 levels, and emission of the       *)
(* (filter, name, expected) vectors that are replayed on the real client   *)
FLevels == {"a", "b", "", "+", "#"}
NLevels == {"a", "b", ""}
SeqsUpTo3(S) == {<<x>> : x \in S} \cup {<<x, y>> : x \in S, y \in S} \cup {<<x, y, z>> : x \in S, y \in S, z \in S}
AllFilters == SeqsUpTo3(FLevels)
AllNames   == SeqsUpTo3(NLevels)
MatchAgree == \A f \in AllFilters : \A n \in AllNames : MatchesRec(f, n) = MatchesDecl(f, n)
MatchVectors == {[f |-> f, n |-> n, m |-> MatchesRec(f, n)] : f \in {g \in AllFilters : ValidFilter(g)}, n \in AllNames}
===========================================================================
