----------------------------- MODULE TxMonitor ------------------------------
(***************************************************************************)
(* Properties C18 / C19 of bisquitt's transactions package, stated once as *)
(* a monitor over *observations* of one transaction.  The same operators   *)
(* judge                                                                   *)
(*   - the lock-level model Transactions.tla (forced mode; TLC proves that *)
(*     the intended design never trips the monitor: Prop_C18 / Prop_C19),  *)
(*   - the NDJSON traces recorded from the real Go types by harness/txdrv  *)
(*     (Trace_Transactions.tla).                                           *)
(*                                                                         *)
(* An observation is taken after every environment event once everything   *)
(* that can run has run (quiescence; a retry callback may stay parked):    *)
(*   ev     "new" | "S" | "F" | "P" | "C" | "tick" | "rel" | "skip" | "end"*)
(*          | "tS" | "tF" | "tP": a tick with the API call issued at the   *)
(*          very instant a timer expires (the call races with the expiry;  *)
(*          either order is legal, the retry callback does not park)       *)
(*   cberr  rel: the released retry callback returned an error             *)
(*   now    virtual time in ticks since the transaction was created        *)
(*   done   Done() is closed;  err  class of Err()                         *)
(*   fin    runs of the finally callback so far                            *)
(*   cb     retry callback invocations so far;  cbad  ... of which were    *)
(*          entered while Done() was already closed                        *)
(*   pret   Proceed() calls that returned during the step                  *)
(*   parked a retry callback is parked on the gate (used for signatures)   *)
(* Parameters p: kind ("base"|"retry"|"timed"), rc (RetryCount), rd        *)
(* (RetryDelay, ticks), to (timeout, ticks).                               *)
(*                                                                         *)
(* Only the first violation per property is kept (stable signatures).      *)
(* C19 is silent wherever the property statement is: after a context       *)
(* cancellation, after a retry callback returned an error, after Done.     *)
(***************************************************************************)
EXTENDS Integers, Sequences

Mon0(p) == [p |-> p, pd |-> FALSE, pe |-> "nil", pfin |-> 0, pcb |-> 0, pcbad |-> 0,
            act |-> FALSE, last |-> 0, n |-> 0,      \* retry budget: running, last (re)start, callbacks used
            tact |-> p.kind = "timed",               \* timed: timeout pending
            free |-> FALSE,                          \* ctx cancelled: C19 states nothing any more
            how |-> "",                              \* event at which Done was first seen closed
            raced |-> FALSE,                         \* a Proceed was issued at an expiry instant
            v18 |-> "", v19 |-> "", n18 |-> 0, n19 |-> 0]

Racing(o) == o.ev \in {"tS", "tF", "tP"}
First(old, new) == IF old # "" THEN old ELSE new

(* ---------------------------------------------------------------- C18 *)
\* (a callback that timeout() decided on may be entered while a racing Success()
\* closes Done: entries during a racing step are not judged)
How(m, o) == IF m.how # "" THEN m.how
             ELSE IF ~o.done THEN ""
             ELSE IF o.ev \in {"S", "F"} THEN (IF o.parked THEN "call-in-callback" ELSE "call")
             ELSE IF o.ev = "rel" THEN "callback-error"
             ELSE IF Racing(o) THEN "racing-call"
             ELSE "timer"
V18s(m, o) ==
    IF o.fin > 1 /\ m.pfin <= 1             THEN "C18/finally-ran-twice"
    ELSE IF m.pd /\ o.err # m.pe            THEN "C18/err-changed-after-done"
    ELSE IF o.cbad > m.pcbad /\ ~Racing(o)  THEN "C18/retry-callback-after-done"
    ELSE IF o.done /\ o.fin = 0             THEN "C18/done-without-finally"
    \* (finad: runs of the completion callback that began with Done already closed - recorded by the callback itself)
    ELSE IF o.finad > 0                     THEN "C18/done-closed-before-finally"
    ELSE ""
\* signature = symptom / kind [/ how the transaction had finished, for retries after Done]
V18(m, o) == IF V18s(m, o) = "" THEN ""
             ELSE IF V18s(m, o) = "C18/retry-callback-after-done"
                  THEN V18s(m, o) \o "/" \o m.p.kind \o "/done-by-" \o How(m, o)
             ELSE V18s(m, o) \o "/" \o m.p.kind

(* ---------------------------------------------------------------- C19 *)
Dcb(m, o)     == o.cb - m.pcb
NewDone(m, o) == o.done /\ ~m.pd

V19Retry(m, o) ==
    LET due == o.now = m.last + m.p.rd IN
    IF ~m.act THEN ""
    ELSE IF Racing(o) THEN       \* expiry and call in either order
        (IF ~due THEN (IF Dcb(m, o) > 0 THEN "C19/retry-callback-early" ELSE "")
         ELSE IF m.n < m.p.rc THEN
            (IF Dcb(m, o) > 1 THEN "C19/retry-callback-extra"
             ELSE IF NewDone(m, o) /\ o.err = "nomore" THEN "C19/no-more-retries-early"
             ELSE "")
         ELSE (IF Dcb(m, o) > 0 THEN "C19/retry-callback-extra" ELSE ""))
    ELSE IF o.ev # "tick" THEN
        (IF Dcb(m, o) > 0 THEN "C19/retry-callback-early" ELSE "")
    ELSE IF ~due THEN
        (IF Dcb(m, o) > 0 THEN "C19/retry-callback-early"
         ELSE IF NewDone(m, o) /\ o.err = "nomore" THEN "C19/no-more-retries-early"
         ELSE "")
    ELSE IF m.n < m.p.rc THEN
        (IF Dcb(m, o) = 0 /\ NewDone(m, o) /\ o.err = "nomore" THEN "C19/no-more-retries-early"
         ELSE IF Dcb(m, o) = 0 THEN "C19/retry-callback-missing"
         ELSE IF Dcb(m, o) > 1 THEN "C19/retry-callback-extra"
         ELSE "")
    ELSE
        (IF Dcb(m, o) > 0 THEN "C19/retry-callback-extra"
         ELSE IF ~o.done THEN "C19/no-more-retries-missing"
         ELSE IF o.err # "nomore" THEN "C19/no-more-retries-wrong-error"
         ELSE "")

V19Timed(m, o) ==
    IF ~m.tact \/ Racing(o) THEN ""
    ELSE IF o.ev \in {"new", "tick"} /\ o.now = m.p.to THEN
        (IF ~o.done THEN "C19/timeout-missing"
         ELSE IF o.err # "timeout" THEN "C19/timeout-wrong-error"
         ELSE "")
    ELSE IF o.ev \in {"new", "tick"} /\ o.now < m.p.to THEN
        (IF NewDone(m, o) THEN "C19/timeout-early" ELSE "")
    ELSE ""

V19(m, o) == LET v == IF m.p.kind = "retry" THEN V19Retry(m, o)
                       ELSE IF m.p.kind = "timed" THEN V19Timed(m, o)
                       ELSE ""
             IN IF v = "" THEN ""
                ELSE v \o "/" \o m.p.kind \o (IF m.raced \/ o.ev = "tP" THEN "/after-proceed-at-expiry" ELSE "")

(* budget bookkeeping after the observation *)
Act(m, o) ==
    IF o.done \/ o.ev = "C" \/ (o.ev = "rel" /\ o.cberr) THEN FALSE
    ELSE IF m.free THEN FALSE
    ELSE IF o.ev \in {"P", "tP"} /\ o.pret > 0 THEN TRUE
    ELSE IF o.ev = "tick" /\ m.act /\ o.now = m.last + m.p.rd /\ m.n >= m.p.rc THEN FALSE
    ELSE IF m.act /\ V19Retry(m, o) # "" THEN FALSE     \* budget lost track: stay silent afterwards
    ELSE m.act

Last(m, o) ==
    IF o.ev \in {"P", "tP"} /\ o.pret > 0 THEN o.now
    ELSE IF o.ev = "tick" /\ m.act /\ o.now = m.last + m.p.rd THEN o.now
    ELSE m.last

N(m, o) ==
    IF o.ev \in {"P", "tP"} /\ o.pret > 0 THEN 0
    ELSE IF o.ev = "tick" /\ m.act /\ o.now = m.last + m.p.rd /\ m.n < m.p.rc THEN m.n + 1
    ELSE m.n

TAct(m, o) ==
    IF o.done \/ o.ev = "C" THEN FALSE
    ELSE IF (Racing(o) \/ o.ev \in {"new", "tick"}) /\ o.now >= m.p.to THEN FALSE
    ELSE m.tact

Expect19(m, o) == (m.p.kind = "retry" /\ m.act /\ (o.ev = "tick" \/ Racing(o)))
                  \/ (m.p.kind = "timed" /\ m.tact /\ o.ev \in {"new", "tick"})

MonStep(m, o) ==
    IF o.ev \in {"skip", "end"} THEN m
    ELSE [m EXCEPT !.v18 = First(m.v18, V18(m, o)),
                   !.v19 = First(m.v19, V19(m, o)),
                   !.n18 = m.n18 + (IF m.pd THEN 1 ELSE 0),
                   !.n19 = m.n19 + (IF Expect19(m, o) THEN 1 ELSE 0),
                   !.act = Act(m, o), !.last = Last(m, o), !.n = N(m, o), !.tact = TAct(m, o),
                   !.free = m.free \/ o.ev = "C", !.how = How(m, o),
                   !.raced = m.raced \/ (o.ev = "tP" /\ m.act /\ o.now = m.last + m.p.rd),
                   !.pd = o.done, !.pe = o.err, !.pfin = o.fin, !.pcb = o.cb, !.pcbad = o.cbad]
=============================================================================
