\* non-vacuity: dropped plaintext check
CONSTANTS
  FKeys = {"c1", "*"}
  FIds = {1, 2}
  FNames = {"top/x", "top/y"}
  OptClients = {"c1"}
  OptMax = 2
  QClients = {"c1", "c2"}
  RetryCount = 2
  MaxConnects = 2
  Dev = {"NoRefuse"}
SPECIFICATION SpecRun
INVARIANTS Prop_C31
