------------------------------- MODULE IdSeq --------------------------------
(***************************************************************************)
(* Sequential specification of util.IDSequence (bisquitt                   *)
(* util/id_sequence.go): an atomic counter over the inclusive range        *)
(* min..max.  Next returns (id, overflow): ids come in the order           *)
(* min, min+1, .., max, min, ..; overflow is TRUE exactly for the first    *)
(* value handed out after a wrap (max -> min).                             *)
(*                                                                         *)
(* State: min, max (fixed per object), next (id the next call returns),    *)
(* ovf (the next call reports overflow), k (number of calls so far),       *)
(* ret (what the last call returned), cycle/dup (ghost: ids handed out     *)
(* since the last wrap / some id was handed out twice within one cycle).   *)
(* DoNext is the one atomic step; Lin_IdSeq.tla uses it as the             *)
(* linearisation step of concurrent histories, Trace_IdSeq.tla replays     *)
(* recorded sequential runs through it.                                    *)
(***************************************************************************)
EXTENDS Integers, TLC

CONSTANTS Ranges        \* set of <<min, max>> the model starts from

VARIABLES min, max, next, ovf, k, ret, cycle, dup

idvars == <<min, max, next, ovf, k, ret, cycle, dup>>

NoRet == [id |-> -1, ovf |-> FALSE]

InitRange(lo, hi) ==
    /\ min = lo /\ max = hi /\ next = lo /\ ovf = FALSE
    /\ k = 0 /\ ret = NoRet /\ cycle = {} /\ dup = FALSE

(* the ghost set is only kept for ranges of at most GhostMax ids (a 65536- *)
(* element set in every state makes TLC quadratic); the closed form        *)
(* Prop_C29_Seq covers the large ranges                                    *)
GhostMax == 16

DoNext ==
    /\ ret'   = [id |-> next, ovf |-> ovf]
    /\ next'  = (IF next = max THEN min ELSE next + 1)
    /\ ovf'   = (next = max)
    /\ k'     = k + 1
    /\ cycle' = (IF max - min >= GhostMax THEN {}
                 ELSE IF ovf THEN {next} ELSE cycle \cup {next})
    /\ dup'   = (dup \/ (~ovf /\ next \in cycle))
    /\ UNCHANGED <<min, max>>

Size == max - min + 1

Init == \E r \in Ranges : InitRange(r[1], r[2])

(* the full range twice plus two calls: both wraps and the value after *)
Next == k < 2 * Size + 2 /\ DoNext /\ (k' = 2 * Size + 2 => PrintT(<<"RANGE", min, max, k'>>))

SmallRanges == {r \in (0..3) \X (0..3) : r[1] <= r[2]} \cup {<<65534, 65535>>}
QuickRanges == SmallRanges \cup {<<0, 65535>>}
FullRanges  == SmallRanges \cup {<<0, 65535>>, <<1, 65534>>}

-----------------------------------------------------------------------------
(* C29, sequential contract: the k-th call returns min + (k-1) mod size and *)
(* reports overflow exactly when it hands out the first value after a wrap. *)
Prop_C29_Seq ==
    k > 0 => ret = [id  |-> min + ((k - 1) % Size),
                    ovf |-> (k > 1 /\ (k - 1) % Size = 0)]

(* no id is handed out twice between two overflow reports *)
Prop_C29_NoDupInCycle == ~dup

Prop_TypeOK == /\ next \in min..max /\ ovf \in BOOLEAN
               /\ (k > 0 => ret.id \in min..max)
=============================================================================
