\* as MC_IdSeq plus the full uint16 ranges (0,65535) and (1,65534)
CONSTANT Ranges <- FullRanges
INIT Init
NEXT Next
INVARIANTS Prop_C29_Seq Prop_C29_NoDupInCycle Prop_TypeOK
