INIT InitActive
NEXT Next
VIEW View
CONSTANTS
  Dev = {}
  CfgRD = 2
  CfgRC = 1
  CfgCT = 3
  CfgKA = 0
  GenApis <- Apis_C27
  GenGw <- Gw_C27
  GenMids = {1, 2, 9}
  MaxEv = 8
  MaxCalls = 5
INVARIANTS Prop_All TypeOK
