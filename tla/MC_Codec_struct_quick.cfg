\* C20/C22: canonical boundary datagrams + one structural mutation; vectors printed.
CONSTANTS
  Alphabet = {}
  MaxLen = 0
  Emit = TRUE
  EmitDepth = 1
  MutDepth = 1
  VarLens = {0,1,2,249,250,251,252,253,254,255,256}
  BigLens = {}
  BodyAlphabet = {}
  BodyExtra = 0
  BodyCap = 0
  RepCap = 0
  ShortIds = {0}
  ShortPairIds = {0}
INIT InitStruct
NEXT NextStruct
VIEW View
INVARIANTS Inv_C20 Inv_C22 Inv_StructBase
