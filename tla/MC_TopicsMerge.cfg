\* Merge / ParseOptions / EffectiveConfig mean "file overridden entry-wise by the options in order"
CONSTANTS
  Clients = {"c1", "*"}
  Ids = {1, 2}
  Names = {"x", "y"}
  QClients = {}
  QIds = {}
  QNames = {}
  Deviations = {}
  OptMax = 2
INIT InitMerge
NEXT NextMerge
INVARIANTS Prop_Merge
