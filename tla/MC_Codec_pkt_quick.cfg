\* C21: boundary packets (constructors x flags x boundary ids x lengths 0,1,2,250..258).
CONSTANTS
  Alphabet = {}
  MaxLen = 0
  Emit = TRUE
  EmitDepth = 0
  MutDepth = 0
  VarLens = {0,1,2,250,251,252,253,254,255,256,257,258}
  BigLens = {}
  BodyAlphabet = {}
  BodyExtra = 0
  BodyCap = 0
  RepCap = 0
  ShortIds = {0,1,255,256,257,65534,65535}
  ShortPairIds = {0,1,2,255,256,257,258,65535}
INIT InitPkt
NEXT NextPkt
INVARIANTS Inv_C21
