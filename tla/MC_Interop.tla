----------------------------- MODULE MC_Interop -----------------------------
(***************************************************************************)
(* Exploration of the service-level interoperability spec: all bounded     *)
(* sequences of client API calls and broker publishes over a small         *)
(* alphabet; one schedule per transition of the state graph is emitted for *)
(* harness/iodrv (real client + real gateway + broker model).              *)
(***************************************************************************)
EXTENDS Interop, Json

CONSTANTS MaxEvents, Emit, Groups, Qoss

VARIABLES s, hist
vars == <<s, hist>>

Predef == << [c |-> "*", id |-> 5, n |-> "pre/x", tl |-> <<"pre", "x">>],
             [c |-> "*", id |-> 6, n |-> "pre/z", tl |-> <<"pre", "z">>],
             [c |-> "c1", id |-> 6, n |-> "own/z", tl |-> <<"own", "z">>],
             [c |-> "c1", id |-> 7, n |-> "pre/x", tl |-> <<"pre", "x">>] >>
\* group "will": the client is configured with a will (topic "w/t", payload "will", see harness/iodrv)
Cfg == [cid |-> "c1", rd |-> 10, rc |-> 2, ct |-> 50, ka |-> 20, kaloop |-> FALSE, predef |-> Predef,
        will |-> IF "will" \in Groups THEN "w/t" ELSE ""]

Levels(n) == CASE n = "t/a" -> <<"t", "a">> [] n = "t/b" -> <<"t", "b">> [] n = "t/#" -> <<"t", "#">>
               [] n = "t/+" -> <<"t", "+">> [] n = "#" -> <<"#">> [] n = "ab" -> <<"ab">> [] n = "cd" -> <<"cd">>
               [] n = "pre/x" -> <<"pre", "x">> [] n = "pre/z" -> <<"pre", "z">> [] n = "own/z" -> <<"own", "z">>
               [] n = "t/new" -> <<"t", "new">> [] n = "t" -> <<"t">> [] OTHER -> <<n>>
\* "x:c3a9" is the harness token (absmap.EncName) of the two-byte name c3 a9 (one non-ASCII UTF-8 character)
Hi == "x:c3a9"
IsShort(n) == n \in {"ab", "cd", Hi}
Shorts == IF "hishort" \in Groups THEN {"ab", Hi} ELSE {"ab"}

A0 == [t |-> "Api", call |-> "", api |-> "", async |-> FALSE, topic |-> "", tl |-> <<>>, short |-> FALSE, qos |-> 0,
       tid |-> 0, dur |-> 0, h |-> "", pl |-> "s:", retain |-> FALSE, pubs |-> <<>>, n |-> 0]
Api(a, n, q, h) == [A0 EXCEPT !.api = a, !.topic = n, !.tl = Levels(n), !.short = IsShort(n), !.qos = q, !.h = h,
                              !.pl = IF a = "Publish" THEN "s:c-" \o n ELSE "s:"]
ApiId(a, id, q, h) == [A0 EXCEPT !.api = a, !.tid = id, !.qos = q, !.h = h, !.pl = IF a = "PublishPredefined" THEN "s:cp" ELSE "s:"]
Plain(a) == [A0 EXCEPT !.api = a]

\* QoS a conforming broker uses towards this client: min(publisher's QoS, highest matching subscription QoS)
Eff(st, n, q) == LET m == {x.qos : x \in {y \in st.subs : Matches(y.tl, Levels(n))}}
                 IN IF m = {} THEN -1
                    ELSE LET top == CHOOSE a \in m : \A b \in m : a >= b IN IF q < top THEN q ELSE top
Pub(st, n, q, k) == [topic |-> n, tl |-> Levels(n), short |-> IsShort(n), qos |-> q, eff |-> Eff(st, n, q), mid |-> 0, pl |-> "s:b" \o ToString(k) \o "-" \o n]
BPub(st, ps) == [A0 EXCEPT !.t = "BPub", !.pubs = ps, !.n = 80]

Calls(st) ==
    (IF "conn" \in Groups THEN {Plain("Connect"), Plain("Disconnect"), Plain("Ping")} ELSE {})
    \cup (IF "reg" \in Groups THEN {Api("Register", n, 0, "") : n \in {"t/a", "t/b"}} ELSE {})
    \cup (IF "sub" \in Groups THEN {Api("Subscribe", n, q, h) : n \in {"t/a", "t/#", "t/+"} \cup Shorts, q \in Qoss \ {3}, h \in {"h1", "h2"}}
                                   \cup {Api("Unsubscribe", n, 0, "") : n \in {"t/a", "t/#"} \cup Shorts} ELSE {})
    \cup (IF "pub" \in Groups THEN {Api("Publish", n, q, "") : n \in {"t/a", "t/b"} \cup Shorts, q \in Qoss} ELSE {})
    \cup (IF "pre" \in Groups THEN {ApiId("SubscribePredefined", i, 1, "hp") : i \in {5, 6, 7}}
                                   \cup {ApiId("PublishPredefined", i, q, "") : i \in {5, 6, 7, 9}, q \in Qoss}
                                   \cup {ApiId("UnsubscribePredefined", i, 0, "") : i \in {6}} ELSE {})
    \cup (IF "sleep" \in Groups THEN {[Plain("Sleep") EXCEPT !.dur = 20], [Plain("Sleep") EXCEPT !.dur = 20, !.async = TRUE]} ELSE {})

\* "t": the parent level, matched by "t/#" and a proper level-prefix of the filters "t/a", "t/+"
BNames == {"t/a", "t/new", "t", "pre/x", "pre/z", "own/z"} \cup Shorts
BPubs(st) ==
    IF "bpub" \notin Groups THEN {}
    ELSE {BPub(st, <<Pub(st, n, q, 1)>>) : n \in BNames, q \in Qoss \ {3}}
         \cup (IF "burst" \in Groups
               THEN {BPub(st, <<Pub(st, n, q, 1), Pub(st, n, q2, 2)>>) : n \in {"t/new", "t/a"}, q \in Qoss \ {3}, q2 \in Qoss \ {3}}
                    \cup {BPub(st, <<Pub(st, "t/new", q, 1), Pub(st, "t/b", q, 2), Pub(st, "t/new", q, 3)>>) : q \in Qoss \ {3}}
               ELSE {})

Events(st) ==
    IF st.dead THEN {}
    ELSE IF st.cst = "asleep" THEN BPubs(st) \cup {[A0 EXCEPT !.t = "Wait", !.n = 60]}
    ELSE {e \in Calls(st) : ApiLegal(st, e) \/ "illegal" \in Groups} \cup (IF st.cst = "active" THEN BPubs(st) ELSE {})

Init == s = Init0(Cfg) /\ hist = <<>>

Next == /\ Len(hist) < MaxEvents
        /\ \E e \in Events(s) :
              \E s2 \in {Step(s, e)} :
                 /\ s' = s2
                 /\ hist' = Append(hist, e)
                 /\ (Emit => PrintT("SCHED:" \o ToJson([cfg |-> s.cfg, events |-> hist'])))

Spec == Init /\ [][Next]_vars

(* design sanity: the subscriptions of a disconnected client are irrelevant, a handler exists for every filter once *)
TypeOK == /\ s.cst \in {"disconnected", "active", "asleep", "awake"}
          /\ \A x, y \in s.subs : x.f = y.f => x = y
          /\ (s.queued # <<>> => s.cst = "asleep")
View == s
=============================================================================
