---------------------------- MODULE Trace_Topics ----------------------------
(***************************************************************************)
(* Judges lookups recorded from the real topics.PredefinedTopics (driver   *)
(* harness/topicsdrv) against Topics.tla.  The trace "topics_trace.ndjson" *)
(* has uniform records                                                     *)
(*   [kind, cfg, c, id, n, found, rid, rn, src]                            *)
(*   kind = "cfg"  : cfg = the entries the real map holds from now on      *)
(*                   (dumped from the map itself), src = where it is from  *)
(*   kind = "name" : GetTopicName(c, id) returned (rn, found)              *)
(*   kind = "id"   : GetTopicID(c, n)   returned (rid, found)              *)
(* The spec state (cfg, q) follows the trace; Judge compares what the code *)
(* returned with what Topics.tla admits and names the failing mechanism.   *)
(* Failures are accumulated (TLCSet) and printed by the POSTCONDITION, so  *)
(* one TLC run judges a whole batch.  Run with -workers 1.                 *)
(***************************************************************************)
EXTENDS Topics, SequencesExt

VARIABLES i, nbad

Trace == ndJsonDeserialize("topics_trace.ndjson")

MaxReported == 20000

Judge(c0, r) ==
    IF r.kind = "cfg" THEN "ok"
    ELSE IF r.kind = "name" THEN
        LET e == GetName(c0, r.c, r.id) IN
        IF r.found # e.found THEN "getname-found-mismatch"
        ELSE IF r.found /\ r.rn # e.n THEN
            (IF Has(c0, r.c, r.id) THEN "getname-ignores-client-entry" ELSE "getname-wrong-name")
        ELSE "ok"
    ELSE IF r.kind = "id" THEN
        LET adm == GetId(c0, r.c, r.n) IN
        IF r.found THEN
            (IF r.rid \in adm THEN "ok"
             ELSE IF r.rid \in ShadowedIds(c0, r.c, r.n) THEN "getid-returns-shadowed-star-id"
             ELSE "getid-returns-wrong-id")
        ELSE (IF adm = {} THEN "ok" ELSE "getid-misses-admissible-id")
    ELSE "model-gap"

TInit == /\ i = 0 /\ nbad = 0 /\ cfg = {} /\ q = NoQuery
         /\ TLCSet(1, 0) /\ TLCSet(2, <<>>)

TNext ==
    /\ i < Len(Trace)
    /\ i' = i + 1
    /\ LET r  == Trace[i + 1]
           c1 == IF r.kind = "cfg" THEN ToSet(r.cfg) ELSE cfg
           v  == Judge(c1, r)
       IN /\ cfg' = c1
          /\ q' = [kind |-> r.kind, c |-> r.c, id |-> r.id, n |-> r.n]
          /\ nbad' = IF v = "ok" THEN nbad ELSE nbad + 1
          /\ TLCSet(1, i + 1)
          /\ (v # "ok" /\ nbad < MaxReported) =>
                TLCSet(2, Append(TLCGet(2), [line |-> i + 1, sig |-> v]))

(* every query is judged against a well-formed configuration *)
Conf_WellFormed == WellFormed(cfg)

Post == /\ PrintT("CONSUMED:" \o ToString(TLCGet(1)))
        /\ PrintT("BAD:" \o ToJson(TLCGet(2)))
=============================================================================
