INIT InitConnected
NEXT Next
VIEW View
CONSTANTS
  Dev = {}
  CfgRD = 12
  CfgRC = 1
  CfgCT = 3
  CfgKA = 30
  GenApis <- Apis_C33
  GenGw <- Gw_C33
  GenMids = {1, 2, 9}
  MaxEv = 7
  MaxCalls = 4
INVARIANTS Prop_All TypeOK
