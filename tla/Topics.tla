------------------------------- MODULE Topics -------------------------------
(***************************************************************************)
(* Predefined MQTT-SN topics (bisquitt topics/predefined_topics.go).       *)
(*                                                                         *)
(* A *configuration* is a set of entries                                   *)
(*        [c |-> client id, id |-> topic id, n |-> topic name]             *)
(* that is functional in (c, id) (WellFormed).  The client id STAR ("*")   *)
(* holds the entries that apply to every client.  Client ids and names     *)
(* are strings, topic ids are integers.  The empty set is "no predefined   *)
(* topics" / "no file".                                                    *)
(*                                                                         *)
(* Operators meant for reuse by other modules (GatewaySession, ClientLib,  *)
(* Cli; properties C02, C05, C30, C32) -- all are constant-level:          *)
(*   WellFormed(cfg)        cfg is a partial map (c,id) -> n               *)
(*   Has(cfg,c,id)          cfg has an entry for exactly (c,id)            *)
(*   View(cfg,c)            the map id -> name client c sees: the STAR     *)
(*                          entries overridden entry-wise by c's own       *)
(*   GetName(cfg,c,id)      [found, n]  lookup by id   (GetTopicName)      *)
(*   GetId(cfg,c,n)         SET of admissible ids for a lookup by name     *)
(*                          (GetTopicID may return any of them; {} =       *)
(*                          must report "not found")                       *)
(*   Add(cfg,c,n,id)        PredefinedTopics.Add                           *)
(*   Merge(dst,src)         PredefinedTopics.Merge: src wins entry-wise    *)
(*   OptEntry(o), ParseOptions(opts)   --predefined-topic options, in      *)
(*                          order, later wins; o = [hasc, c, n, id];       *)
(*                          2-field options (hasc = FALSE) go to STAR      *)
(*   EffectiveConfig(file,opts) = Merge(file, ParseOptions(opts))          *)
(*                                                                         *)
(* Deviations (DESIGN 2.3): "ShadowedStar" makes GetIdImpl behave like the *)
(* unrepaired code (falls back to STAR entries whose id the client         *)
(* overrides, finding F7); with Deviations = {} GetIdImpl = GetId.         *)
(***************************************************************************)
EXTENDS Integers, Sequences, FiniteSets, TLC, Json

STAR == "*"

Entry(c, id, n) == [c |-> c, id |-> id, n |-> n]

WellFormed(cfg) ==
    \A e1, e2 \in cfg : (e1.c = e2.c /\ e1.id = e2.id) => e1.n = e2.n

Has(cfg, c, id) == \E e \in cfg : e.c = c /\ e.id = id

NameOf(cfg, c, id) == (CHOOSE e \in cfg : e.c = c /\ e.id = id).n

ClientsOf(cfg) == {e.c : e \in cfg}
IdsOf(cfg)     == {e.id : e \in cfg}
NamesOf(cfg)   == {e.n : e \in cfg}

NotFound == [found |-> FALSE, n |-> ""]
Found(n) == [found |-> TRUE, n |-> n]

(* lookup by id: the client's own entry wins, else the STAR entry *)
GetName(cfg, c, id) ==
    IF Has(cfg, c, id) THEN Found(NameOf(cfg, c, id))
    ELSE IF Has(cfg, STAR, id) THEN Found(NameOf(cfg, STAR, id))
    ELSE NotFound

(* lookup by name, intended: own entries named n, plus STAR entries named  *)
(* n whose id the client does not override                                 *)
GetId(cfg, c, n) ==
    {e.id : e \in {e \in cfg : e.n = n /\ (e.c = c \/ (e.c = STAR /\ ~Has(cfg, c, e.id)))}}

(* what the unrepaired code may return: any own or STAR entry named n      *)
GetIdUnrepaired(cfg, c, n) ==
    {e.id : e \in {e \in cfg : e.n = n /\ (e.c = c \/ e.c = STAR)}}

(* STAR ids named n that client c overrides with another name: the results *)
(* specific to finding F7 (used to give the violation a precise signature) *)
ShadowedIds(cfg, c, n) ==
    {e.id : e \in {e \in cfg : e.c = STAR /\ e.n = n /\ c # STAR
                               /\ Has(cfg, c, e.id) /\ NameOf(cfg, c, e.id) # n}}

(* independent formulation: the function client c sees *)
View(cfg, c) ==
    LET own  == {e \in cfg : e.c = c}
        star == {e \in cfg : e.c = STAR}
        dom  == {e.id : e \in own \cup star}
    IN [id \in dom |-> IF \E e \in own : e.id = id
                       THEN (CHOOSE e \in own : e.id = id).n
                       ELSE (CHOOSE e \in star : e.id = id).n]

Add(cfg, c, n, id) == {e \in cfg : ~(e.c = c /\ e.id = id)} \cup {Entry(c, id, n)}

Merge(dst, src) == {e \in dst : ~Has(src, e.c, e.id)} \cup src

OptEntry(o) == Entry(IF o.hasc THEN o.c ELSE STAR, o.id, o.n)

RECURSIVE ParseOptions(_)
ParseOptions(opts) ==
    IF opts = <<>> THEN {}
    ELSE LET o == OptEntry(opts[Len(opts)])
         IN Add(ParseOptions(SubSeq(opts, 1, Len(opts) - 1)), o.c, o.n, o.id)

EffectiveConfig(file, opts) == Merge(file, ParseOptions(opts))

-----------------------------------------------------------------------------
(* Model: pick any configuration, then ask any one question.               *)

CONSTANTS Clients,      \* client ids entries are defined for (contains STAR)
          Ids, Names,   \* ids / names of entries
          QClients, QIds, QNames,  \* extra (undefined) query arguments
          Deviations

VARIABLES cfg, q

NONE == "-"

CfgOf(f) == {Entry(s[1], s[2], f[s]) : s \in {s \in DOMAIN f : f[s] # NONE}}

AllConfigs == {CfgOf(f) : f \in [Clients \X Ids -> Names \cup {NONE}]}

GetIdImpl(c0, c, n) ==
    IF "ShadowedStar" \in Deviations THEN GetIdUnrepaired(c0, c, n) ELSE GetId(c0, c, n)

NoQuery == [kind |-> "none", c |-> "", id |-> 0, n |-> ""]

AskClients == Clients \cup QClients
AskIds     == Ids \cup QIds
AskNames   == Names \cup QNames

(* one test vector per configuration: every query with its admissible results *)
Vector(c0) ==
    [cfg   |-> c0,
     names |-> {[c |-> c, id |-> id, found |-> GetName(c0, c, id).found, n |-> GetName(c0, c, id).n]
                 : c \in AskClients, id \in AskIds},
     ids   |-> {[c |-> c, n |-> n, adm |-> GetId(c0, c, n), shadowed |-> ShadowedIds(c0, c, n)]
                 : c \in AskClients, n \in AskNames}]

Init == cfg \in AllConfigs /\ q = NoQuery

AskName(c, id) == q' = [kind |-> "name", c |-> c, id |-> id, n |-> ""]
AskId(c, n)    == q' = [kind |-> "id", c |-> c, id |-> 0, n |-> n]
EmitVector     == q' = [NoQuery EXCEPT !.kind = "vector"]
                  /\ PrintT("VEC:" \o ToJson(Vector(cfg)))

Next == /\ q.kind = "none"
        /\ UNCHANGED cfg
        /\ \/ \E c \in AskClients, id \in AskIds : AskName(c, id)
           \/ \E c \in AskClients, n \in AskNames : AskId(c, n)
           \/ EmitVector

Spec == Init /\ [][Next]_<<cfg, q>>

-----------------------------------------------------------------------------
(* C05 *)

(* lookup by id gives the client-specific entry when one exists, otherwise *)
(* the STAR entry (stated through the independent View formulation)        *)
NameOK(c0, c, id) ==
    LET v == View(c0, c) IN
    /\ GetName(c0, c, id).found <=> id \in DOMAIN v
    /\ id \in DOMAIN v => GetName(c0, c, id).n = v[id]
    /\ Has(c0, c, id) => GetName(c0, c, id) = Found(NameOf(c0, c, id))
    /\ (~Has(c0, c, id) /\ Has(c0, STAR, id)) => GetName(c0, c, id) = Found(NameOf(c0, STAR, id))

(* lookup by name returns only ids that read back as that name for that    *)
(* client, and reports "not found" only when no id reads back as that name *)
IdOK(c0, c, n) ==
    /\ \A id \in GetIdImpl(c0, c, n) : GetName(c0, c, id) = Found(n)
    /\ GetIdImpl(c0, c, n) = {} <=> ~\E id \in IdsOf(c0) : GetName(c0, c, id) = Found(n)

Prop_C05 ==
    /\ WellFormed(cfg)
    /\ q.kind = "name" => NameOK(cfg, q.c, q.id)
    /\ q.kind = "id"   => IdOK(cfg, q.c, q.n)

(* the admissible set is exactly the ids that read back as n *)
Prop_GetIdComplete ==
    q.kind = "id" => GetId(cfg, q.c, q.n) = {id \in IdsOf(cfg) : GetName(cfg, q.c, id) = Found(q.n)}

-----------------------------------------------------------------------------
(* Merge / options (C30 uses these; checked here so that the operators the *)
(* other families rely on are known to mean what the header says).         *)
(* Model MC_TopicsMerge: cfg = file, q is unused.                          *)

CONSTANTS OptMax        \* longest option list enumerated

Options == [hasc : BOOLEAN, c : Clients \ {STAR}, n : Names, id : Ids]

OptSeqs == UNION {[1..k -> Options] : k \in 0..OptMax}

LastFor(opts, c, id) ==     \* index of the last option that defines (c,id), 0 if none
    LET hit == {i \in 1..Len(opts) : OptEntry(opts[i]).c = c /\ OptEntry(opts[i]).id = id}
    IN IF hit = {} THEN 0 ELSE CHOOSE i \in hit : \A j \in hit : j <= i

Prop_Merge ==
    \A opts \in OptSeqs :
        LET eff == EffectiveConfig(cfg, opts) IN
        /\ WellFormed(eff)
        /\ \A c \in Clients, id \in Ids :
              LET l == LastFor(opts, c, id) IN
              IF l > 0 THEN Has(eff, c, id) /\ NameOf(eff, c, id) = opts[l].n
              ELSE /\ Has(eff, c, id) <=> Has(cfg, c, id)
                   /\ Has(cfg, c, id) => NameOf(eff, c, id) = NameOf(cfg, c, id)

InitMerge == cfg \in AllConfigs /\ q = NoQuery
NextMerge == FALSE /\ UNCHANGED <<cfg, q>>
=============================================================================
