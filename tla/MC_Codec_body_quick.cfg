\* C20/C22 quick: every type, well framed, every body of length 0..min(fixed+3, 5) over {00,01,61,FF}
\* plus the bodies made of one repeated octet up to min(fixed+3, 7); vectors printed.
CONSTANTS
  Alphabet = {}
  MaxLen = 0
  Emit = TRUE
  EmitDepth = 0
  MutDepth = 0
  VarLens = {0}
  BigLens = {}
  BodyAlphabet = {0, 1, 97, 255}
  BodyExtra = 3
  BodyCap = 5
  RepCap = 7
  ShortIds = {0}
  ShortPairIds = {0}
INIT InitBody
NEXT NextBody
VIEW View
INVARIANTS Inv_C20 Inv_C22 Inv_BodyFramed
