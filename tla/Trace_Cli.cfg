\* judge a batch of recorded cases (Trace_Cli.ndjson); -workers 1
SPECIFICATION Spec
POSTCONDITION Report
