\* as MC_TxStore with sequences of length 4
CONSTANTS
  K = {1, 2}
  V = {1, 2}
  MaxOps = 4
INIT Init
NEXT Next
INVARIANT Prop_C29_Store
