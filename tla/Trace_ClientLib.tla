---------------------------- MODULE Trace_ClientLib ----------------------------
(***************************************************************************)
(* Validation of traces recorded from the real client.Client by           *)
(* harness/cldrv against ClientLib (Dev = {}: the intended behaviour).     *)
(*                                                                         *)
(* trace.ndjson holds many traces; a line with ev.t = "Reset" starts a new *)
(* one.  For every line the step function of ClientLib named by the input  *)
(* event is applied to the specification state and what the code did       *)
(* (datagrams, API returns, callbacks, termination, goroutines) is judged  *)
(* by the named clauses below.  Clauses only mention what the property    *)
(* states.  A violated clause is recorded with a specific signature       *)
(* "<property>/<clause>/<detail>" in the ghost variable `viol`; the rest   *)
(* of that trace is skipped (the specification state no longer describes   *)
(* the client).  An observable difference that no clause covers is a      *)
(* DESYNC (model gap), reported as such, never as a violation.             *)
(* Differences in projected internals (state, pending IDs) are counted    *)
(* ("soft") but do not stop a trace.                                       *)
(* The whole batch is judged in one behaviour; results are printed as JSON *)
(* by the POSTCONDITION.                                                   *)
(***************************************************************************)
EXTENDS ClientLib, SequencesExt

Lines == ndJsonDeserialize("trace.ndjson")

VARIABLES alts,   \* specification states compatible with the trace so far
          i,      \* next line
          mode,   \* "run" | "skip" for the current trace
          viol,   \* sequence of [tr, i, sig]
          stat    \* [lines, traces, judged, soft, cov]

tvars == <<s, alts, obs, ok, hist, i, mode, viol, stat>>

---------------------------------------------------------------------------
CfgOf(c) ==
    LET ids == {c.predef[k].id : k \in DOMAIN c.predef}
    IN [rd |-> c.rd, rc |-> c.rc, ct |-> c.ct, ka |-> c.ka,
        predef |-> [x \in ids |-> (CHOOSE k \in DOMAIN c.predef : c.predef[k].id = x)]]
CfgOf2(c) ==
    LET f == CfgOf(c).predef IN [CfgOf(c) EXCEPT !.predef = [x \in DOMAIN f |-> c.predef[f[x]].tl]]

(* the message ID the client chose for the exchange this call starts: bound from the datagram it sent *)
IdTypes == {"REGISTER", "SUBSCRIBE", "UNSUBSCRIBE", "PUBLISH"}
MidHint(l) == LET ks == {k \in DOMAIN l.out : l.out[k].t \in IdTypes}
              IN IF ks = {} THEN 0 ELSE l.out[CHOOSE k \in ks : \A j \in ks : k <= j].mid
ApiOf(e, hint) == [api |-> e.api, call |-> e.call, mid |-> hint, tl |-> e.tl, short |-> e.short, stid |-> e.stid, qos |-> e.qos,
             tid |-> e.tid, dur |-> e.dur, dsec |-> e.dsec, h |-> e.h, pl |-> e.pl]
GwOf(p)  == [t |-> p.t, qos |-> p.qos, tit |-> p.tit, tid |-> p.tid, mid |-> p.mid, rc |-> p.rc, tl |-> p.tl,
             data |-> p.data, dup |-> p.dup]

ObsPk(p) == [t |-> p.t, mid |-> p.mid, tid |-> p.tid, dup |-> p.dup, qos |-> p.qos, tit |-> p.tit, rc |-> p.rc,
             hascid |-> p.cid # "", hasdur |-> p.hasdur, tl |-> p.tl, retx |-> FALSE]

(* only the fields that matter for the packet type take part in comparisons *)
Norm(p) ==
    LET z == [P0 EXCEPT !.t = p.t]
    IN CASE p.t = "CONNECT"     -> [z EXCEPT !.hascid = p.hascid]
         [] p.t = "REGISTER"    -> [z EXCEPT !.mid = p.mid, !.tl = p.tl]
         [] p.t = "REGACK"      -> [z EXCEPT !.mid = p.mid, !.tid = p.tid, !.rc = IF p.rc = 0 THEN 0 ELSE 1]  \* which refusal code: free
         [] p.t = "SUBSCRIBE"   -> [z EXCEPT !.mid = p.mid, !.dup = p.dup, !.qos = p.qos, !.tit = p.tit,
                                             !.tid = IF p.tit = 0 THEN 0 ELSE p.tid,
                                             !.tl = IF p.tit = 0 THEN p.tl ELSE <<>>]
         [] p.t = "UNSUBSCRIBE" -> [z EXCEPT !.mid = p.mid, !.tit = p.tit,
                                             !.tid = IF p.tit = 0 THEN 0 ELSE p.tid,
                                             !.tl = IF p.tit = 0 THEN p.tl ELSE <<>>]
         [] p.t = "PUBLISH"     -> [z EXCEPT !.mid = IF p.qos \in {1, 2} THEN p.mid ELSE 0, !.dup = p.dup,
                                             !.qos = p.qos, !.tit = p.tit, !.tid = p.tid]
         [] p.t = "PUBACK"      -> [z EXCEPT !.mid = p.mid, !.tid = p.tid, !.rc = IF p.rc = 0 THEN 0 ELSE 1]
         [] p.t \in {"PUBREC", "PUBREL", "PUBCOMP"} -> [z EXCEPT !.mid = p.mid]
         [] p.t = "PINGREQ"     -> [z EXCEPT !.hascid = p.hascid]
         [] p.t = "DISCONNECT"  -> [z EXCEPT !.hasdur = p.hasdur]
         [] OTHER -> z

NormSeq(q) == [k \in DOMAIN q |-> Norm(q[k])]
Count(q, x) == Cardinality({k \in DOMAIN q : q[k] = x})
BagMinus(a, b) == {x \in Range(a) : Count(a, x) > Count(b, x)}

ClientTypes == {"CONNECT", "AUTH", "WILLTOPIC", "WILLMSG", "REGISTER", "REGACK", "PUBLISH", "PUBACK", "PUBREC",
                "PUBREL", "PUBCOMP", "SUBSCRIBE", "UNSUBSCRIBE", "PINGREQ", "PINGRESP", "DISCONNECT",
                "WILLTOPICUPD", "WILLMSGUPD", "SEARCHGW"}

---------------------------------------------------------------------------
(* Expected behaviour for one line.  Result: the ClientLib step result     *)
(* plus `missed`: what should have happened at an earlier tick of a quiet  *)
(* period.                                                                 *)
RECURSIVE AdvQuiet(_, _, _)
AdvQuiet(r, n, missed) ==
    LET d == NextDue(r.s)
    IN IF d = -1 \/ d >= n THEN [r |-> [r EXCEPT !.s = Elapse(r.s, n)], missed |-> missed, left |-> 0]
       ELSE LET s1 == Elapse(r.s, d)
                f  == FireSeq(Res(s1, <<>>, {}), SetToSeq(DueTimers(s1)))
            IN AdvQuiet([r EXCEPT !.s = f.s], n - d, [out |-> missed.out \o f.out, rets |-> missed.rets \cup f.rets])

NoMissed == [out |-> <<>>, rets |-> {}]

(* candidates for the final instant: every firing order of the due timers *)
AdvCands(st, n) ==
    LET q  == AdvQuiet(Res(st, <<>>, {}), n, NoMissed)
        s1 == q.r.s
        due == DueTimers(s1)
    IN IF Cardinality(due) <= 1 \/ Cardinality(due) > 4
       THEN {[r |-> FireSeq(Res(s1, <<>>, {}), SetToSeq(due)), missed |-> q.missed]}
       ELSE {[r |-> FireSeq(Res(s1, <<>>, {}), o), missed |-> q.missed] : o \in Orders(due)}

Cands(st, l) ==
    CASE l.ev.t = "Api" -> {[r |-> DoApi([st EXCEPT !.ncall = @ + 1], ApiOf(l.ev, MidHint(l))), missed |-> NoMissed]}
      [] l.ev.t = "G"   ->
           {[r |-> DoGw(st, GwOf(l.ev.p)), missed |-> NoMissed]}
           \cup \* a refusal (REGACK / SUBACK with a return code other than accepted) may fail the call at once or be
                \* taken as "try again later" (congestion): no property decides that.  A refusal is no progress: the
                \* retransmission schedule and the bound of the call stay those of the first transmission
              (IF st.alive /\ l.ev.p.t \in {"REGACK", "SUBACK"} /\ l.ev.p.rc # 0 /\ l.ev.p.mid \in DOMAIN st.tx
                  /\ st.tx[l.ev.p.mid].kind = (IF l.ev.p.t = "REGACK" THEN "reg" ELSE "sub")
               THEN {[r |-> Res(Refused(st, GwOf(l.ev.p)), <<>>, {}), missed |-> NoMissed]} ELSE {})
           \cup \* the code restarts the sleep period on a duplicated DISCONNECT reply; both are accepted
                \* here, the bound of the Sleep call (C28) is not extended by it
              (IF st.alive /\ l.ev.p.t = "DISCONNECT" /\ "DISCONNECT" \in DOMAIN st.ty
                  /\ st.ty["DISCONNECT"].kind = "sleep" /\ st.ty["DISCONNECT"].phase = "asleep"
               THEN {[r |-> Res([st EXCEPT !.ty["DISCONNECT"].due = st.ty["DISCONNECT"].dur], <<>>, {}), missed |-> NoMissed]}
               ELSE {})
      [] l.ev.t = "GRaw" -> {[r |-> DoGw(st, [GwOf(l.ev.p) EXCEPT !.t = "JUNK"]), missed |-> NoMissed]}
      [] l.ev.t = "Adv" -> AdvCands(st, l.ev.n)
      [] OTHER          -> {[r |-> Res(st, <<>>, {}), missed |-> NoMissed]}

---------------------------------------------------------------------------
(* Judging one line against one candidate: the set of signatures.          *)
ApiOfCall(pre, l, c) ==
    IF c \in DOMAIN pre.calls THEN pre.calls[c]
    ELSE CallRec(l.ev.api, 0, l.ev.qos, <<>>, "")   \* returned within the step of its own begin

JudgeFull(pre, l, cand) ==
    LET r     == cand.r
        post  == r.s
        obsO  == NormSeq([k \in DOMAIN l.out |-> ObsPk(l.out[k])])
        expO  == NormSeq(r.out)
        misO  == NormSeq(cand.missed.out)
        missing == BagMinus(expO, obsO) \cup Range(misO)
        extra   == BagMinus(obsO, expO)
        isPingApi == l.ev.t = "Api" /\ l.ev.api = "Ping"
        \* ---- datagrams
        sigOut ==
          {"C23/malformed/" \o (IF l.out[k].t = "JUNK" /\ l.ev.t = "G" /\ l.ev.p.t = "WILLMSGREQ" THEN "WILLMSG-empty" ELSE l.out[k].t) :
              k \in {x \in DOMAIN l.out : ~l.out[x].wf \/ l.out[x].t \notin ClientTypes}}
          \cup
          (IF ~pre.alive
           THEN {"C33/keepalive-ping-after-termination" : e \in {x \in extra : x.t = "PINGREQ" /\ ~x.hascid /\ ~isPingApi}}
           ELSE
             {"C17/retransmit-no-dup/" \o m.t \o "-qos" \o ToString(m.qos) :
                 m \in {x \in missing : x.t \in {"PUBLISH", "SUBSCRIBE"} /\ x.dup /\ [x EXCEPT !.dup = FALSE] \in extra}}
             \cup {"C17/retransmit-changed/" \o m.t :
                 m \in {x \in missing : x.t \in {"PUBLISH", "SUBSCRIBE", "REGISTER", "UNSUBSCRIBE", "PUBREL"} /\ l.ev.t = "Adv"
                                         /\ [x EXCEPT !.dup = FALSE] \notin extra
                                         /\ \E e \in extra : e.t = x.t}}
             \cup {"C17/retransmit-missing/" \o m.t :
                 m \in {x \in missing : x.t \in {"PUBLISH", "SUBSCRIBE", "REGISTER", "UNSUBSCRIBE", "PUBREL"} /\ l.ev.t = "Adv"
                                         /\ ~\E e \in extra : e.t = x.t}}
             \cup {"C17/retransmit-beyond-budget/" \o e.t :
                 e \in {x \in extra : x.t \in {"PUBLISH", "SUBSCRIBE", "REGISTER", "UNSUBSCRIBE", "PUBREL"} /\ l.ev.t = "Adv"
                                       /\ ~\E m \in missing : m.t = x.t}}
             \cup {"C17/pubrel-unanswered/" \o (IF l.ev.p.mid \in DOMAIN pre.rtx THEN "pending-exchange" ELSE "finished-exchange") :
                 m \in {x \in missing : x.t = "PUBCOMP" /\ l.ev.t = "G"}}
             \cup {"C06/pubrec-missing/" \o (IF l.ev.p.mid \in DOMAIN pre.tx THEN "coinciding-" \o pre.tx[l.ev.p.mid].kind ELSE "no-coincidence") :
                 m \in {x \in missing : x.t = "PUBREC" /\ l.ev.t = "G"}}
             \cup {"C06/own-ack-lost/coinciding-pub2" :
                 m \in {x \in missing : x.t = "PUBREL" /\ l.ev.t = "G" /\ l.ev.p.t = "PUBREC" /\ l.ev.p.mid \in pre.gwused}}
             \cup {"C16/register-retransmit-rejected" :
                 m \in {x \in missing : x.t = "REGACK" /\ x.rc = 0 /\ [x EXCEPT !.rc = 1] \in extra}}
             \cup {"C33/no-pingreq-within-keepalive" :
                 m \in {x \in missing : x.t = "PINGREQ" /\ ~x.hascid /\ l.ev.t = "Adv" /\ pre.kaDue >= 0}}
             \cup {"C33/keepalive-ping-while-" \o l.st :
                 e \in {x \in extra : x.t = "PINGREQ" /\ ~x.hascid /\ ~isPingApi /\ post.st # "active" /\ pre.cfg.ka > 0}}
             \cup {"C33/wakeup-blocked-by-keepalive" :
                 m \in {x \in missing : x.t = "PINGREQ" /\ x.hascid /\ pre.kaGhost}})
        outKnown == \* differences covered by a clause above
          {x \in missing \cup extra :
              \/ x.t \in {"PUBLISH", "SUBSCRIBE", "REGISTER", "UNSUBSCRIBE", "PUBREL"} /\ l.ev.t = "Adv"
              \/ x.t = "PUBCOMP" /\ l.ev.t = "G"
              \/ x.t = "PUBREL" /\ l.ev.t = "G" /\ l.ev.p.t = "PUBREC" /\ l.ev.p.mid \in pre.gwused
              \/ x.t = "PUBREC" /\ l.ev.t = "G" /\ x \in missing
              \/ x.t \in {"WILLMSG", "JUNK"} /\ sigOut # {}
              \/ x.t = "REGACK" /\ sigOut # {}
              \/ x.t = "PINGREQ" /\ sigOut # {}
              \/ x.t \in {"PUBLISH", "SUBSCRIBE"} /\ sigOut # {}}
        sigOutGap == IF pre.alive /\ (missing \cup extra) \ outKnown # {}
                     THEN {"DESYNC/out/" \o l.ev.t \o "/" \o (CHOOSE x \in (missing \cup extra) \ outKnown : TRUE).t} ELSE {}
        \* ---- API returns
        \* calls whose return is due to the termination of the client may return with any error,
        \* any time until the receive loop has ended; so may a call whose own completion coincides
        \* with the termination (its select sees both)
        termNow == pre.alive /\ ~post.alive
        termC  == {c \in DOMAIN pre.calls : pre.calls[c].term} \cup {c \in DOMAIN post.calls : post.calls[c].term}
                  \cup {x.call : x \in {y \in r.rets \cup cand.missed.rets : y.term}}
                  \cup (IF termNow THEN {x.call : x \in r.rets} ELSE {})
        \* which error a failing call returns is not promised by any property: only nil / not nil is compared
        E(e)   == IF e = "nil" THEN "nil" ELSE "error"
        obsR   == {[call |-> l.rets[k].call, err |-> E(l.rets[k].err)] : k \in DOMAIN l.rets}
        expR   == {[call |-> x.call, err |-> E(x.err)] : x \in {y \in r.rets \cup cand.missed.rets : y.call \notin termC}}
        unexp  == {x \in obsR : x \notin expR /\ x.call \notin termC}
        absent == {x \in expR : x \notin obsR /\ x.call \notin {y.call : y \in obsR}}
        wrong  == {x \in expR : x \notin obsR /\ x.call \in {y.call : y \in unexp}}
        isPubQ(c) == ApiOfCall(pre, l, c).api \in {"Publish", "PublishPredefined"} /\ ApiOfCall(pre, l, c).qos \in {1, 2}
        sigRet ==
          {"C17/nil-without-ack/" \o (IF c.call \in termC THEN "client-terminated" ELSE "exchange-pending") :
              c \in {x \in obsR : x.err = "nil" /\ isPubQ(x.call)
                                    /\ ~\E y \in r.rets \cup cand.missed.rets : y.call = x.call /\ y.err = "nil"}}
          \cup {"C17/error-despite-ack/" \o x.err :
              x \in {y \in unexp : isPubQ(y.call) /\ y.err # "nil" /\ [call |-> y.call, err |-> "nil"] \in expR}}
          \cup {"C33/api-failed-by-keepalive/" \o ApiOfCall(pre, l, x.call).api :
              x \in {y \in unexp : y.err # "nil" /\ pre.kaGhost /\ ~isPubQ(y.call)}}
          \cup {"C33/api-failed-by-keepalive/" \o ApiOfCall(pre, l, x.call).api :
              x \in {y \in unexp : y.err # "nil" /\ pre.kaGhost /\ isPubQ(y.call) /\ [call |-> y.call, err |-> "nil"] \notin expR}}
          \cup {"C33/api-failed-by-keepalive/" \o ApiOfCall(pre, l, x.call).api :
              x \in {y \in absent : y.err = "nil" /\ pre.kaGhost}}
          \* C06 (client half): the acknowledgement of a client exchange is not honoured and an exchange of the
          \* gateway with the same message ID has been open in the meantime
          \cup {"C06/own-ack-lost/coinciding-" \o pre.tx[l.ev.p.mid].kind :
              x \in {y \in absent : y.err = "nil" /\ l.ev.t = "G" /\ l.ev.p.mid \in DOMAIN pre.tx
                                     /\ pre.tx[l.ev.p.mid].call = y.call /\ l.ev.p.mid \in pre.gwused}}
          \cup {"C17/ack-ignored/" \o ApiOfCall(pre, l, x.call).api :
              x \in {y \in absent : y.err = "nil" /\ isPubQ(y.call) /\ ~pre.kaGhost}}
          \cup {"C28/call-overdue/" \o pre.calls[x.call].api :
              x \in {y \in obsR : y.call \in DOMAIN pre.calls
                                  /\ pre.calls[y.call].dl - (IF l.ev.t = "Adv" THEN l.ev.n ELSE 0) < 0}}
          \cup {"C28/call-overdue/" \o post.calls[c].api : c \in {x \in DOMAIN post.calls : post.calls[x].dl < 0 /\ x \notin {y.call : y \in obsR}}}
          \cup {"C28/call-overdue/" \o ApiOfCall(pre, l, x.call).api : x \in {y \in absent : ApiOfCall(pre, l, y.call).dl <= (IF l.ev.t = "Adv" THEN l.ev.n ELSE 0)}}
        sigRetGap == IF (unexp \cup absent) # {} /\ sigRet = {}
                     THEN {"DESYNC/ret/" \o l.ev.t \o "/" \o (CHOOSE x \in unexp \cup absent : TRUE).err} ELSE {}
        \* ---- callbacks
        obsC == {[h |-> l.cbs[k].h, tl |-> l.cbs[k].tl] : k \in DOMAIN l.cbs}
        subbed(h, n) == \E x \in pre.subs : x.h = h /\ MatchesDecl(x.f, n)
        sigCb ==
          IF ~pre.alive THEN {}
          ELSE {"C27/callback-not-matching-any-subscription/" \o c.h : c \in {x \in obsC : ~subbed(x.h, x.tl)}}
               \cup (IF r.deliv.on /\ Len(l.cbs) > 1 THEN {"C27/duplicate-callback"} ELSE {})
               \cup (IF r.deliv.on /\ obsC = {} /\ NoCb \notin r.deliv.adm THEN {"C27/matching-callback-not-invoked/qos" \o ToString(r.deliv.qos)} ELSE {})
               \cup (IF r.deliv.on /\ \E c \in obsC : c \notin r.deliv.adm /\ subbed(c.h, c.tl) THEN {"C27/callback-with-wrong-topic"} ELSE {})
               \cup (IF ~r.deliv.on /\ obsC # {} /\ \A c \in obsC : subbed(c.h, c.tl) THEN {"C27/delivery-at-wrong-step/" \o l.ev.t} ELSE {})
        \* ---- termination and goroutines
        sigEnd ==
          (IF post.ended /\ ~l.ended /\ l.ev.t \in {"Adv", "PreEnd"} THEN {"C28/client-not-ended-after-termination"} ELSE {})
          \cup (IF post.ended /\ l.ended /\ l.ev.t = "PreEnd" /\ l.gor > 0 THEN {"C28/goroutines-after-end"} ELSE {})
          \cup (IF l.ev.t = "End" /\ (l.leaked > 0 \/ ~l.ended) THEN {"C28/goroutines-after-close"} ELSE {})
          \cup (IF l.ev.t = "PreEnd" /\ post.ended /\ l.napi > 0 THEN {"C28/call-blocked-after-end"} ELSE {})
          \* the driver's watchdog found goroutines of the client waiting for a mutex for ever (virtual time
          \* cannot even advance): pending calls never return, the goroutines never exit
          \cup (IF l.ev.t = "Hang"
                THEN {IF l.ev.h = "" THEN "DESYNC/hang/unexplained" ELSE "C28/goroutine-blocked-forever/" \o l.ev.h} ELSE {})
    IN IF l.ev.t \in {"End", "Hang"} THEN sigEnd
       ELSE sigOut \cup sigOutGap \cup sigRet \cup sigRetGap \cup sigCb \cup sigEnd

(* fast path: a line on which nothing was expected and nothing was observed *)
Judge(pre, l, cand) ==
    IF /\ l.out = <<>> /\ l.rets = <<>> /\ l.cbs = <<>> /\ cand.r.out = <<>> /\ cand.r.rets = {}
       /\ cand.missed.out = <<>> /\ cand.missed.rets = {} /\ ~cand.r.deliv.on
       /\ l.ev.t \notin {"PreEnd", "End", "Hang"} /\ ~cand.r.s.ended
       /\ \A c \in DOMAIN cand.r.s.calls : cand.r.s.calls[c].dl >= 0
    THEN {}
    ELSE JudgeFull(pre, l, cand)

(* state after the line: calls that returned (bound from the trace) are removed *)
After(pre, cand, l) ==
    LET done == {l.rets[k].call : k \in DOMAIN l.rets}
        st   == cand.r.s
        late == IF pre.alive /\ ~st.alive
                THEN {x.call : x \in {y \in cand.r.rets : y.call \notin done /\ y.call \in DOMAIN pre.calls}} ELSE {}
        keep == (DOMAIN st.calls \ {x \in done : x \in DOMAIN st.calls /\ st.calls[x].term}) \cup late
    IN [st EXCEPT !.calls = [c \in keep |-> IF c \in late THEN [pre.calls[c] EXCEPT !.term = TRUE, !.dl = RT] ELSE st.calls[c]]]

Soft(post, l) ==
    IF l.ev.t \in {"End", "PreEnd"} THEN {} ELSE
    (IF post.alive /\ post.st # l.st THEN {"st"} ELSE {})
    \cup (IF post.alive /\ ~(DOMAIN post.tx \subseteq Range(l.pend) /\ Range(l.pend) \subseteq DOMAIN post.tx \cup DOMAIN post.rtx)
          THEN {"pend"} ELSE {})
    \cup (IF post.alive /\ DOMAIN post.ty # Range(l.ptypes) THEN {"ptypes"} ELSE {})

---------------------------------------------------------------------------
CovOf(pre, l) ==
    CASE l.ev.t = "Api" -> "Api/" \o l.ev.api \o "/" \o pre.st
      [] l.ev.t = "G"   -> "G/" \o l.ev.p.t \o "/" \o pre.st \o "/" \o
                             (IF l.ev.p.mid \in DOMAIN pre.tx THEN pre.tx[l.ev.p.mid].kind
                              ELSE IF l.ev.p.mid \in DOMAIN pre.rtx THEN "bpub2" ELSE "-")
      [] l.ev.t = "Adv" -> "Adv/" \o pre.st \o "/" \o ToString(Cardinality(DOMAIN pre.tx)) \o "/" \o
                             ToString(Cardinality(DOMAIN pre.ty)) \o (IF l.out = <<>> THEN "/quiet" ELSE "/out")
      [] OTHER -> l.ev.t

TInit == /\ s = InitState(Cfg0)
         /\ alts = {InitState(Cfg0)}
         /\ obs = Obs0 /\ ok = "ok" /\ hist = <<>>
         /\ i = 1 /\ mode = "skip"
         /\ viol = <<>>
         /\ stat = [lines |-> 0, traces |-> 0, judged |-> 0, soft |-> 0, cov |-> {}, softl |-> <<>>]

(* The specification leaves some choices open that a single line does not   *)
(* reveal (firing order of simultaneous timers, restart of the sleep period *)
(* by a duplicated DISCONNECT).  `alts` is the set of specification states   *)
(* that agree with everything observed so far; a line is accepted if some    *)
(* state of `alts` has a candidate step without findings.  `s` is one        *)
(* representative.                                                          *)
Pairs(l) == UNION {{[pre |-> x, c |-> c] : c \in Cands(x, l)} : x \in alts}

TNext ==
    /\ i <= Len(Lines)
    /\ LET l == Lines[i]
       IN IF l.ev.t = "Reset"
          THEN /\ s' = InitState(CfgOf2(l.ev.cfg))
               /\ alts' = {InitState(CfgOf2(l.ev.cfg))}
               /\ mode' = "run"
               /\ viol' = viol
               /\ stat' = [stat EXCEPT !.lines = @ + 1, !.traces = @ + 1]
          ELSE IF mode = "skip" \/ l.ev.t \in {"Skip", "Release", "Race"}
          THEN /\ UNCHANGED <<s, alts, viol>>
               /\ mode' = IF l.ev.t \in {"Release", "Race"} THEN "skip" ELSE mode  \* gated schedules are not judged
               /\ stat' = [stat EXCEPT !.lines = @ + 1]
          ELSE LET ps   == Pairs(l)
                   good == {pc \in ps : Judge(pc.pre, l, pc.c) = {}}
                   one  == IF good # {} THEN CHOOSE pc \in good : TRUE
                           ELSE IF \E pc \in ps : pc.pre = s THEN CHOOSE pc \in ps : pc.pre = s
                           ELSE CHOOSE pc \in ps : TRUE
                   sigs == IF good # {} THEN {} ELSE Judge(one.pre, l, one.c)
                   nxt  == IF good # {} THEN {After(pc.pre, pc.c, l) : pc \in good} ELSE {After(one.pre, one.c, l)}
               IN /\ alts' = nxt
                  /\ s' = After(one.pre, one.c, l)
                  /\ mode' = IF sigs = {} THEN "run" ELSE "skip"
                  /\ viol' = IF sigs = {} THEN viol
                             ELSE viol \o SetToSeq({[tr |-> l.tr, i |-> l.i, sig |-> x] : x \in sigs})
                  /\ stat' = [stat EXCEPT !.lines = @ + 1, !.judged = @ + 1,
                                          !.soft = @ + (IF Soft(one.c.r.s, l) # {} /\ sigs = {} THEN 1 ELSE 0),
                                          !.softl = IF Soft(one.c.r.s, l) # {} /\ sigs = {} /\ Len(@) < 20
                                                    THEN Append(@, [tr |-> l.tr, i |-> l.i, what |-> SetToSeq(Soft(one.c.r.s, l))]) ELSE @,
                                          !.cov = @ \cup {CovOf(one.pre, l)}]
    /\ i' = i + 1
    /\ UNCHANGED <<obs, ok, hist>>
    /\ TLCSet(1, [viol |-> viol', lines |-> stat'.lines, traces |-> stat'.traces, judged |-> stat'.judged,
                  soft |-> stat'.soft, softl |-> stat'.softl, cov |-> SetToSeq(stat'.cov)])

TSpec == TInit /\ [][TNext]_tvars

Done == i > Len(Lines)

(* POSTCONDITION: one JSON document with the verdicts of the whole batch *)
Post == PrintT("RESULT:" \o ToJson(TLCGet(1)))
=============================================================================
