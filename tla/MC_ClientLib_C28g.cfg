INIT InitConnected
NEXT Next
VIEW View
CONSTANTS
  Dev = {}
  CfgRD = 2
  CfgRC = 1
  CfgCT = 3
  CfgKA = 0
  GenApis <- Apis_C28g
  GenGw <- Gw_C28g
  GenMids = {1}
  MaxEv = 8
  MaxCalls = 2
INVARIANTS Prop_All TypeOK
