\* C20/C22: canonical boundary datagrams (incl. 7168-octet variable parts) + two structural
\* mutations; properties on all states, vectors printed up to depth 1.
CONSTANTS
  Alphabet = {}
  MaxLen = 0
  Emit = TRUE
  EmitDepth = 1
  MutDepth = 2
  VarLens = {0,1,2,245,246,247,248,249,250,251,252,253,254,255,256,257,258}
  BigLens = {7168}
  BodyAlphabet = {}
  BodyExtra = 0
  BodyCap = 0
  RepCap = 0
  ShortIds = {0}
  ShortPairIds = {0}
INIT InitStruct
NEXT NextStruct
VIEW View
INVARIANTS Inv_C20 Inv_C22 Inv_StructBase
