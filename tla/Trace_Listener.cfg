SPECIFICATION Spec
CHECK_DEADLOCK FALSE
CONSTANTS
  NPeers = 3
