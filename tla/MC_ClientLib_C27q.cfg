INIT InitOpenQos2
NEXT Next
VIEW View
CONSTANTS
  Dev = {}
  CfgRD = 2
  CfgRC = 1
  CfgCT = 3
  CfgKA = 0
  GenApis <- Apis_C27q
  GenGw <- Gw_C27q
  GenMids = {}
  MaxEv = 13
  MaxCalls = 5
INVARIANTS Prop_All TypeOK
