--------------------------- MODULE GatewayChecks ---------------------------
(***************************************************************************)
(* The listed properties of the gateway session as predicates over         *)
(* (pre-state s, event e, observation o, post-state s2).                   *)
(*                                                                         *)
(*   o = [outC, outB, bclosed, ended, wasEnded, st, nbuf, pend, reg, leaked, bjunk,  *)
(*        now]                                                             *)
(*                                                                         *)
(* Each Check_Cnn returns the set of violated clauses as tag strings       *)
(* "Cnn/<clause>/<discriminator>": the tag is the signature used for the   *)
(* known-findings file, so it names the mechanism, not only the property.  *)
(* Predicates mention only what the property states; everything else that  *)
(* differs between model and observation is "desync" (model gap, never a   *)
(* violation).                                                             *)
(***************************************************************************)
EXTENDS GatewaySession

Sel(seq, T) == SelectSeq(seq, LAMBDA x : x.t \in T)
Has(seq, T) == \E i \in DOMAIN seq : seq[i].t \in T
Count(seq, T) == Len(Sel(seq, T))
IsC(e, t) == e.t = "C" /\ e.p.t = t
IsB(e, t) == e.t = "B" /\ e.m.t = t
Live(s) == ~s.dying /\ s.alive
EvName(e) == CASE e.t = "C" -> e.p.t [] e.t = "B" -> "b" \o e.m.t [] OTHER -> e.t

Tag(prop, clause, disc) == prop \o "/" \o clause \o "/" \o disc
TagsIf(cond, tag) == IF cond THEN {tag} ELSE {}

-----------------------------------------------------------------------------
(* C01 client PUBLISH reaches the broker unchanged                          *)
Check_C01(s, e, o, s2) ==
    IF ~(IsC(e, "PUBLISH") /\ Live(s)) THEN {}
    ELSE LET p == e.p
             legal == s.st # "disconnected" \/ PublishLegalWhenDisconnected(s, p)
             name == Resolve(s, p)
             pubs == Sel(o.outB, {"PUBLISH"})
             d == "tit" \o ToString(p.tit) \o "-qos" \o ToString(p.qos)
         IN IF ~legal \/ (p.tit = 2 /\ p.swild) THEN {}
            \* a predefined wildcard filter is not a topic name: nothing may be forwarded (cf. C24)
            ELSE IF p.tit \in {0, 1} /\ name \in WildPredefNames THEN TagsIf(pubs # <<>>, Tag("C01", "forwarded-wildcard", d))
            ELSE IF name = "?none" THEN TagsIf(pubs # <<>>, Tag("C01", "forwarded-unresolvable", d))
            ELSE IF Len(pubs) # 1 THEN {Tag("C01", "not-exactly-one-publish", d)}
            ELSE LET m == pubs[1] IN
                 TagsIf(m.topic # name, Tag("C01", "topic", d))
                 \cup TagsIf(m.pl # p.data, Tag("C01", "payload", d))
                 \cup TagsIf(m.retain # p.retain, Tag("C01", "retain", d))
                 \cup TagsIf(m.dup # p.dup, Tag("C01", "dup", d))
                 \cup TagsIf(m.qos # (IF p.qos = 3 THEN 0 ELSE p.qos), Tag("C01", "qos", d))
                 \cup TagsIf(p.qos \in {1, 2} /\ m.mid # p.mid, Tag("C01", "mid", d))

-----------------------------------------------------------------------------
(* C02 broker PUBLISH reaches the client under a resolvable topic ID        *)
PendingSubKnow(s) == {[tit |-> 0, id |-> x.tid, n |-> x.name] : x \in {y \in s.ctx : y.kind = "sub" /\ y.tit = 0 /\ y.tid # 0}}
ClientResolves(s, pk, name) ==
    CASE pk.tit = 2 -> pk.sname = name
      [] pk.tit = 1 -> PredefHas(s.cfg, s.cid, pk.tid) /\ PredefName(s.cfg, s.cid, pk.tid) = name
      [] pk.tit = 0 -> [tit |-> 0, id |-> pk.tid, n |-> name] \in (s.cknow \cup PendingSubKnow(s))
      [] OTHER -> FALSE

Check_C02(s, e, o, s2) ==
    IF IsB(e, "PUBLISH") /\ Live(s) /\ s.st = "active" /\ e.m.plen <= 7168 THEN
        LET m == e.m
            pubs == Sel(o.outC, {"PUBLISH"})
            regs == Sel(o.outC, {"REGISTER"})
            known == m.short \/ RegIds(s, m.topic) # {} \/ PredefIds(s.cfg, s.cid, m.topic) # {}
            d == "qos" \o ToString(m.qos)
        IN IF ~known /\ ~CanAlloc(s) THEN {}      \* ID space used up: nothing can be promised
           ELSE TagsIf(pubs = <<>> /\ regs = <<>>, Tag("C02", "nothing-sent", d))
                \cup TagsIf(Len(pubs) + Len(regs) > 1, Tag("C02", "more-than-one", d))
                \cup TagsIf(known /\ regs # <<>>, Tag("C02", "register-for-known-name", d))
                \cup UNION {TagsIf(pubs[i].data # m.pl, Tag("C02", "payload", d))
                            \cup TagsIf(pubs[i].qos # m.qos, Tag("C02", "qos", d))
                            \cup TagsIf(pubs[i].retain # m.retain, Tag("C02", "retain", d))
                            \cup TagsIf(~ClientResolves(s, pubs[i], m.topic),
                                        Tag("C02", "unresolvable-id",
                                            IF pubs[i].tit = 0 /\ [id |-> pubs[i].tid, n |-> m.topic] \in s.tent
                                            THEN "unconfirmed-subscribe-id" ELSE "tit" \o ToString(pubs[i].tit)))
                            : i \in DOMAIN pubs}
                \cup UNION {TagsIf(regs[i].topic # m.topic, Tag("C02", "register-wrong-name", d))
                            : i \in DOMAIN regs}
    ELSE IF IsC(e, "REGACK") /\ Live(s) /\ s.st = "active" /\ Btx(s, e.p.mid) # {} THEN
        LET x == TheBtx(s, e.p.mid)
            pubs == Sel(o.outC, {"PUBLISH"})
        IN IF x.phase # "regack" \/ e.p.rc # 0 THEN {}
           ELSE TagsIf(Len(pubs) # 1, Tag("C02", "publish-after-regack-missing", "qos" \o ToString(x.qos)))
                \cup UNION {TagsIf(pubs[i].tit # 0 \/ pubs[i].tid # x.regid,
                                   Tag("C02", "publish-after-regack-wrong-id", "x"))
                            \cup TagsIf(pubs[i].data # x.pub.data, Tag("C02", "payload", "after-regack"))
                            : i \in DOMAIN pubs}
    ELSE {}

-----------------------------------------------------------------------------
(* C03 control packets translated one-to-one                                *)
OneB(o, t) == Sel(o.outB, {t})
OneC(o, t) == Sel(o.outC, {t})

Check_C03(s, e, o, s2) ==
    IF ~Live(s) \/ s.st = "disconnected" THEN {}
    ELSE IF IsC(e, "SUBSCRIBE") /\ e.p.qos <= 2 THEN
        LET p == e.p
            name == CASE p.tit = 0 -> p.topic [] p.tit = 1 -> PredefName(s.cfg, s.cid, p.tid)
                      [] p.tit = 2 -> p.sname [] OTHER -> "?none"
            needAlloc == p.tit = 0 /\ ~p.wild /\ RegIds(s, p.topic) = {}
            subs == OneB(o, "SUBSCRIBE")
            d == "tit" \o ToString(p.tit)
        IN IF name = "?none" \/ (needAlloc /\ ~CanAlloc(s)) THEN {}
           ELSE IF Len(subs) # 1 THEN {Tag("C03", "subscribe-not-one", d)}
           ELSE TagsIf(subs[1].mid # p.mid, Tag("C03", "subscribe-mid", d))
                \cup TagsIf(subs[1].topic # name, Tag("C03", "subscribe-filter", d))
                \cup TagsIf(subs[1].rqos # p.qos, Tag("C03", "subscribe-qos", d))
    ELSE IF IsC(e, "UNSUBSCRIBE") THEN
        LET p == e.p
            name == CASE p.tit = 0 -> p.topic [] p.tit = 1 -> PredefName(s.cfg, s.cid, p.tid)
                      [] p.tit = 2 -> p.sname [] OTHER -> "?none"
            us == OneB(o, "UNSUBSCRIBE")
            d == "tit" \o ToString(p.tit)
        IN IF name = "?none" THEN {}
           ELSE IF Len(us) # 1 THEN {Tag("C03", "unsubscribe-not-one", d)}
           ELSE TagsIf(us[1].mid # p.mid, Tag("C03", "unsubscribe-mid", d))
                \cup TagsIf(us[1].topic # name, Tag("C03", "unsubscribe-filter", d))
    ELSE IF IsC(e, "PUBREL") THEN
        LET r == OneB(o, "PUBREL") IN
        IF Len(r) # 1 THEN {Tag("C03", "pubrel-not-one", "x")}
        ELSE TagsIf(r[1].mid # e.p.mid, Tag("C03", "pubrel-mid", "x"))
    ELSE IF IsC(e, "PINGREQ") /\ s.st = "active" THEN
        TagsIf(Len(OneB(o, "PINGREQ")) # 1, Tag("C03", "pingreq-not-one", "active"))
    ELSE IF IsC(e, "DISCONNECT") /\ e.p.dur = 0 THEN
        TagsIf(Len(OneB(o, "DISCONNECT")) # 1, Tag("C03", "disconnect-not-one", s.st))
    ELSE IF s.st = "active" /\ (IsB(e, "PUBREC") \/ IsB(e, "PUBCOMP") \/ IsB(e, "UNSUBACK")) THEN
        LET r == OneC(o, e.m.t) IN
        IF Len(r) # 1 THEN {Tag("C03", "ack-not-one", e.m.t)}
        ELSE TagsIf(r[1].mid # e.m.mid, Tag("C03", "ack-mid", e.m.t))
    ELSE IF s.st = "active" /\ IsB(e, "PINGRESP") THEN
        TagsIf(Len(OneC(o, "PINGRESP")) # 1, Tag("C03", "pingresp-not-one", "active"))
    ELSE IF s.st = "active" /\ IsB(e, "SUBACK") /\ Len(e.m.codes) = 1
            /\ (\E x \in s.ctx : x.mid = e.m.mid /\ x.kind = "sub") THEN
        \* also when the message ID coincides with a broker exchange or was reused by the client:
        \* the SUBACK answers the exchange now stored under that ID
        LET x == CHOOSE x \in s.ctx : x.mid = e.m.mid /\ x.kind = "sub"
            r == OneC(o, "SUBACK")
            code == e.m.codes[1]
            d == "code" \o ToString(code)
        IN IF Len(r) # 1 THEN {Tag("C03", "suback-not-one", d)}
           ELSE TagsIf(r[1].mid # e.m.mid, Tag("C03", "suback-mid", d))
                \cup TagsIf((r[1].rc = 0) # (code <= 2), Tag("C03", "suback-accept", d))
                \cup TagsIf(code <= 2 /\ r[1].rc = 0 /\ r[1].qos # code, Tag("C03", "suback-qos", d))
                \cup TagsIf(code <= 2 /\ r[1].rc = 0 /\ r[1].tid # x.tid, Tag("C03", "suback-topicid", d))
    ELSE {}

-----------------------------------------------------------------------------
(* C04 topic IDs unique per session and never reassigned                    *)
IdClauses(s, id, name, what) ==
    TagsIf(id < s.cfg.tidmin \/ id > s.cfg.tidmax \/ id < 1 \/ id > 65534, Tag("C04", "out-of-range", what))
    \cup TagsIf(PredefHas(s.cfg, s.cid, id), Tag("C04", "collides-predefined", what))
    \cup TagsIf(\E r \in s.handed : r.id = id /\ r.n # name, Tag("C04", "reassigned", what))
    \cup TagsIf(s.exhausted /\ ~(\E r \in s.handed : r.id = id /\ r.n = name),
                Tag("C04", "served-after-exhaustion", what))

Check_C04(s, e, o, s2) ==
    IF ~Live(s) THEN {}
    ELSE (IF IsC(e, "REGISTER") THEN
              UNION {IF o.outC[i].t = "REGACK" /\ o.outC[i].rc = 0
                     THEN IdClauses(s, o.outC[i].tid, e.p.topic, "REGACK") ELSE {} : i \in DOMAIN o.outC}
          ELSE {})
         \cup (IF IsB(e, "SUBACK") /\ (\E x \in s.ctx : x.mid = e.m.mid /\ x.kind = "sub" /\ x.tit = 0) THEN
                 LET x == CHOOSE x \in s.ctx : x.mid = e.m.mid /\ x.kind = "sub" /\ x.tit = 0 IN
                 UNION {IF o.outC[i].t = "SUBACK" /\ o.outC[i].rc = 0 /\ o.outC[i].tid # 0
                        THEN IdClauses([s EXCEPT !.exhausted = FALSE], o.outC[i].tid, x.name, "SUBACK")
                        ELSE {} : i \in DOMAIN o.outC}
               ELSE {})
         \cup (IF IsB(e, "PUBLISH") THEN
                 UNION {IF o.outC[i].t = "REGISTER"
                        THEN IdClauses(s, o.outC[i].tid, o.outC[i].topic, "REGISTER") ELSE {}
                        : i \in DOMAIN o.outC}
               ELSE {})
         \cup (IF IsC(e, "SUBSCRIBE") /\ e.p.tit = 0 /\ ~e.p.wild /\ e.p.qos <= 2 /\ s.st # "disconnected"
                  /\ RegIds(s, e.p.topic) = {} /\ ~CanAlloc(s)
               THEN TagsIf(Has(o.outB, {"SUBSCRIBE"}), Tag("C04", "served-after-exhaustion", "SUBSCRIBE"))
               ELSE {})

-----------------------------------------------------------------------------
(* C06 exchanges started by each side never interfere (gateway half)        *)
Check_C06(s, e, o, s2) ==
    IF ~Live(s) \/ s.st # "active" THEN {}
    ELSE IF IsB(e, "PUBACK") /\ (\E x \in s.ctx : x.mid = e.m.mid /\ x.kind = "pub1")
            /\ e.m.mid \in (s.coin \cup s.super) THEN
        TagsIf(~\E i \in DOMAIN o.outC : o.outC[i].t = "PUBACK" /\ o.outC[i].mid = e.m.mid,
               Tag("C06", "client-puback-lost", IF e.m.mid \in s.coin THEN "coincidence" ELSE "superseded"))
    ELSE IF IsB(e, "SUBACK") /\ Len(e.m.codes) = 1 /\ (\E x \in s.ctx : x.mid = e.m.mid /\ x.kind = "sub")
            /\ e.m.mid \in (s.coin \cup s.super) THEN
        TagsIf(~\E i \in DOMAIN o.outC : o.outC[i].t = "SUBACK" /\ o.outC[i].mid = e.m.mid,
               Tag("C06", "client-suback-lost", IF e.m.mid \in s.coin THEN "coincidence" ELSE "superseded"))
    ELSE IF e.t = "C" /\ e.p.t \in {"REGACK", "PUBACK", "PUBREC", "PUBCOMP"} /\ e.p.mid \in s.coin
            /\ Btx(s, e.p.mid) # {} THEN
        LET x == TheBtx(s, e.p.mid)
            want == CASE e.p.t = "PUBACK" /\ x.phase = "puback" /\ e.p.rc = 0 -> "PUBACK"
                      [] e.p.t = "PUBREC" /\ x.phase = "pubrec" -> "PUBREC"
                      [] e.p.t = "PUBCOMP" /\ x.phase = "pubcomp" -> "PUBCOMP"
                      [] OTHER -> "none"
        IN (IF want # "none"
            THEN TagsIf(~\E i \in DOMAIN o.outB : o.outB[i].t = want /\ o.outB[i].mid = e.p.mid,
                        Tag("C06", "broker-ack-lost", want))
            ELSE {})
           \cup (IF e.p.t = "REGACK" /\ x.phase = "regack" /\ e.p.rc = 0
                 THEN TagsIf(~Has(o.outC, {"PUBLISH"}), Tag("C06", "broker-publish-lost", "after-regack"))
                 ELSE {})
    ELSE IF IsB(e, "PUBREL") /\ e.m.mid \in s.coin /\ Btx(s, e.m.mid) # {} THEN
        LET x == TheBtx(s, e.m.mid) IN
        IF x.qos = 2 /\ x.phase = "pubrel"
        THEN TagsIf(~\E i \in DOMAIN o.outC : o.outC[i].t = "PUBREL" /\ o.outC[i].mid = e.m.mid,
                    Tag("C06", "broker-pubrel-lost", "x"))
        ELSE {}
    ELSE {}

-----------------------------------------------------------------------------
(* C07 no active session without a broker-accepted CONNECT                  *)
Check_C07(s, e, o, s2) ==
    IF ~Live(s) THEN {}
    ELSE
    LET okConnack == \/ (IsB(e, "CONNACK") /\ e.m.rc = 0 /\ s.cx.on /\ s.cx.sent)
                     \/ (IsC(e, "CONNECT") /\ s.acc /\ s.st \in {"asleep", "awake"})
        relayed == {i \in DOMAIN o.outB :
                      /\ o.outB[i].t \notin {"CONNECT", "DISCONNECT"}
                      /\ ~(o.outB[i].t = "PUBLISH" /\ IsC(e, "PUBLISH") /\ PublishLegalWhenDisconnected(s, e.p))}
        illegal == s.st = "disconnected" /\ e.t = "C" /\ ~LegalWhenDisconnected(s, e.p)
    IN TagsIf((\E i \in DOMAIN o.outC : o.outC[i].t = "CONNACK" /\ o.outC[i].rc = 0) /\ ~okConnack,
              Tag("C07", "connack-accepted-without-broker", EvName(e)))
       \cup TagsIf(~s.acc /\ ~IsB(e, "CONNACK") /\ relayed # {}, Tag("C07", "relay-before-accept", EvName(e)))
       \cup TagsIf(o.st # "disconnected" /\ ~s2.acc, Tag("C07", "connected-without-accept", EvName(e) \o "-" \o o.st))
       \cup TagsIf(illegal /\ (o.outB # <<>> \/ o.st # "disconnected"),
                   Tag("C07", "illegal-packet-served", EvName(e)))

-----------------------------------------------------------------------------
(* C08 authentication enforced exactly as configured                        *)
Check_C08(s, e, o, s2) ==
    IF ~Live(s) THEN {}
    ELSE
    LET cons == Sel(o.outB, {"CONNECT"})
        goodAuth == IsC(e, "AUTH") /\ e.p.plain /\ e.p.plainok /\ s.cx.on /\ s.cx.phase = "auth"
        authd == s.cx.on /\ (s.cx.authd \/ goodAuth)
        cu == IF goodAuth THEN e.p.user ELSE s.cx.mq.user
        cp == IF goodAuth THEN e.p.pass ELSE s.cx.mq.pass
    IN (IF s.cfg.auth THEN
            UNION {TagsIf(~authd, Tag("C08", "connect-without-auth", EvName(e)))
                   \cup TagsIf(authd /\ ~(cons[i].hasuser /\ cons[i].user = cu /\ cons[i].haspass /\ cons[i].pass = cp),
                               Tag("C08", "connect-wrong-credentials", EvName(e)))
                   : i \in DOMAIN cons}
        ELSE
            UNION {TagsIf(~(/\ cons[i].hasuser = s.cfg.hasuser
                            /\ (s.cfg.hasuser => cons[i].user = s.cfg.user)
                            /\ cons[i].haspass = s.cfg.haspass
                            /\ (s.cfg.haspass => cons[i].pass = s.cfg.pass)),
                          Tag("C08", "configured-credentials-overridden", EvName(e)))
                   : i \in DOMAIN cons})
       \cup (IF IsC(e, "AUTH") /\ ~e.p.plain /\ s.cfg.auth /\ s.cx.on /\ s.cx.phase = "auth" THEN
                TagsIf(~\E i \in DOMAIN o.outC : o.outC[i].t = "CONNACK" /\ o.outC[i].rc = RC_NOT_SUPPORTED,
                       Tag("C08", "unknown-method-no-connack", "x"))
                \cup TagsIf(cons # <<>>, Tag("C08", "unknown-method-connect", "x"))
             ELSE {})

-----------------------------------------------------------------------------
(* C09 will protocol, one CONNECT per exchange, CONNACK mapping             *)
Check_C09(s, e, o, s2) ==
    IF ~Live(s) THEN {}
    ELSE
    LET cons == Sel(o.outB, {"CONNECT"})
        newEx == IsC(e, "CONNECT") /\ s.st \in {"disconnected", "active"} /\ e.p.dur # 0
        goodAuth == IsC(e, "AUTH") /\ e.p.plain /\ e.p.plainok /\ s.cx.on /\ s.cx.phase = "auth" /\ s.cfg.auth
        willEx == IF newEx THEN e.p.will ELSE (s.cx.on /\ s.cx.will)
        sentBefore == IF newEx THEN 0 ELSE s.nconn
        d == EvName(e)
    IN \* requests
       TagsIf(Has(o.outC, {"WILLTOPICREQ"}) /\ ~((newEx /\ e.p.will /\ ~s.cfg.auth) \/ (goodAuth /\ s.cx.will)),
              Tag("C09", "willtopicreq-unexpected", d))
       \cup TagsIf(((newEx /\ e.p.will /\ ~s.cfg.auth) \/ (goodAuth /\ s.cx.will)) /\ Count(o.outC, {"WILLTOPICREQ"}) # 1,
                   Tag("C09", "willtopicreq-missing", d))
       \cup TagsIf(Has(o.outC, {"WILLMSGREQ"}) /\ ~(IsC(e, "WILLTOPIC") /\ s.cx.on /\ s.cx.will
                                                     /\ s.cx.phase \in {"willtopic", "willmsg"}),
                   Tag("C09", "willmsgreq-without-willtopic", d))
       \cup TagsIf(IsC(e, "WILLTOPIC") /\ s.cx.on /\ s.cx.phase = "willtopic" /\ ~(~e.p.empty /\ e.p.qos = 3)
                   /\ Count(o.outC, {"WILLMSGREQ"}) # 1, Tag("C09", "willmsgreq-missing", d))
       \* the MQTT CONNECT
       \cup TagsIf(Len(cons) + sentBefore > 1, Tag("C09", "second-connect", d))
       \cup TagsIf(cons # <<>> /\ willEx /\ ~(IsC(e, "WILLMSG") /\ s.cx.on /\ s.cx.phase = "willmsg"),
                   Tag("C09", "connect-before-willmsg", d))
       \cup TagsIf(cons # <<>> /\ ~willEx /\ ~(newEx \/ goodAuth), Tag("C09", "connect-unexpected", d))
       \cup TagsIf(cons = <<>> /\ ((newEx /\ ~e.p.will /\ ~s.cfg.auth) \/ (goodAuth /\ ~s.cx.will)
                                   \/ (IsC(e, "WILLMSG") /\ s.cx.on /\ s.cx.phase = "willmsg")),
                   Tag("C09", "connect-missing", d))
       \cup UNION {
              (IF IsC(e, "WILLMSG") /\ s.cx.on /\ s.cx.phase = "willmsg" /\ s.cx.mq.willtopic # "" THEN
                 TagsIf(~(cons[i].willflag /\ cons[i].willtopic = s.cx.mq.willtopic /\ cons[i].willmsg = e.p.data
                          /\ cons[i].willqos = s.cx.mq.willqos /\ cons[i].willretain = s.cx.mq.willretain),
                        Tag("C09", "connect-will-fields", d))
               ELSE {})
              \cup (IF ~willEx THEN TagsIf(cons[i].willflag, Tag("C09", "will-without-flag", d)) ELSE {})
              \cup TagsIf(cons[i].cid # (IF newEx THEN e.p.cid ELSE s.cid)
                          \/ cons[i].ka # (IF newEx THEN e.p.dur ELSE s.ka)
                          \/ cons[i].clean # (IF newEx THEN e.p.clean ELSE s.cx.mq.clean),
                          Tag("C09", "connect-fields", d))
              : i \in DOMAIN cons}
       \* CONNACK mapping
       \cup (IF IsB(e, "CONNACK") /\ s.cx.on /\ s.st # "asleep" THEN
               LET ca == Sel(o.outC, {"CONNACK"}) IN
               IF Len(ca) # 1 THEN {Tag("C09", "connack-not-one", "rc" \o ToString(e.m.rc))}
               ELSE TagsIf(ca[1].rc # (IF e.m.rc = 0 THEN RC_ACCEPTED ELSE RC_CONGESTION),
                           Tag("C09", "connack-mapping", "rc" \o ToString(e.m.rc)))
             ELSE {})
       \cup (IF IsC(e, "CONNECT") /\ e.p.dur = 0 /\ s.st \in {"disconnected", "active"} THEN
               TagsIf(~(Len(o.outC) = 1 /\ o.outC[1].t = "CONNACK" /\ o.outC[1].rc = RC_NOT_SUPPORTED) \/ cons # <<>>,
                      Tag("C09", "zero-keepalive", s.st))
             ELSE {})

-----------------------------------------------------------------------------
(* C10 half-open connect exchanges are reaped                               *)
Check_C10(s, e, o, s2) ==
    TagsIf(s2.dying /\ s2.cause = "connect-timeout" /\ o.now >= s2.dieAt + Poll + 1 /\ ~o.ended,
           Tag("C10", "half-open-survives", "phase-" \o s.cx.phase))
    \cup TagsIf(s2.cause = "connect-timeout" /\ o.ended /\ ~o.bclosed, Tag("C10", "broker-conn-open", "x"))
    \cup TagsIf(s.alive /\ s2.dying /\ s2.cause = "connect-timeout" /\ o.ended /\ ~o.wasEnded /\ o.now > s2.dieAt + Poll + 1 /\ e.t = "Adv",
                Tag("C10", "half-open-reaped-late", "x"))
    \cup TagsIf(s.cx.on /\ ~s.dying /\ o.ended /\ ~s2.dying /\ FALSE, Tag("C10", "unused", "x"))

-----------------------------------------------------------------------------
(* C11 sleeping clients: buffered, delivered on wake, asleep again          *)
CoreSeq(seq) == [i \in DOMAIN seq |-> SnCore(seq[i])]

Check_C11(s, e, o, s2) ==
    IF ~Live(s) THEN {}
    ELSE IF s.st = "asleep" /\ IsC(e, "PINGREQ") THEN
        LET want == CoreSeq(s.buf) \o <<SnCore(SnPlain("PINGRESP"))>>
            got == CoreSeq(o.outC)
        IN TagsIf(got # want,
                  Tag("C11", "wake-delivery",
                      IF Len(got) < Len(want) THEN "missing" ELSE IF Len(got) > Len(want) THEN "extra" ELSE "different"))
           \cup TagsIf(o.st # "asleep", Tag("C11", "not-asleep-after-pingresp", o.st))
    ELSE IF s.st = "asleep" /\ (IsC(e, "CONNECT") \/ IsC(e, "DISCONNECT")) THEN
        (IF IsC(e, "DISCONNECT") /\ e.p.dur # 0 THEN
            TagsIf(~(Len(o.outC) = 1 /\ o.outC[1].t = "DISCONNECT"), Tag("C11", "sleep-ack", "renewed"))
            \cup TagsIf(o.nbuf # Len(s.buf), Tag("C11", "buffer-count", "renewed-sleep"))
         ELSE IF IsC(e, "CONNECT") THEN
            TagsIf(CoreSeq(o.outC) # <<SnCore(SnConnack(RC_ACCEPTED))>> \o CoreSeq(s.buf),
                   Tag("C11", "connect-from-asleep", "delivery"))
            \cup TagsIf(o.st # "active", Tag("C11", "connect-from-asleep", "state-" \o o.st))
         ELSE {})
    ELSE IF s.st = "asleep" /\ IsB(e, "CONNACK") /\ s.cx.on THEN {}   \* completes a connect exchange
    ELSE IF s.st = "asleep" THEN
        TagsIf(o.outC # <<>>, Tag("C11", "sent-while-asleep", EvName(e)))
        \cup TagsIf(o.outC = <<>> /\ s2.st = "asleep" /\ o.nbuf # Len(s2.buf),
                    Tag("C11", "buffer-count", EvName(e)))
    ELSE IF IsC(e, "DISCONNECT") /\ e.p.dur # 0 /\ s.st = "active" THEN
        TagsIf(~(Len(o.outC) = 1 /\ o.outC[1].t = "DISCONNECT"), Tag("C11", "sleep-ack", "first"))
        \cup TagsIf(o.st # "asleep", Tag("C11", "not-asleep-after-disconnect", o.st))
    ELSE {}

-----------------------------------------------------------------------------
(* C12 broker keep-alive kept for connected and sleeping clients            *)
(* obsLastB = time of the last packet observed on the broker connection.   *)
Check_C12(s, e, o, s2, obsLastB) ==
    IF e.t = "End" THEN {}     \* the epilogue of the harness is not part of the history
    ELSE IF s.acc /\ Live(s) /\ s2.clientOK /\ s.st \in {"active", "asleep"} /\ s.ka > 0 /\ ~s2.dying
       /\ 2 * (o.now - (IF o.outB # <<>> THEN o.now ELSE obsLastB)) > 3 * TicksPerSec * s.ka
    THEN {Tag("C12", "broker-starved", s.st \o (IF s.st = "asleep" /\ s.sleepDur <= TicksPerSec * s.ka THEN "-short-sleep" ELSE ""))}
    ELSE IF s.acc /\ Live(s) /\ s2.clientOK /\ s.st \in {"active", "asleep"} /\ s.ka > 0
            /\ o.outB # <<>> /\ 2 * (o.now - obsLastB) > 3 * TicksPerSec * s.ka
    THEN {Tag("C12", "broker-starved", s.st \o "-late")}
    ELSE {}

-----------------------------------------------------------------------------
(* C13 sessions terminate cleanly and release everything                    *)
Check_C13(s, e, o, s2) ==
    TagsIf(s2.dying /\ o.now >= s2.dieAt + Poll + 1 /\ ~o.ended, Tag("C13", "not-ended-in-time", s2.cause))
    \* quiet ticks are merged into the line of the tick at which run() returned: that tick is the end time
    \cup TagsIf(s.alive /\ s2.dying /\ o.ended /\ ~o.wasEnded /\ o.now > s2.dieAt + Poll + 1 /\ e.t = "Adv",
                Tag("C13", "ended-late", s2.cause \o (IF s.st = "asleep" THEN "-asleep" ELSE "")))
    \cup TagsIf(o.ended /\ ~o.bclosed, Tag("C13", "broker-conn-open-after-end", s2.cause))
    \cup (IF ~s.dying /\ s2.dying /\ s2.cause # "client-disconnect" THEN
            TagsIf((Count(o.outC, {"DISCONNECT"}) = 1) # (s.st \in {"active", "awake"}),
                   Tag("C13", "disconnect-notification", s.st \o "-" \o s2.cause))
          ELSE {})
    \cup TagsIf(s.dying /\ (o.outC # <<>> \/ o.outB # <<>>), Tag("C13", "output-after-termination", s.cause))
    \* leaked: goroutines of the code under test still alive at the first quiescent point after run() returned
    \* (1000 + n at the End line: the session never ended)
    \cup TagsIf(o.leaked > 0, Tag("C13", "goroutines-leaked", IF s2.cause # "" THEN s2.cause ELSE s.cause))

-----------------------------------------------------------------------------
(* C14 last will cancelled only by a plain client DISCONNECT                *)
Check_C14(s, e, o, s2) ==
    TagsIf(Has(o.outB, {"DISCONNECT"}) /\ ~(IsC(e, "DISCONNECT") /\ e.p.dur = 0),
           Tag("C14", "mqtt-disconnect", EvName(e) \o (IF s.dying THEN "-dying" ELSE "")))

-----------------------------------------------------------------------------
(* C23 (gateway half) every datagram sent is well-formed                    *)
GwToClient == {"CONNACK", "WILLTOPICREQ", "WILLMSGREQ", "REGISTER", "REGACK", "PUBLISH", "PUBACK",
               "PUBCOMP", "PUBREC", "PUBREL", "SUBACK", "UNSUBACK", "PINGRESP", "DISCONNECT",
               "WILLTOPICRESP", "WILLMSGRESP", "GWINFO", "ADVERTISE"}
Check_C23(s, e, o, s2) ==
    UNION {TagsIf(o.outC[i].t = "JUNK", Tag("C23", "undecodable", EvName(e)))
           \cup TagsIf(o.outC[i].t # "JUNK" /\ ~o.outC[i].wf,
                       Tag("C23", "length", o.outC[i].t \o (IF o.outC[i].size > MaxDatagram THEN "-oversize" ELSE "")))
           \cup TagsIf(o.outC[i].t # "JUNK" /\ o.outC[i].t \notin GwToClient, Tag("C23", "direction", o.outC[i].t))
           : i \in DOMAIN o.outC}

-----------------------------------------------------------------------------
(* C24 every MQTT packet sent to the broker is valid MQTT 3.1.1             *)
Check_C24(s, e, o, s2) ==
    UNION {TagsIf(~o.outB[i].valid,
                  Tag("C24", o.outB[i].t, IF Len(o.outB[i].problems) > 0 THEN o.outB[i].problems[1] ELSE "invalid"))
           : i \in DOMAIN o.outB}
    \cup TagsIf(o.bjunk, Tag("C24", "junk-bytes", EvName(e)))

-----------------------------------------------------------------------------
(* C34 sessions of vanished clients are reaped: the gateway keeps the      *)
(* broker's keep-alive alive only on the client's behalf.                   *)
Check_C34(s, e, o, s2) ==
    IF e.t = "Adv" /\ Live(s) /\ Has(o.outB, {"PINGREQ"}) THEN
        TagsIf(s.st # "asleep", Tag("C34", "self-ping", s.st))
        \cup TagsIf(s.st = "asleep" /\ o.now > s.sleepUntil, Tag("C34", "ping-after-sleep-expiry", "x"))
    ELSE {}

-----------------------------------------------------------------------------
(* State projections: model and code must agree (else: model gap).          *)
DesyncFatal(s, e, o, s2) == (o.st # s2.st /\ ~s2.dying) \/ (o.ended /\ ~s2.dying /\ e.t # "End")

Desync(s, e, o, s2) ==
    TagsIf(o.st # s2.st /\ ~s2.dying, Tag("desync", "st", EvName(e) \o "-" \o s2.st \o "-" \o o.st))
    \cup TagsIf(~s2.dying /\ {[id |-> o.reg[i].id, n |-> o.reg[i].n] : i \in DOMAIN o.reg} # s2.reg,
                Tag("desync", "reg", EvName(e)))
    \cup TagsIf(~s2.dying /\ s2.st = "asleep" /\ o.nbuf # Len(s2.buf), Tag("desync", "nbuf", EvName(e)))
    \cup TagsIf(o.ended /\ ~s2.dying /\ e.t # "End", Tag("desync", "unexpected-end", EvName(e)))

=============================================================================
