------------------------------ MODULE Interop ------------------------------
(***************************************************************************)
(* Service-level specification of "bisquitt client library + bisquitt      *)
(* gateway + conforming MQTT broker" (properties C16, C26, C32).           *)
(*                                                                         *)
(* The state is what the application and the broker can know: the client's *)
(* connection state, the names it registered, its subscriptions (filter -> *)
(* handler) and the messages the broker handed to a sleeping client.  One  *)
(* operator per API call / broker publish gives the successor state; the   *)
(* Check_* operators state, for a (pre-state, event, observation), what    *)
(* the documented effect at the broker, the API result and the handler     *)
(* invocations must be.  The internal MQTT-SN exchanges (REGISTER, acks,   *)
(* retransmissions) are deliberately not part of this state: they are the  *)
(* business of ClientLib.tla / GatewaySession.tla; only their link-level   *)
(* obligations under loss (C16) are checked on the recorded datagrams.     *)
(***************************************************************************)
EXTENDS Integers, Sequences, FiniteSets, TLC

Range(f) == {f[i] : i \in DOMAIN f}

(* MQTT topic filter matching over level sequences *)
RECURSIVE Matches(_, _)
Matches(f, t) ==
    IF f = <<>> THEN t = <<>>
    ELSE IF f[1] = "#" THEN TRUE
    ELSE IF t = <<>> THEN FALSE
    ELSE IF f[1] = "+" \/ f[1] = t[1] THEN Matches(Tail(f), Tail(t))
    ELSE FALSE

PredefName(cfg, c, id) ==
    LET own == {e \in Range(cfg.predef) : e.c = c /\ e.id = id}
        all == {e \in Range(cfg.predef) : e.c = "*" /\ e.id = id}
    IN IF own # {} THEN (CHOOSE e \in own : TRUE) ELSE IF all # {} THEN (CHOOSE e \in all : TRUE)
       ELSE [c |-> "?", id |-> id, n |-> "?none", tl |-> <<"?none">>]

Init0(cfg) == [cfg |-> cfg,
               cst |-> "disconnected",   \* disconnected | active | asleep | awake
               regs |-> {},              \* names the client may publish to
               subs |-> {},              \* [f, tl, h]
               queued |-> <<>>,          \* messages handed to the gateway for a sleeping client
               dead |-> FALSE]           \* something already went wrong: nothing more is promised

Sync(e) == ~e.async

HasWild(tl) == \E i \in DOMAIN tl : tl[i] \in {"+", "#"}

(* documented effect of an API call (when it succeeds) *)
ApiStep(s, e) ==
    CASE e.api = "Connect" -> [s EXCEPT !.cst = "active"]
      [] e.api = "Register" -> [s EXCEPT !.regs = @ \cup {e.topic}]
      [] e.api = "Subscribe" ->
            [s EXCEPT !.subs = {x \in @ : x.f # e.topic} \cup {[f |-> e.topic, tl |-> e.tl, h |-> e.h, qos |-> e.qos]},
                      !.regs = IF HasWild(e.tl) \/ e.short THEN @ ELSE @ \cup {e.topic}]
      [] e.api = "SubscribePredefined" ->
            LET pn == PredefName(s.cfg, s.cfg.cid, e.tid) IN
            [s EXCEPT !.subs = {x \in @ : x.f # pn.n} \cup {[f |-> pn.n, tl |-> pn.tl, h |-> e.h, qos |-> e.qos]}]
      [] e.api = "Unsubscribe" -> [s EXCEPT !.subs = {x \in @ : x.f # e.topic}]
      [] e.api = "UnsubscribePredefined" ->
            [s EXCEPT !.subs = {x \in @ : x.f # PredefName(s.cfg, s.cfg.cid, e.tid).n}]
      [] e.api = "Sleep" -> [s EXCEPT !.cst = IF e.async THEN "asleep" ELSE "awake", !.queued = <<>>]
      \* Disconnect ends the life of a Client object (a new Dial is needed)
      [] e.api = "Disconnect" -> [s EXCEPT !.cst = "disconnected", !.dead = TRUE]
      [] OTHER -> s

(* may the application expect this call to succeed? *)
ApiLegal(s, e) ==
    CASE e.api = "Connect" -> s.cst \in {"disconnected", "awake"}
      [] e.api \in {"Register", "Subscribe", "Unsubscribe", "Ping"} -> s.cst = "active"
      [] e.api \in {"SubscribePredefined", "UnsubscribePredefined", "PublishPredefined"} ->
            s.cst = "active" /\ PredefName(s.cfg, s.cfg.cid, e.tid).n # "?none"
      [] e.api = "Publish" -> s.cst = "active" /\ (e.short \/ e.topic \in s.regs) /\ ~HasWild(e.tl)
      [] e.api = "Sleep" -> s.cst \in {"active", "awake"}
      [] e.api = "Disconnect" -> s.cst \in {"active", "awake"}
      [] OTHER -> FALSE

Handlers(s, tl) == {x.h : x \in {y \in s.subs : Matches(y.tl, tl)}}

Step(s, e) ==
    CASE e.t = "Api" -> IF ApiLegal(s, e) THEN ApiStep(s, e) ELSE [s EXCEPT !.dead = TRUE]
      [] e.t = "Wait" -> [s EXCEPT !.cst = IF s.cst = "asleep" THEN "awake" ELSE @, !.queued = <<>>]
      [] e.t = "BPub" -> IF s.cst = "asleep"
                         THEN [s EXCEPT !.queued = @ \o SelectSeq(e.pubs, LAMBDA p : p.eff >= 0)]
                         ELSE s
      [] OTHER -> s

-----------------------------------------------------------------------------
Tag(prop, clause, disc) == prop \o "/" \o clause \o "/" \o disc
TagsIf(c, t) == IF c THEN {t} ELSE {}
Sel(seq, T) == SelectSeq(seq, LAMBDA x : x.t \in T)

(* is the call about a predefined or short topic (C32's slice)? *)
Routed(e) == e.api \in {"SubscribePredefined", "UnsubscribePredefined", "PublishPredefined"} \/ (e.api \in {"Publish", "Subscribe", "Unsubscribe"} /\ e.short)

(* expected single packet at the broker for a synchronous API call *)
EffectTags(prop, s, e, o) ==
    LET got(t) == Sel(o.brecv, {t})
        one(t) == Len(got(t)) = 1
        name == IF e.api \in {"SubscribePredefined", "UnsubscribePredefined", "PublishPredefined"}
                THEN PredefName(s.cfg, s.cfg.cid, e.tid).n ELSE e.topic
        d == e.api
    IN CASE e.api = "Connect" /\ s.cst = "disconnected" ->
              IF ~one("CONNECT") THEN {Tag(prop, "effect-missing", d)}
              ELSE TagsIf(got("CONNECT")[1].cid # s.cfg.cid \/ got("CONNECT")[1].ka * 10 # s.cfg.ka
                          \/ got("CONNECT")[1].willflag # (s.cfg.will # ""), Tag(prop, "effect-wrong", d))
                   \* the will the application configured is the will the broker holds
                   \cup TagsIf(s.cfg.will # "" /\ (got("CONNECT")[1].willtopic # s.cfg.will \/ got("CONNECT")[1].willmsg # "s:will"),
                               Tag(prop, "effect-wrong-will", d))
         [] e.api \in {"Subscribe", "SubscribePredefined"} ->
              IF ~one("SUBSCRIBE") THEN {Tag(prop, "effect-missing", d)}
              ELSE TagsIf(got("SUBSCRIBE")[1].topic # name \/ got("SUBSCRIBE")[1].rqos # e.qos, Tag(prop, "effect-wrong", d))
         [] e.api \in {"Unsubscribe", "UnsubscribePredefined"} ->
              IF ~one("UNSUBSCRIBE") THEN {Tag(prop, "effect-missing", d)}
              ELSE TagsIf(got("UNSUBSCRIBE")[1].topic # name, Tag(prop, "effect-wrong", d))
         [] e.api \in {"Publish", "PublishPredefined"} ->
              IF ~one("PUBLISH") THEN {Tag(prop, IF Len(got("PUBLISH")) = 0 THEN "effect-missing" ELSE "effect-duplicated", d \o "-qos" \o ToString(e.qos))}
              ELSE LET m == got("PUBLISH")[1] IN
                   TagsIf(m.topic # name, Tag(prop, "effect-wrong-topic", d))
                   \cup TagsIf(m.pl # e.pl \/ m.retain # e.retain \/ m.qos # (IF e.qos = 3 THEN 0 ELSE e.qos),
                               Tag(prop, "effect-wrong", d \o "-qos" \o ToString(e.qos)))
                   \cup TagsIf(e.qos = 2 /\ Len(got("PUBREL")) # 1, Tag(prop, "effect-missing", d \o "-pubrel"))
         [] e.api = "Ping" -> TagsIf(Len(got("PINGREQ")) < 1, Tag(prop, "effect-missing", d))
         [] e.api = "Disconnect" -> TagsIf(~one("DISCONNECT"), Tag(prop, "effect-missing", d))
         [] OTHER -> {}

(* handler invocations expected for a sequence of broker messages *)
CbOK(s, p, cb) == cb.topic = p.topic /\ cb.pl = p.pl /\ cb.h \in Handlers(s, p.tl)
DeliveryTags(prop, s, pubs, cbs, lossless) ==
    \* every message with a matching subscription: exactly once (QoS 0 and 2, and QoS 1 without loss), at least once (QoS 1)
    UNION {LET p == pubs[i]
               mine == {j \in DOMAIN cbs : cbs[j].topic = p.topic /\ cbs[j].pl = p.pl}
               d == "qos" \o ToString(p.eff)
           IN IF p.eff < 0 \/ Handlers(s, p.tl) = {} THEN {}
              ELSE TagsIf(mine = {}, Tag(prop, "message-not-delivered", d))
                   \cup TagsIf(Cardinality(mine) > 1 /\ (p.eff # 1 \/ lossless)
                               /\ Cardinality({k \in DOMAIN pubs : pubs[k].topic = p.topic /\ pubs[k].pl = p.pl}) < Cardinality(mine),
                               Tag(prop, "message-delivered-twice", d))
                   \cup TagsIf(\E j \in mine : cbs[j].h \notin Handlers(s, p.tl), Tag(prop, "wrong-handler", d))
           : i \in DOMAIN pubs}
    \cup TagsIf(\E j \in DOMAIN cbs : ~\E i \in DOMAIN pubs : cbs[j].topic = pubs[i].topic /\ cbs[j].pl = pubs[i].pl,
                Tag(prop, "unexpected-callback", "x"))

(* C26 (lossless link): every call succeeds, has its documented effect, every matching message reaches its handler *)
Check_C26(s, e, o, routedOnly, prop) ==
    IF s.dead THEN {}
    ELSE IF e.t = "Api" /\ ApiLegal(s, e) /\ (~routedOnly \/ Routed(e)) THEN
        (IF Sync(e) THEN
            LET r == SelectSeq(o.rets, LAMBDA x : x.call = e.call) IN
            IF Len(r) # 1 THEN {Tag(prop, "api-did-not-return", e.api)}
            ELSE IF ~r[1].ok THEN {Tag(prop, "api-failed", e.api \o "-" \o r[1].err)}
            ELSE EffectTags(prop, s, e, o)
         ELSE {})
        \cup TagsIf(e.api # "Sleep" /\ o.cbs # <<>>, Tag(prop, "unexpected-callback", e.api))
    ELSE IF e.t = "BPub" /\ s.cst = "active" THEN
        LET pubs == IF routedOnly THEN SelectSeq(e.pubs, LAMBDA p : Len(p.tl) = 1) ELSE e.pubs IN
        IF routedOnly THEN DeliveryTags(prop, s, pubs, SelectSeq(o.cbs, LAMBDA c : \E i \in DOMAIN pubs : pubs[i].topic = c.topic), TRUE)
        ELSE DeliveryTags(prop, s, pubs, o.cbs, TRUE)
             \cup TagsIf(o.p1 + o.p2 > 0, Tag(prop, "broker-exchange-incomplete", "p1-" \o ToString(o.p1) \o "-p2-" \o ToString(o.p2)))
    ELSE IF e.t = "BPub" /\ s.cst = "asleep" /\ ~routedOnly THEN
        TagsIf(o.cbs # <<>>, Tag(prop, "callback-while-asleep", "x"))
    ELSE IF e.t = "Wait" /\ s.cst = "asleep" /\ ~routedOnly THEN
        LET r == SelectSeq(o.rets, LAMBDA x : x.call = e.call) IN
        (IF Len(r) # 1 THEN {Tag(prop, "api-did-not-return", "Sleep")}
         ELSE TagsIf(~r[1].ok, Tag(prop, "api-failed", "Sleep-" \o r[1].err)))
        \* a message on a topic the client has no ID for needs a REGISTER/REGACK round trip first: the
        \* gateway can deliver it only in a later awake window, so it is not demanded in this one
        \cup (LET must == SelectSeq(s.queued, LAMBDA p : p.short \/ p.topic \in s.regs
                                                          \/ \E e2 \in Range(s.cfg.predef) : e2.n = p.topic /\ e2.c \in {s.cfg.cid, "*"})
              IN DeliveryTags(prop, s, must, SelectSeq(o.cbs, LAMBDA c : \E i \in DOMAIN must : must[i].topic = c.topic /\ must[i].pl = c.pl), TRUE))
        \cup TagsIf(\E j \in DOMAIN o.cbs : ~\E i \in DOMAIN s.queued : o.cbs[j].topic = s.queued[i].topic /\ o.cbs[j].pl = s.queued[i].pl,
                    Tag(prop, "unexpected-callback", "wake"))
    ELSE {}

(* C16: QoS 1/2 delivery to clients survives datagram loss within the retry budget *)
SameExchange(a, b) == a.dir = b.dir /\ a.p.t = b.p.t /\ a.p.mid = b.p.mid /\ a.p.tid = b.p.tid
Check_C16(s, e, o, budgetOK) ==
    IF s.dead \/ e.t # "BPub" \/ s.cst # "active" THEN {}
    ELSE LET g2c == SelectSeq(o.link, LAMBDA x : x.dir = "g2c" /\ x.p.t \in {"PUBLISH", "REGISTER", "PUBREL"})
             retrans == {i \in DOMAIN g2c : \E j \in 1..(i - 1) : SameExchange(g2c[i], g2c[j])}
         IN (IF budgetOK THEN
                DeliveryTags("C16", s, SelectSeq(e.pubs, LAMBDA p : p.eff \in {1, 2}),
                             SelectSeq(o.cbs, LAMBDA c : \E i \in DOMAIN e.pubs : e.pubs[i].eff \in {1, 2} /\ e.pubs[i].topic = c.topic /\ e.pubs[i].pl = c.pl), FALSE)
                \cup TagsIf(o.p1 > 0, Tag("C16", "qos1-not-acknowledged-to-broker", "x"))
                \cup TagsIf(o.p2 > 0, Tag("C16", "qos2-not-completed", "x"))
             ELSE {})
            \cup UNION {TagsIf(g2c[i].p.t = "PUBLISH" /\ ~g2c[i].p.dup, Tag("C16", "retransmission-without-dup", "PUBLISH"))
                        \cup TagsIf(\E j \in 1..(i - 1) : SameExchange(g2c[i], g2c[j]) /\ g2c[i].p.data # g2c[j].p.data,
                                    Tag("C16", "retransmission-differs", g2c[i].p.t))
                        : i \in retrans}
            \cup UNION {TagsIf(Cardinality({j \in DOMAIN g2c : SameExchange(g2c[i], g2c[j])}) > s.cfg.rc + 1,
                               Tag("C16", "more-than-retrycount-retransmissions", g2c[i].p.t)) : i \in DOMAIN g2c}

=============================================================================
