---- MODULE MC_SleepRace ----
EXTENDS SleepRace
CmdsDef == <<"sleep", "wake", "wake", "sleep", "connect", "sleep", "wake">>
====
