CONSTANTS
  V = {0, 1, 2, 3}
  MaxOps = 4
INIT Init
NEXT Next
INVARIANT Prop_C29_State
