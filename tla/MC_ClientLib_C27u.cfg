INIT InitSubscribed
NEXT Next
VIEW View
CONSTANTS
  Dev = {}
  CfgRD = 2
  CfgRC = 1
  CfgCT = 3
  CfgKA = 0
  GenApis <- Apis_C27u
  GenGw <- Gw_C27u
  GenMids = {9}
  MaxEv = 9
  MaxCalls = 7
INVARIANTS Prop_All TypeOK
