CONSTANT Ranges = {}
INIT TInit
NEXT TNext
INVARIANT Conf_Spec
POSTCONDITION Post
