---------------------- MODULE Trace_GatewaySession ----------------------
(***************************************************************************)
(* Trace validation: traces recorded from the real gateway session         *)
(* (harness/gwdrv) are replayed through the GatewaySession reference model *)
(* and judged by the per-property predicates of GatewayChecks.             *)
(*                                                                         *)
(* trace.ndjson holds many traces, each starting with a Reset line.  The   *)
(* model consumes the *input* of every line (event + hints bound from the  *)
(* observation); the observation is judged against the properties listed   *)
(* in props.json.  Violations are accumulated (one TLC run judges a whole  *)
(* batch); after the first violation or state desync in a trace the rest   *)
(* of that trace is skipped so that a divergence never produces a second,  *)
(* spurious report.                                                        *)
(***************************************************************************)
EXTENDS GatewayChecks, Json

Trace == ndJsonDeserialize("trace.ndjson")
Props == ndJsonDeserialize("props.json")[1].props   \* sequence of property ids to judge

VARIABLES s, l, viol, skip, obsLastB, stat, cover, cur

vars == <<s, l, viol, skip, obsLastB, stat, cover, cur>>

Cfg0 == [auth |-> FALSE, hasuser |-> FALSE, user |-> "", haspass |-> FALSE, pass |-> "",
         retrydelay |-> 100, retrycount |-> 3, tidmin |-> 1, tidmax |-> 65534, skiptids |-> 0,
         predef |-> <<>>]

Init == /\ s = InitState(Cfg0)
        /\ l = 1
        /\ viol = {}
        /\ skip = FALSE
        /\ obsLastB = 0
        /\ stat = [lines |-> 0, checked |-> 0, exactC |-> 0, exactB |-> 0, traces |-> 0, skipped |-> 0]
        /\ cover = {}
        /\ cur = "none"

FirstIdx(seq, t) == LET idx == {i \in DOMAIN seq : seq[i].t = t} IN IF idx = {} THEN 0 ELSE SetMin(idx)

(* choices the properties leave to the implementation, bound from the observation *)
HintOf(st, ln) ==
    LET ev == ln.ev
        regIdx == FirstIdx(ln.outC, "REGISTER")
        rackIdx == FirstIdx(ln.outC, "REGACK")
        pubIdx == FirstIdx(ln.outC, "PUBLISH")
        newReg(n) == {ln.reg[i].id : i \in {j \in DOMAIN ln.reg :
                          ln.reg[j].n = n /\ [id |-> ln.reg[j].id, n |-> n] \notin st.reg}}
    IN IF ev.t = "C" /\ ev.p.t = "REGISTER" /\ rackIdx # 0 /\ ln.outC[rackIdx].rc = 0
          THEN [tid |-> ln.outC[rackIdx].tid, mid |-> 0]
       \* (a REGACK for a sleeping client is buffered: the new registration is visible in the projection only)
       ELSE IF ev.t = "C" /\ ev.p.t \in {"SUBSCRIBE", "REGISTER"} /\ newReg(ev.p.topic) # {}
          THEN [tid |-> SetMin(newReg(ev.p.topic)), mid |-> 0]
       ELSE IF ev.t = "B" /\ ev.m.t = "PUBLISH" /\ regIdx # 0
          THEN [tid |-> ln.outC[regIdx].tid, mid |-> ln.outC[regIdx].mid]
       ELSE IF ev.t = "B" /\ ev.m.t = "PUBLISH" /\ pubIdx # 0
          THEN [tid |-> ln.outC[pubIdx].tid, mid |-> 0]
       ELSE NoHint

\* wasEnded: run() had already returned at the previous line of this trace
Obs(ln, wasEnded) == [wasEnded |-> wasEnded, outC |-> ln.outC, outB |-> ln.outB, bclosed |-> ln.bclosed, ended |-> ln.ended,
            st |-> ln.st, nbuf |-> ln.nbuf, pend |-> ln.pend, reg |-> ln.reg, leaked |-> ln.leaked,
            bjunk |-> ln.bjunk, now |-> ln.now]

CheckOf(p, st, e, o, s2, lastB) ==
    CASE p = "C01" -> Check_C01(st, e, o, s2) [] p = "C02" -> Check_C02(st, e, o, s2)
      [] p = "C03" -> Check_C03(st, e, o, s2) [] p = "C04" -> Check_C04(st, e, o, s2)
      [] p = "C06" -> Check_C06(st, e, o, s2) [] p = "C07" -> Check_C07(st, e, o, s2)
      [] p = "C08" -> Check_C08(st, e, o, s2) [] p = "C09" -> Check_C09(st, e, o, s2)
      [] p = "C10" -> Check_C10(st, e, o, s2) [] p = "C11" -> Check_C11(st, e, o, s2)
      [] p = "C12" -> Check_C12(st, e, o, s2, lastB) [] p = "C13" -> Check_C13(st, e, o, s2)
      [] p = "C14" -> Check_C14(st, e, o, s2) [] p = "C23" -> Check_C23(st, e, o, s2)
      [] p = "C24" -> Check_C24(st, e, o, s2) [] p = "C34" -> Check_C34(st, e, o, s2)
      [] OTHER -> {}

Consume ==
    /\ l <= Len(Trace)
    /\ LET ln == Trace[l]
           ev == ln.ev
       IN /\ l' = l + 1
          /\ IF ev.t = "Reset" THEN
                /\ s' = InitState(ev.cfg)
                /\ skip' = FALSE /\ obsLastB' = 0 /\ cur' = ln.tr
                /\ stat' = [stat EXCEPT !.lines = @ + 1, !.traces = @ + 1]
                /\ UNCHANGED <<viol, cover>>
             ELSE IF skip \/ ln.skipped \/ (s.dying /\ ev.t \notin {"Adv", "End"}) THEN
                \* after a violation/desync, or an event in the dying window: not judged
                /\ stat' = [stat EXCEPT !.lines = @ + 1, !.skipped = @ + 1]
                /\ skip' = TRUE
                /\ UNCHANGED <<s, viol, obsLastB, cover, cur>>
             ELSE
                \* bound variables (not LET) so that TLC evaluates each value once
                \E s2 \in {Step(s, ev, HintOf(s, ln))} :
                \E o \in {Obs(ln, l > 1 /\ Trace[l - 1].tr = ln.tr /\ Trace[l - 1].ended)} :
                \E mine \in {UNION {CheckOf(p, s, ev, o, s2, obsLastB) : p \in Range(Props)}} :
                \E ds \in {Desync(s, ev, o, s2)} :
                   /\ s' = s2
                   /\ viol' = viol \cup {[tr |-> ln.tr, i |-> ln.i, tag |-> t] : t \in (mine \cup ds)}
                   \* after a violation, or when the client state / liveness of model and code differ,
                   \* nothing later in this trace is believed; a difference in the registered topics
                   \* or the buffer length is recorded but judging continues against the intended state
                   /\ skip' = (mine # {} \/ DesyncFatal(s, ev, o, s2))
                   /\ obsLastB' = IF ln.outB # <<>> THEN ln.now ELSE obsLastB
                   /\ stat' = [stat EXCEPT !.lines = @ + 1, !.checked = @ + 1,
                                           !.exactC = @ + (IF CoreSeq(ln.outC) = CoreSeq(s2.outC) THEN 1 ELSE 0),
                                           !.exactB = @ + (IF [i \in DOMAIN ln.outB |-> MqCore(ln.outB[i])]
                                                              = [i \in DOMAIN s2.outB |-> MqCore(s2.outB[i])] THEN 1 ELSE 0)]
                   /\ cover' = cover \cup {s.st \o "/" \o (IF s.cx.on THEN s.cx.phase ELSE "-") \o "/"
                                           \o EvName(ev) \o "/" \o s2.st \o (IF s2.dying THEN "/dying" ELSE "")}
                   /\ cur' = cur
    /\ (l = Len(Trace)) =>
          PrintT("RESULT:" \o ToJson([viol |-> viol', stat |-> stat', cover |-> cover']))

Next == Consume

Spec == Init /\ [][Next]_vars
=============================================================================
