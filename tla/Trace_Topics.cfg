CONSTANTS
  Clients = {"*"}
  Ids = {}
  Names = {}
  QClients = {}
  QIds = {}
  QNames = {}
  Deviations = {}
  OptMax = 0
INIT TInit
NEXT TNext
INVARIANT Conf_WellFormed
POSTCONDITION Post
