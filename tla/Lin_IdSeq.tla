----------------------------- MODULE Lin_IdSeq ------------------------------
(***************************************************************************)
(* Concurrent histories of the real util.IDSequence ("lin_idseq.ndjson",   *)
(* format in LinCore.tla; op = "Next", result id = rv, overflow = found)   *)
(* must be linearizable w.r.t. IdSeq.tla.  All histories of the file are   *)
(* initial states of one TLC run; "LIN:<hid>" is printed when a complete   *)
(* linearisation of history hid is reached.  A history for which TLC       *)
(* (having explored everything) printed nothing is not linearizable.       *)
(***************************************************************************)
EXTENDS IdSeq, LinCore, Json

VARIABLES h, done

Hist == ndJsonDeserialize("lin_idseq.ndjson")

LInit == \E x \in 1..Len(Hist) :
            /\ h = x /\ done = {}
            /\ InitRange(Hist[x].min, Hist[x].max)

Lin(o) == /\ DoNext
          /\ ret' = [id |-> o.rv, ovf |-> o.found]
          /\ done' = done \cup {o.id}
          /\ UNCHANGED h

LNext == \E o \in Minimal(Hist[h], done) :
            /\ Lin(o)
            /\ Complete(Hist[h], done') => PrintT("LIN:" \o ToString(Hist[h].hid))

(* along every (partial) linearisation the object keeps its sequential contract *)
Conf_Spec == Prop_C29_Seq /\ Prop_C29_NoDupInCycle
=============================================================================
