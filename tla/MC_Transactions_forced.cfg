\* forced mode: every forceable schedule; Prop_C18/Prop_C19 = TxMonitor never trips (thorough tier; Emit="end" prints the schedules)
\* (the check generates its cfgs from families/transactions.py:TIERS; this file mirrors one of them for manual runs:
\*  tlc -deadlock -config MC_Transactions_forced.cfg Transactions)
CONSTANTS
  Kinds = {"base", "retry", "timed"}
  RCs = {0, 1, 2}
  RDs = {1, 2, 3}
  TOs = {0, 1, 3}
  MaxOps = 3
  CbMayFail = TRUE
  Devs = {}
  Forced = TRUE
  Emit = "none"
INIT Init
NEXT Next
INVARIANT TypeOK
INVARIANT Prop_C18
INVARIANT Prop_C19
