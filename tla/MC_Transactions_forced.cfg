\* all forceable schedules; the monitor (Prop_C18/Prop_C19) never trips on the intended design
CONSTANTS
  Kinds = {"base", "retry", "timed"}
  RCs = {0,1,2}
  RDs = {1,2,3}
  TOs = {0,1,3}
  MaxOps = 3
  CbMayFail = TRUE
  Devs = {}
  Forced = TRUE
  Emit = "none"
INIT Init
NEXT Next
INVARIANT TypeOK
INVARIANT Prop_C18
INVARIANT Prop_C19
