SPECIFICATION Spec
POSTCONDITION AllAccepted
CHECK_DEADLOCK FALSE
