------------------------- MODULE Trace_SleepRace -------------------------
(***************************************************************************)
(* Judges the runs recorded by harness/gwdrv TestRace: for every run the   *)
(* commands of the MQTT-SN side (in order), the number of broker messages  *)
(* (sent in order 1..N) and the sequence of datagrams the client received  *)
(* are known; how the two sides interleaved is not.  A run is accepted iff *)
(* some interleaving of the ATOMIC critical sections of SleepRace.tla      *)
(* (snSend | sleep | wake-up flush | connect) produces exactly the         *)
(* recorded output with nothing left in the buffer - the unlogged steps    *)
(* are found by TLC's search.  Runs are processed one after the other;     *)
(* the high-water mark of accepted runs is kept in a TLC register and      *)
(* checked by the POSTCONDITION (needs -workers 1).                        *)
(***************************************************************************)
EXTENDS Integers, Sequences, TLC, Json

Runs == ndJsonDeserialize("runs.ndjson")

VARIABLES r, st, buf, i, j, pos
vars == <<r, st, buf, i, j, pos>>

D == -1
R == -2
A == -3

Init == r = 1 /\ st = "active" /\ buf = <<>> /\ i = 1 /\ j = 1 /\ pos = 1 /\ TLCSet(1, 0)

Run == Runs[r]
Out == Run.out
Cmd == IF j <= Len(Run.cmds) THEN Run.cmds[j] ELSE "none"

(* the next outputs must be exactly seq *)
Emits(seq) == /\ pos + Len(seq) - 1 <= Len(Out)
              /\ \A k \in 1..Len(seq) : Out[pos + k - 1] = seq[k]
              /\ pos' = pos + Len(seq)

MSend == /\ r <= Len(Runs) /\ i <= Run.n
         /\ IF st = "asleep" THEN buf' = Append(buf, i) /\ pos' = pos ELSE Emits(<<i>>) /\ buf' = buf
         /\ i' = i + 1 /\ UNCHANGED <<r, st, j>>
SSleep == /\ r <= Len(Runs) /\ Cmd = "sleep"
          /\ Emits(<<D>>) /\ st' = "asleep" /\ j' = j + 1 /\ UNCHANGED <<r, buf, i>>
SWake == /\ r <= Len(Runs) /\ Cmd = "wake"
         /\ IF st = "asleep" THEN Emits(buf \o <<R>>) /\ buf' = <<>> ELSE UNCHANGED <<pos, buf>>
         /\ j' = j + 1 /\ UNCHANGED <<r, st, i>>
SConnect == /\ r <= Len(Runs) /\ Cmd = "connect" /\ st = "asleep"
            /\ Emits(<<A>> \o buf) /\ buf' = <<>> /\ st' = "active" /\ j' = j + 1 /\ UNCHANGED <<r, i>>
Accept == /\ r <= Len(Runs) /\ i = Run.n + 1 /\ j = Len(Run.cmds) + 1 /\ pos = Len(Out) + 1 /\ buf = <<>>
          /\ r' = r + 1 /\ st' = "active" /\ buf' = <<>> /\ i' = 1 /\ j' = 1 /\ pos' = 1
          /\ TLCSet(1, r)

Next == MSend \/ SSleep \/ SWake \/ SConnect \/ Accept
Spec == Init /\ [][Next]_vars

(* all runs accepted? otherwise the first rejected run is TLCGet(1) + 1 *)
AllAccepted == PrintT("RESULT:" \o ToString(TLCGet(1)) \o "/" \o ToString(Len(Runs)))
=============================================================================
