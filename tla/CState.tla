------------------------------- MODULE CState -------------------------------
(***************************************************************************)
(* Sequential specification of util.ClientState (bisquitt                  *)
(* util/client_state.go): an atomic register.  Set(v) stores v and returns *)
(* the previous value, Get returns the current value.  Values are          *)
(* integers (the real type is a uint32; 0..3 are the named states).        *)
(* Operation records [op, k, v] and results [found, v] have the shape used *)
(* by TxStore.tla so that the history format is shared (k unused, found    *)
(* always TRUE).                                                           *)
(***************************************************************************)
EXTENDS Integers, Sequences, TLC

CONSTANTS V, MaxOps

VARIABLES st, ret, hist

csvars == <<st, ret, hist>>

Val(x) == [found |-> TRUE, v |-> x]

InitState == st = 0 /\ ret = Val(0)

Do(o) ==
    CASE o.op = "Set" -> st' = o.v /\ ret' = Val(st)
      [] o.op = "Get" -> ret' = Val(st) /\ UNCHANGED st

Op(name, val) == [op |-> name, k |-> 0, v |-> val]

ModelOps == {Op("Set", x) : x \in V} \cup {Op("Get", 0)}

Init == InitState /\ hist = <<>>

Next == /\ Len(hist) < MaxOps
        /\ \E o \in ModelOps : Do(o) /\ hist' = Append(hist, o)

(* value in the register after the operations h *)
LastSet(h) ==
    LET w == {j \in 1..Len(h) : h[j].op = "Set"}
    IN IF w = {} THEN 0 ELSE h[CHOOSE j \in w : \A j2 \in w : j2 <= j].v

(* C29: both operations return the value written by the latest earlier Set *)
Prop_C29_State ==
    Len(hist) > 0 => /\ ret = Val(LastSet(SubSeq(hist, 1, Len(hist) - 1)))
                     /\ st = LastSet(hist)
=============================================================================
