\* non-vacuity of the deviation: with the unrepaired GetTopicID behaviour TLC must find a counterexample to C05
CONSTANTS
  Clients = {"c1", "*"}
  Ids = {1, 2}
  Names = {"x", "y"}
  QClients = {}
  QIds = {}
  QNames = {}
  Deviations = {"ShadowedStar"}
  OptMax = 0
INIT Init
NEXT Next
INVARIANTS Prop_C05
