\* as MC_IdSeq plus the full uint16 range (0,65535) once
CONSTANT Ranges <- QuickRanges
INIT Init
NEXT Next
INVARIANTS Prop_C29_Seq Prop_C29_NoDupInCycle Prop_TypeOK
