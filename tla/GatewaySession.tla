--------------------------- MODULE GatewaySession ---------------------------
(***************************************************************************)
(* One bisquitt gateway session (gateway/handler1.go and its transactions) *)
(* as a deterministic-per-event reference model.                           *)
(*                                                                         *)
(* The whole abstract state is one record `s`; every handler entry point   *)
(* (one per packet type from the client, one per packet type from the      *)
(* broker, every timer, shutdown) is one operator Do<Event>(s, e, h)       *)
(* returning the successor state, including what the step emitted          *)
(* (s.outC to the MQTT-SN client, s.outB to the MQTT broker).              *)
(* `h` are "hints": where a property leaves the implementation a free      *)
(* choice (which fresh topic ID, which of several IDs of a name, which     *)
(* message ID for a QoS 0 REGISTER) the model-checking wrapper picks one   *)
(* and the trace-validation wrapper binds the choice observed in the       *)
(* recorded trace.                                                         *)
(*                                                                         *)
(* The listed properties are Check_Cnn(s, e, oC, oB, o, s2): predicates    *)
(* over (pre-state, event, observed outputs, post-state) returning the set *)
(* of violated clause names.  MC_GatewaySession applies them to the        *)
(* model's own outputs (design check); Trace_GatewaySession applies them   *)
(* to the outputs recorded from the real code (conformance).               *)
(*                                                                         *)
(* Time: integer ticks of 100 ms (= the connection poll interval).         *)
(***************************************************************************)
EXTENDS Integers, Sequences, FiniteSets, TLC

ConnectTimeout == 50      \* connectTransactionTimeout = 5 s
Poll == 1                 \* connTimeout = 100 ms
MaxDatagram == 8192
TicksPerSec == 10

Range(f) == {f[i] : i \in DOMAIN f}
SetMin(S) == CHOOSE x \in S : \A y \in S : x <= y
SetMax(S) == CHOOSE x \in S : \A y \in S : x >= y

-----------------------------------------------------------------------------
(* Packet records (uniform fields; see harness/absmap).                    *)

SnFields == {"t","dup","qos","retain","tit","tid","mid","rc","dur","topic","data"}
Sn0 == [t |-> "NONE", dup |-> FALSE, qos |-> 0, retain |-> FALSE, tit |-> 0, tid |-> 0,
        mid |-> 0, rc |-> 0, dur |-> 0, topic |-> "", data |-> ""]
SnCore(p) == [f \in SnFields |-> p[f]]

MqFields == {"t","dup","qos","retain","topic","mid","pl","rqos","cid","ka","clean","willflag",
             "willtopic","willmsg","willqos","willretain","hasuser","user","haspass","pass"}
Mq0 == [t |-> "NONE", dup |-> FALSE, qos |-> 0, retain |-> FALSE, topic |-> "", mid |-> 0,
        pl |-> "s:", rqos |-> 0, cid |-> "", ka |-> 0, clean |-> FALSE, willflag |-> FALSE,
        willtopic |-> "", willmsg |-> "s:", willqos |-> 0, willretain |-> FALSE,
        hasuser |-> FALSE, user |-> "", haspass |-> FALSE, pass |-> ""]
MqCore(p) == [f \in MqFields |-> p[f]]

RC_ACCEPTED == 0
RC_CONGESTION == 1
RC_INVALID_TOPIC == 2
RC_NOT_SUPPORTED == 3

SnConnack(rc)          == [Sn0 EXCEPT !.t = "CONNACK", !.rc = rc]
SnRegack(tid, mid, rc) == [Sn0 EXCEPT !.t = "REGACK", !.tid = tid, !.mid = mid, !.rc = rc]
SnRegister(tid, mid, n) == [Sn0 EXCEPT !.t = "REGISTER", !.tid = tid, !.mid = mid, !.topic = n]
SnPuback(tid, mid, rc) == [Sn0 EXCEPT !.t = "PUBACK", !.tid = tid, !.mid = mid, !.rc = rc]
SnSuback(tid, mid, rc, q) == [Sn0 EXCEPT !.t = "SUBACK", !.tid = tid, !.mid = mid, !.rc = rc, !.qos = q]
SnMid(t, mid)          == [Sn0 EXCEPT !.t = t, !.mid = mid]
SnPlain(t)             == [Sn0 EXCEPT !.t = t]
SnPublish(dup, qos, retain, tit, tid, mid, data) ==
    [Sn0 EXCEPT !.t = "PUBLISH", !.dup = dup, !.qos = qos, !.retain = retain, !.tit = tit,
                !.tid = tid, !.mid = mid, !.data = data]

MqMid(t, mid) == [Mq0 EXCEPT !.t = t, !.mid = mid]
MqPlain(t)    == [Mq0 EXCEPT !.t = t]

-----------------------------------------------------------------------------
(* Predefined topics (intended semantics, cf. Topics.tla / property C05):  *)
(* cfg.predef is a sequence of [c, id, n]; a client entry shadows "*".     *)

PredefName(cfg, c, id) ==
    LET own == {e \in Range(cfg.predef) : e.c = c /\ e.id = id}
        all == {e \in Range(cfg.predef) : e.c = "*" /\ e.id = id}
    IN IF own # {} THEN (CHOOSE e \in own : TRUE).n
       ELSE IF all # {} THEN (CHOOSE e \in all : TRUE).n
       ELSE "?none"
\* predefined names of the alphabets / generators that are wildcard filters (TLC cannot scan a string)
WildPredefNames == {"w/#", "w/+", "a/+", "a/#", "#", "+", "+/b"}
PredefHas(cfg, c, id) == \E e \in Range(cfg.predef) : e.id = id /\ e.c \in {c, "*"}
PredefIds(cfg, c, n) == {id \in {e.id : e \in Range(cfg.predef)} : PredefHas(cfg, c, id) /\ PredefName(cfg, c, id) = n}

-----------------------------------------------------------------------------
(* State.                                                                   *)

NoCx == [on |-> FALSE, phase |-> "none", will |-> FALSE, sent |-> FALSE, authd |-> FALSE,
         deadline |-> 0, at |-> 0, mq |-> Mq0]

InitState(cfg) ==
    [cfg |-> cfg,
     st |-> "disconnected",       \* util.ClientState
     alive |-> TRUE,              \* run() has not returned
     dying |-> FALSE,             \* a termination cause has occurred
     cause |-> "none", dieAt |-> 0,
     bopen |-> TRUE,              \* broker connection open
     acc |-> FALSE,               \* ghost: broker accepted a CONNECT of this session
     cx |-> NoCx,                 \* connect exchange (connectTransaction)
     cid |-> "", ka |-> 0,
     reg |-> {},                  \* registeredTopics: set of [id, n]
     pendreg |-> {},              \* pendingRegistrations: [id, n] of REGISTERs sent and not yet acknowledged
     handed |-> {},               \* ghost: every [id, n] ever handed to the client
     nxt |-> cfg.tidmin + cfg.skiptids, exhausted |-> FALSE,
     cknow |-> {},                \* ghost: [tit, id, n] the client can resolve
     ctx |-> {},                  \* client-initiated exchanges [mid, kind, tid, due]
     btx |-> {},                  \* broker-initiated exchanges
     buf |-> <<>>,                \* pktBuffer
     sleepDur |-> 0, sleepUntil |-> 0,
     pinger |-> [on |-> FALSE, next |-> 0, until |-> 0],
     now |-> 0, lastB |-> 0, lastC |-> 0,
     nconn |-> 0,                 \* MQTT CONNECTs sent in the current exchange
     tent |-> {},                 \* ghost: [id, n] registered by a SUBSCRIBE and not (yet) confirmed to the client
     coin |-> {},                 \* ghost: message IDs used by both directions at once
     super |-> {},                \* ghost: message IDs of superseded client exchanges
     clientOK |-> TRUE,           \* ghost: the client has met its own obligations so far
     early |-> FALSE,             \* a timer was due strictly inside a quiet period
     outC |-> <<>>, outB |-> <<>>]

ClearOut(s) == [s EXCEPT !.outC = <<>>, !.outB = <<>>, !.early = FALSE]

(* snSend: queued while asleep *)
Send(s, p) == IF s.st = "asleep" THEN [s EXCEPT !.buf = Append(@, p)]
              ELSE [s EXCEPT !.outC = Append(@, p)]
SendNow(s, p) == [s EXCEPT !.outC = Append(@, p)]
SendB(s, m) == [s EXCEPT !.outB = Append(@, m), !.lastB = s.now]

(* A termination cause: the epilogue goroutine sends DISCONNECT to an     *)
(* active/awake client at once; run() returns within one poll.            *)
Die(s, cause) ==
    IF s.dying THEN s
    ELSE LET s1 == IF s.st \in {"active", "awake"} THEN SendNow(s, SnPlain("DISCONNECT")) ELSE s
         IN [s1 EXCEPT !.dying = TRUE, !.cause = cause, !.dieAt = s.now,
                       !.cx = NoCx, !.ctx = {}, !.btx = {}, !.pinger = [on |-> FALSE, next |-> 0, until |-> 0]]

-----------------------------------------------------------------------------
(* Topic ID allocation (newTopicID): sequential, skipping IDs predefined   *)
(* for this client; once the range is used up it stays exhausted.          *)

IsFree(s, i) == i >= s.nxt /\ i <= s.cfg.tidmax /\ ~PredefHas(s.cfg, s.cid, i)
NPredef(s) == Cardinality({e.id : e \in Range(s.cfg.predef)})
Cand(s) == {i \in s.nxt..(IF s.nxt + NPredef(s) < s.cfg.tidmax THEN s.nxt + NPredef(s) ELSE s.cfg.tidmax) : IsFree(s, i)}
CanAlloc(s) == ~s.exhausted /\ Cand(s) # {}
DefaultAlloc(s) == SetMin(Cand(s))
(* id actually used: the hint when it is admissible, else the default *)
AllocId(s, h) == IF IsFree(s, h.tid) THEN h.tid ELSE DefaultAlloc(s)
AfterAlloc(s, id) == [s EXCEPT !.nxt = id + 1]
NoAlloc(s) == [s EXCEPT !.exhausted = TRUE]

RegIds(s, n) == {r.id : r \in {x \in s.reg : x.n = n}}
PendIds(s, n) == {r.id : r \in {x \in s.pendreg : x.n = n}}
RegName(s, id) == LET m == {r \in s.reg : r.id = id} IN
                  IF m = {} THEN "?none" ELSE (CHOOSE r \in m : TRUE).n
Pick(S, hint) == IF hint \in S THEN hint ELSE SetMin(S)

-----------------------------------------------------------------------------
(* Connect exchange.                                                        *)

BaseConnect(s, p) ==
    [Mq0 EXCEPT !.t = "CONNECT", !.cid = p.cid, !.clean = p.clean, !.ka = p.dur,
                !.willflag = p.will,
                !.hasuser = s.cfg.hasuser, !.user = IF s.cfg.hasuser THEN s.cfg.user ELSE "",
                !.haspass = s.cfg.haspass, !.pass = IF s.cfg.haspass THEN s.cfg.pass ELSE ""]

SendConnect(s) == LET s1 == SendB(s, s.cx.mq)
                  IN [s1 EXCEPT !.cx.phase = "connack", !.cx.sent = TRUE, !.nconn = @ + 1]

WakeToActive(s) ==
    \* CONNECT from a sleeping (or awake) client only signals the transition
    \* to active (doc/specification-interpretation.md): CONNACK, then the
    \* buffered packets; the broker gets a PINGREQ so that its keep-alive
    \* window restarts with the client's.
    LET s1 == [s EXCEPT !.st = "active", !.pinger = [on |-> FALSE, next |-> 0, until |-> 0]]
        s2 == SendNow(s1, SnConnack(RC_ACCEPTED))
        s3 == [s2 EXCEPT !.outC = @ \o s.buf, !.buf = <<>>]
    IN SendB(s3, MqPlain("PINGREQ"))

DoConnect(s, p) ==
    IF s.st \in {"asleep", "awake"} THEN WakeToActive(s)
    ELSE IF p.dur = 0 THEN SendNow(s, SnConnack(RC_NOT_SUPPORTED))
    ELSE LET ph == IF s.cfg.auth THEN "auth" ELSE IF p.will THEN "willtopic" ELSE "connack"
             s1 == [s EXCEPT !.cid = p.cid, !.ka = p.dur, !.nconn = 0,
                             !.cx = [on |-> TRUE, phase |-> ph, will |-> p.will, sent |-> FALSE, authd |-> FALSE,
                                     deadline |-> s.now + ConnectTimeout, at |-> s.now,
                                     mq |-> BaseConnect(s, p)]]
         IN IF s.cfg.auth THEN s1
            ELSE IF p.will THEN Send(s1, SnPlain("WILLTOPICREQ"))
            ELSE SendConnect(s1)

DoAuth(s, p) ==
    IF ~s.cx.on \/ ~s.cfg.auth \/ s.cx.phase # "auth" THEN s       \* ignored
    ELSE IF ~p.plain THEN
        Die(Send(s, SnConnack(RC_NOT_SUPPORTED)), "auth-method")
    ELSE IF ~p.plainok THEN Die(s, "auth-data")
    ELSE LET s1 == [s EXCEPT !.cx.authd = TRUE, !.cx.mq.hasuser = TRUE, !.cx.mq.user = p.user,
                             !.cx.mq.haspass = TRUE, !.cx.mq.pass = p.pass]
         IN IF s.cx.will THEN Send([s1 EXCEPT !.cx.phase = "willtopic"], SnPlain("WILLTOPICREQ"))
            ELSE SendConnect(s1)

DoWillTopic(s, p) ==
    IF ~s.cx.on \/ s.cx.phase \notin {"willtopic", "willmsg"} THEN s
    ELSE IF ~p.empty /\ p.qos = 3 THEN Die(Send(s, SnConnack(RC_NOT_SUPPORTED)), "will-qos")
    ELSE \* an empty WILLTOPIC (no will after all) is still followed by WILLMSGREQ
         Send([s EXCEPT !.cx.phase = "willmsg",
                        !.cx.mq.willtopic = IF p.empty THEN "" ELSE p.topic,
                        !.cx.mq.willqos = IF p.empty THEN 0 ELSE p.qos,
                        !.cx.mq.willretain = IF p.empty THEN FALSE ELSE p.retain],
              SnPlain("WILLMSGREQ"))

DoWillMsg(s, p) ==
    IF ~s.cx.on \/ s.cx.phase # "willmsg" THEN s
    ELSE IF s.cx.mq.willtopic = "" THEN
         SendConnect([s EXCEPT !.cx.mq.willflag = FALSE, !.cx.mq.willqos = 0, !.cx.mq.willretain = FALSE])
    ELSE SendConnect([s EXCEPT !.cx.mq.willmsg = p.data])

DoBConnack(s, m) ==
    IF ~s.cx.on THEN s
    ELSE IF m.rc # 0 THEN Die(Send(s, SnConnack(RC_CONGESTION)), "broker-refused")
    ELSE LET s1 == [s EXCEPT !.st = "active", !.acc = (s.acc \/ s.cx.sent), !.cx = NoCx]
         IN SendNow(s1, SnConnack(RC_ACCEPTED))

-----------------------------------------------------------------------------
(* Client-initiated traffic.                                                *)

(* the topic name a client PUBLISH/SUBSCRIBE/UNSUBSCRIBE denotes *)
Resolve(s, p) ==
    CASE p.tit = 0 -> RegName(s, p.tid)
      [] p.tit = 1 -> PredefName(s.cfg, s.cid, p.tid)
      [] p.tit = 2 -> p.sname
      [] OTHER -> "?none"

\* A wildcard name is normally refused; no property forbids registering it as long as it is never
\* published under, so an observed acceptance (the hint carries the ID of an accepted REGACK) is followed.
DoRegister(s, p, h) ==
    IF p.wild /\ h.tid = 0 THEN Send(s, SnRegack(0, p.mid, RC_NOT_SUPPORTED))
    ELSE IF RegIds(s, p.topic) # {} THEN
        LET id == Pick(RegIds(s, p.topic), h.tid)
        IN Send([s EXCEPT !.handed = @ \cup {[id |-> id, n |-> p.topic]},
                          !.tent = @ \ {[id |-> id, n |-> p.topic]},
                          !.cknow = @ \cup {[tit |-> 0, id |-> id, n |-> p.topic]}],
                SnRegack(id, p.mid, RC_ACCEPTED))
    ELSE IF ~CanAlloc(s) THEN Send(NoAlloc(s), SnRegack(0, p.mid, RC_INVALID_TOPIC))
    ELSE LET id == AllocId(s, h)
             s1 == AfterAlloc(s, id)
         IN Send([s1 EXCEPT !.reg = @ \cup {[id |-> id, n |-> p.topic]},
                            !.handed = @ \cup {[id |-> id, n |-> p.topic]},
                            !.cknow = @ \cup {[tit |-> 0, id |-> id, n |-> p.topic]}],
                 SnRegack(id, p.mid, RC_ACCEPTED))

PublishLegalWhenDisconnected(s, p) == ~s.cfg.auth /\ p.qos = 3 /\ p.tit \in {1, 2}

DoPublish(s, p) ==
    LET name == Resolve(s, p)
        bad  == name = "?none" \/ (p.tit = 2 /\ p.swild) \/ (p.tit \in {0, 1} /\ name \in WildPredefNames)
        m    == [Mq0 EXCEPT !.t = "PUBLISH", !.topic = name, !.pl = p.data, !.retain = p.retain,
                            !.dup = p.dup, !.qos = IF p.qos = 3 THEN 0 ELSE p.qos,
                            !.mid = IF p.qos \in {1, 2} THEN p.mid ELSE 0]
    IN IF bad THEN Die(s, "publish-unresolvable")
       ELSE LET s1 == IF p.qos = 1
                      THEN [s EXCEPT !.ctx = {x \in @ : x.mid # p.mid} \cup
                                   {[mid |-> p.mid, kind |-> "pub1", tid |-> p.tid,
                                     due |-> s.now + s.cfg.retrydelay, name |-> "", tit |-> p.tit, created |-> FALSE]}]
                      ELSE s
            IN SendB(s1, m)

DoSubscribe(s, p, h) ==
    LET fwdc(s1, name, tid, created) ==
            SendB([s1 EXCEPT !.ctx = {x \in @ : x.mid # p.mid} \cup
                          {[mid |-> p.mid, kind |-> "sub", tid |-> tid, due |-> s.now + s.cfg.retrydelay,
                            name |-> name, tit |-> p.tit, created |-> created]}],
                  [Mq0 EXCEPT !.t = "SUBSCRIBE", !.mid = p.mid, !.topic = name, !.rqos = p.qos])
        fwd(s1, name, tid) == fwdc(s1, name, tid, FALSE)
    IN
    IF p.qos = 3 THEN Send(s, SnSuback(0, p.mid, RC_NOT_SUPPORTED, 0))
    ELSE CASE p.tit = 0 ->
              IF p.wild THEN fwd(s, p.topic, 0)
              ELSE IF RegIds(s, p.topic) # {} THEN
                   fwd([s EXCEPT !.handed = @ \cup {[id |-> Pick(RegIds(s, p.topic), h.tid), n |-> p.topic]}],
                       p.topic, Pick(RegIds(s, p.topic), h.tid))
              ELSE IF ~CanAlloc(s) THEN Send(NoAlloc(s), SnSuback(0, p.mid, RC_INVALID_TOPIC, 0))
              ELSE LET id == AllocId(s, h)
                       s1 == AfterAlloc(s, id)
                   IN fwdc([s1 EXCEPT !.reg = @ \cup {[id |-> id, n |-> p.topic]},
                                      !.tent = @ \cup {[id |-> id, n |-> p.topic]},
                                      !.handed = @ \cup {[id |-> id, n |-> p.topic]}], p.topic, id, TRUE)
           [] p.tit = 1 ->
              IF ~PredefHas(s.cfg, s.cid, p.tid) THEN Die(s, "subscribe-unknown-predefined")
              ELSE fwd(s, PredefName(s.cfg, s.cid, p.tid), p.tid)
           [] p.tit = 2 -> fwd(s, p.sname, 0)
           [] OTHER -> Die(s, "subscribe-bad-tit")

DoUnsubscribe(s, p) ==
    LET name == CASE p.tit = 0 -> p.topic
                  [] p.tit = 1 -> PredefName(s.cfg, s.cid, p.tid)
                  [] p.tit = 2 -> p.sname
                  [] OTHER -> "?none"
    IN IF name = "?none" THEN Die(s, "unsubscribe-unknown-predefined")
       ELSE SendB(s, [Mq0 EXCEPT !.t = "UNSUBSCRIBE", !.mid = p.mid, !.topic = name])

DoBPuback(s, m) ==
    LET tx == {x \in s.ctx : x.mid = m.mid /\ x.kind = "pub1"}
    IN IF tx = {} THEN s
       ELSE LET x == CHOOSE x \in tx : TRUE
            IN Send([s EXCEPT !.ctx = @ \ tx], SnPuback(x.tid, m.mid, RC_ACCEPTED))

DoBSuback(s, m) ==
    LET tx == {x \in s.ctx : x.mid = m.mid /\ x.kind = "sub"}
    IN IF tx = {} THEN s
       ELSE IF Len(m.codes) # 1 THEN Die([s EXCEPT !.ctx = @ \ tx], "suback-codes")
       ELSE LET x == CHOOSE x \in tx : TRUE
                ok == m.codes[1] <= 2
                s1 == [s EXCEPT !.ctx = @ \ tx,
                                !.cknow = IF ok /\ x.tid # 0 /\ x.tit = 0
                                          THEN @ \cup {[tit |-> 0, id |-> x.tid, n |-> x.name]} ELSE @,
                                !.tent = IF ok THEN @ \ {[id |-> x.tid, n |-> x.name]} ELSE @]
            IN Send(s1, SnSuback(x.tid, m.mid, IF ok THEN RC_ACCEPTED ELSE RC_NOT_SUPPORTED,
                                 IF ok THEN m.codes[1] ELSE 0))

-----------------------------------------------------------------------------
(* Broker-initiated PUBLISH (brokerPublishQOS{0,1,2}Transaction).           *)

UsedMids(s) == {x.mid : x \in s.btx}
IsFreeMid(s, i) == i >= 1 /\ i <= 65535 /\ i \notin UsedMids(s)
(* the code takes the highest message ID without a stored exchange *)
DefaultMid(s) == SetMax({i \in (65535 - Cardinality(UsedMids(s)))..65535 : i \notin UsedMids(s)})
PickMid(s, hint) == IF IsFreeMid(s, hint) THEN hint ELSE DefaultMid(s)
QosPhase(q) == IF q = 1 THEN "puback" ELSE IF q = 2 THEN "pubrec" ELSE "done"

DoBPublish(s, m, h) ==
    LET mk(tit, tid) == SnPublish(m.dup, m.qos, m.retain, tit, tid, m.mid, m.pl)
        track(s1, pub) ==   \* QoS 1/2: an exchange with retransmission
            IF m.qos = 0 THEN Send(s1, pub)
            ELSE Send([s1 EXCEPT !.btx = {x \in @ : x.mid # m.mid} \cup
                           {[mid |-> m.mid, qos |-> m.qos, phase |-> QosPhase(m.qos), pub |-> pub,
                             regid |-> 0, regname |-> "", last |-> [side |-> "sn", p |-> pub, m |-> Mq0],
                             retries |-> 0, due |-> s.now + s.cfg.retrydelay]}], pub)
    IN
    IF m.plen + 9 > MaxDatagram \/ m.tlen + 8 > MaxDatagram THEN s    \* PUBLISH / REGISTER would not fit: dropped
    ELSE IF m.short THEN track(s, mk(2, m.sid))
    ELSE IF RegIds(s, m.topic) # {} THEN track(s, mk(0, Pick(RegIds(s, m.topic), h.tid)))
    ELSE IF PredefIds(s.cfg, s.cid, m.topic) # {} THEN
         track(s, mk(1, Pick(PredefIds(s.cfg, s.cid, m.topic), h.tid)))
    ELSE IF PendIds(s, m.topic) = {} /\ ~CanAlloc(s) THEN Die(NoAlloc(s), "topic-ids-exhausted")
    ELSE LET \* a topic that is being registered already keeps its ID (bursts on a new topic)
             fresh == PendIds(s, m.topic) = {}
             id == IF fresh THEN AllocId(s, h) ELSE SetMin(PendIds(s, m.topic))
             s1 == IF fresh THEN [AfterAlloc(s, id) EXCEPT !.pendreg = @ \cup {[id |-> id, n |-> m.topic]}] ELSE s
             mid == IF m.qos = 0 THEN PickMid(s, h.mid) ELSE m.mid
             pub == mk(0, id)
             rg  == SnRegister(id, mid, m.topic)
         IN Send([s1 EXCEPT !.handed = @ \cup {[id |-> id, n |-> m.topic]},
                            !.btx = {x \in @ : x.mid # mid} \cup
                               {[mid |-> mid, qos |-> m.qos, phase |-> "regack", pub |-> pub,
                                 regid |-> id, regname |-> m.topic,
                                 last |-> [side |-> "sn", p |-> rg, m |-> Mq0],
                                 retries |-> 0, due |-> s.now + s.cfg.retrydelay]}], rg)

Btx(s, mid) == {x \in s.btx : x.mid = mid}
TheBtx(s, mid) == CHOOSE x \in s.btx : x.mid = mid

(* Proceed: new state, new last packet, retry budget reset *)
Advance(s, x, phase, last) ==
    [s EXCEPT !.btx = (@ \ {x}) \cup {[x EXCEPT !.phase = phase, !.last = last, !.retries = 0,
                                               !.due = s.now + s.cfg.retrydelay]}]
Finish(s, x) == [s EXCEPT !.btx = @ \ {x}]

DoCRegack(s, p) ==
    IF Btx(s, p.mid) = {} THEN s
    ELSE LET x == TheBtx(s, p.mid) IN
         IF x.phase # "regack" THEN s
         ELSE IF p.rc # 0 THEN Finish(s, x)
         ELSE LET s1 == [s EXCEPT !.reg = @ \cup {[id |-> x.regid, n |-> x.regname]},
                                  !.pendreg = @ \ {[id |-> x.regid, n |-> x.regname]},
                                  !.cknow = @ \cup {[tit |-> 0, id |-> x.regid, n |-> x.regname]}]
              IN IF x.qos = 0 THEN Send(Finish(s1, x), x.pub)
                 ELSE Send(Advance(s1, x, QosPhase(x.qos), [side |-> "sn", p |-> x.pub, m |-> Mq0]), x.pub)

DoCPuback(s, p) ==
    IF Btx(s, p.mid) = {} THEN s
    ELSE LET x == TheBtx(s, p.mid) IN
         IF x.qos # 1 \/ x.phase # "puback" THEN s
         ELSE IF p.rc # 0 THEN Finish(s, x)
         ELSE SendB(Finish(s, x), MqMid("PUBACK", p.mid))

DoCPubrec(s, p) ==
    IF Btx(s, p.mid) = {} THEN s
    ELSE LET x == TheBtx(s, p.mid) IN
         IF x.qos # 2 \/ x.phase # "pubrec" THEN s
         ELSE SendB(Advance(s, x, "pubrel", [side |-> "mq", p |-> Sn0, m |-> MqMid("PUBREC", p.mid)]),
                    MqMid("PUBREC", p.mid))

DoBPubrel(s, m) ==
    IF Btx(s, m.mid) = {} THEN s
    ELSE LET x == TheBtx(s, m.mid) IN
         IF x.qos # 2 \/ x.phase # "pubrel" THEN s
         ELSE Send(Advance(s, x, "pubcomp", [side |-> "sn", p |-> SnMid("PUBREL", m.mid), m |-> Mq0]),
                   SnMid("PUBREL", m.mid))

DoCPubcomp(s, p) ==
    IF Btx(s, p.mid) = {} THEN s
    ELSE LET x == TheBtx(s, p.mid) IN
         IF x.qos # 2 \/ x.phase # "pubcomp" THEN s
         ELSE SendB(Finish(s, x), MqMid("PUBCOMP", p.mid))

-----------------------------------------------------------------------------
(* Sleep / ping / disconnect.                                               *)

DoPingreq(s) ==
    IF s.st = "asleep" THEN
        \* awake window: flush, PINGRESP, back to asleep; the sleep timer and
        \* the broker keep-alive hand-over restart
        LET s1 == [s EXCEPT !.outC = (@ \o s.buf) \o <<SnPlain("PINGRESP")>>, !.buf = <<>>,
                            !.sleepUntil = s.now + s.sleepDur,
                            !.pinger = [on |-> TRUE, next |-> s.now + TicksPerSec * s.ka,
                                        until |-> s.now + s.sleepDur]]
        IN SendB(s1, MqPlain("PINGREQ"))
    ELSE SendB(s, MqPlain("PINGREQ"))

DoDisconnect(s, p) ==
    IF p.dur = 0 THEN
        LET s1 == SendB(s, MqPlain("DISCONNECT"))
            s2 == SendNow([s1 EXCEPT !.st = "disconnected"], SnPlain("DISCONNECT"))
        IN Die(s2, "client-disconnect")
    ELSE
        LET d == TicksPerSec * p.dur
            s1 == SendNow(s, SnPlain("DISCONNECT"))
            s2 == [s1 EXCEPT !.st = "asleep", !.sleepDur = d, !.sleepUntil = s.now + d,
                             !.pinger = [on |-> TRUE, next |-> s.now + TicksPerSec * s.ka,
                                         until |-> s.now + d]]
        IN SendB(s2, MqPlain("PINGREQ"))

DoBPingresp(s) == IF s.st = "active" THEN Send(s, SnPlain("PINGRESP")) ELSE s

-----------------------------------------------------------------------------
(* Dispatch of one client packet (handleMqttSn incl. checkPacketLegal).     *)

ConnectTypes == {"CONNECT", "AUTH", "WILLTOPIC", "WILLMSG"}
Handled == ConnectTypes \cup {"REGISTER", "PUBLISH", "PUBREL", "SUBSCRIBE", "UNSUBSCRIBE", "PINGREQ",
            "DISCONNECT", "REGACK", "PUBACK", "PUBREC", "PUBCOMP"}

LegalWhenDisconnected(s, p) ==
    \/ p.t \in ConnectTypes
    \/ p.t = "DISCONNECT" /\ p.dur = 0
    \/ p.t = "PUBLISH" /\ PublishLegalWhenDisconnected(s, p)

DoClient(s, p, h) ==
    IF s.st = "disconnected" /\ ~LegalWhenDisconnected(s, p) THEN Die(s, "illegal-when-disconnected")
    ELSE CASE p.t = "CONNECT"     -> DoConnect(s, p)
           [] p.t = "AUTH"        -> DoAuth(s, p)
           [] p.t = "WILLTOPIC"   -> DoWillTopic(s, p)
           [] p.t = "WILLMSG"     -> DoWillMsg(s, p)
           [] p.t = "REGISTER"    -> DoRegister(s, p, h)
           [] p.t = "PUBLISH"     -> DoPublish(s, p)
           [] p.t = "PUBREL"      -> SendB(s, MqMid("PUBREL", p.mid))
           [] p.t = "SUBSCRIBE"   -> DoSubscribe(s, p, h)
           [] p.t = "UNSUBSCRIBE" -> DoUnsubscribe(s, p)
           [] p.t = "PINGREQ"     -> DoPingreq(s)
           [] p.t = "DISCONNECT"  -> DoDisconnect(s, p)
           [] p.t = "REGACK"      -> DoCRegack(s, p)
           [] p.t = "PUBACK"      -> DoCPuback(s, p)
           [] p.t = "PUBREC"      -> DoCPubrec(s, p)
           [] p.t = "PUBCOMP"     -> DoCPubcomp(s, p)
           [] OTHER               -> Die(s, "unsupported-sn-packet")

DoBroker(s, m, h) ==
    CASE m.t = "CONNACK"  -> DoBConnack(s, m)
      [] m.t = "PUBACK"   -> DoBPuback(s, m)
      [] m.t = "PUBREC"   -> Send(s, SnMid("PUBREC", m.mid))
      [] m.t = "PUBCOMP"  -> Send(s, SnMid("PUBCOMP", m.mid))
      [] m.t = "SUBACK"   -> DoBSuback(s, m)
      [] m.t = "UNSUBACK" -> Send(s, SnMid("UNSUBACK", m.mid))
      [] m.t = "PINGRESP" -> DoBPingresp(s)
      [] m.t = "PUBLISH"  -> DoBPublish(s, m, h)
      [] m.t = "PUBREL"   -> DoBPubrel(s, m)
      [] OTHER            -> Die(s, "unsupported-mqtt-packet")

-----------------------------------------------------------------------------
(* Timers.                                                                  *)

DueTimes(s) ==
    (IF s.dying /\ s.alive THEN {s.dieAt + Poll} ELSE {})
    \cup (IF s.dying THEN {} ELSE
            (IF s.cx.on THEN {s.cx.deadline} ELSE {})
            \cup {x.due : x \in s.ctx} \cup {x.due : x \in s.btx}
            \cup (IF s.pinger.on THEN {s.pinger.next} ELSE {}))

(* resend (brokerPublishTransactionBase.resend): DUP set where the packet has one; *)
(* nothing is (re)queued for a sleeping client                                     *)
Resend(s, x) ==
    IF x.last.side = "mq" THEN SendB(s, x.last.m)
    ELSE IF s.st = "asleep" THEN s
    ELSE SendNow(s, IF x.last.p.t = "PUBLISH" THEN [x.last.p EXCEPT !.dup = TRUE] ELSE x.last.p)

FireOne(s, t) ==
    IF s.dying THEN [s EXCEPT !.alive = FALSE, !.bopen = FALSE]
    ELSE IF s.cx.on /\ s.cx.deadline = t THEN Die(s, "connect-timeout")
    ELSE IF \E x \in s.ctx : x.due = t THEN
        \* the broker did not answer in time (not a conforming broker): the IDs of these
        \* subscriptions count as known to the client from here on (ghost, for C02 only)
        [s EXCEPT !.ctx = {x \in @ : x.due # t},
                  !.cknow = @ \cup {[tit |-> 0, id |-> x.tid, n |-> x.name] :
                                     x \in {y \in s.ctx : y.due = t /\ y.kind = "sub" /\ y.tit = 0 /\ y.tid # 0}}]
    ELSE IF \E x \in s.btx : x.due = t THEN
        LET x == CHOOSE x \in s.btx : x.due = t /\ \A y \in s.btx : y.due = t => x.mid <= y.mid
        IN IF x.retries >= s.cfg.retrycount THEN Finish(s, x)
           ELSE Resend([s EXCEPT !.btx = (@ \ {x}) \cup
                             {[x EXCEPT !.retries = @ + 1, !.due = t + s.cfg.retrydelay]}], x)
    ELSE IF s.pinger.on /\ s.pinger.next = t THEN
        IF t > s.pinger.until THEN [s EXCEPT !.pinger.on = FALSE]
        ELSE SendB([s EXCEPT !.pinger.next = t + TicksPerSec * s.ka], MqPlain("PINGREQ"))
    ELSE s

RECURSIVE FireUntil(_, _)
FireUntil(s, T) ==
    LET due == {t \in DueTimes(s) : t <= T}
    IN IF due = {} THEN s
       ELSE LET t == SetMin(due)
                s1 == FireOne([s EXCEPT !.now = t, !.early = (@ \/ t < T)], t)
            IN FireUntil(s1, T)

DoAdv(s, n) == [FireUntil(s, s.now + n) EXCEPT !.now = s.now + n]

DoShutdown(s) == Die(s, "shutdown")
DoBEof(s) == Die(s, "broker-eof")
DoBRaw(s) == Die(s, "broker-garbage")
DoCRaw(s) == Die(s, "undecodable")

(* One step.  e = [t, p, m, n]; events after the cause of death are not modelled. *)
Step0(s, e, h) ==
    CASE e.t = "C"        -> DoClient([s EXCEPT !.lastC = s.now], e.p, h)
      [] e.t = "CRaw"     -> DoCRaw(s)
      [] e.t = "B"        -> DoBroker(s, e.m, h)
      [] e.t = "BRaw"     -> DoBRaw(s)
      [] e.t = "BEof"     -> DoBEof(s)
      [] e.t = "Adv"      -> DoAdv(s, e.n)
      [] e.t = "Shutdown" -> DoShutdown(s)
      [] OTHER            -> s

Mids(S) == {x.mid : x \in S}

(* TLC re-evaluates a LET definition at every reference; Bind evaluates v once *)
Bind(v, F(_)) == CHOOSE r \in {F(x) : x \in {v}} : TRUE

Ghosts(s, e, s1) ==
    LET sup == IF e.t = "C" /\ e.p.t \in {"PUBLISH", "SUBSCRIBE"} /\ e.p.mid \in Mids(s.ctx)
                  /\ e.p.mid \in Mids(s1.ctx)
               THEN {e.p.mid} ELSE {}
        ok == /\ s.clientOK
              /\ (s.st = "active" /\ s.acc /\ ~s.dying) => (s1.now - s.lastC <= TicksPerSec * s.ka)
              /\ (s.st = "asleep" /\ ~s.dying) => (s1.now <= s.sleepUntil)
    IN [s1 EXCEPT !.coin = (@ \cap (Mids(s1.ctx) \cup Mids(s1.btx))) \cup (Mids(s1.ctx) \cap Mids(s1.btx)),
                  !.super = (@ \cap Mids(s1.ctx)) \cup sup,
                  !.clientOK = ok]

Step(s0, e, h) ==
    Bind(ClearOut(s0), LAMBDA s : Bind(Step0(s, e, h), LAMBDA s1 : Ghosts(s, e, s1)))

NoHint == [tid |-> 0, mid |-> 0]

=============================================================================
