----------------------------- MODULE AtomProgs ------------------------------
(***************************************************************************)
(* Enumerates the concurrent test programs for C29 (one initial state and  *)
(* one "PROG:" line per program).  A program is                            *)
(*    [fam, obj, g, l, min, max, procs]                                    *)
(* procs: one operation sequence per goroutine, operations [op, k].        *)
(* Goroutines are interchangeable, so programs are enumerated as           *)
(* multisets of per-goroutine sequences (non-decreasing tuples of sequence *)
(* codes).  The driver (harness/atomdrv) gives every Store*/Set operation  *)
(* a value that is unique within the program.                              *)
(*                                                                         *)
(*  idseq      Next only; ranges (0,0) (0,1) (1,2) (0,2) (65534,65535);    *)
(*             2..3 goroutines x 1..3 calls each                           *)
(*  txfull     6 store operations x keys {1,2}; 2 goroutines x 2 ops       *)
(*  txhot-id   Store/Get/Delete on key 1; 3x2, 2x3, 3x3                    *)
(*  txhot-type StoreByType/GetByType/DeleteByType on key 1; 3x2, 2x3, 3x3  *)
(*  cstate     Set/Get; 2x2, 3x2, 2x3, 3x3                                 *)
(***************************************************************************)
EXTENDS Integers, Sequences, FiniteSets, TLC, Json

VARIABLE prog

O(name, key) == [op |-> name, k |-> key]

AlphaTxFull == <<O("Store", 1), O("Get", 1), O("Delete", 1), O("Store", 2), O("Get", 2), O("Delete", 2),
                 O("StoreByType", 1), O("GetByType", 1), O("DeleteByType", 1),
                 O("StoreByType", 2), O("GetByType", 2), O("DeleteByType", 2)>>
AlphaHotId   == <<O("Store", 1), O("Get", 1), O("Delete", 1)>>
AlphaHotType == <<O("StoreByType", 1), O("GetByType", 1), O("DeleteByType", 1)>>
AlphaCState  == <<O("Set", 0), O("Get", 0)>>

RECURSIVE Pow(_, _)
Pow(b, e) == IF e = 0 THEN 1 ELSE b * Pow(b, e - 1)

Decode(A, code, len) == [j \in 1..len |-> A[((code \div Pow(Len(A), j - 1)) % Len(A)) + 1]]

NonDec(S, g) == {t \in [1..g -> S] : \A j \in 1..(g - 1) : t[j] <= t[j + 1]}

HotShapes == {<<3, 2>>, <<2, 3>>, <<3, 3>>}
IdRanges  == {<<0, 0>>, <<0, 1>>, <<1, 2>>, <<0, 2>>, <<65534, 65535>>}

Alpha(fam) == CASE fam = "txfull"     -> AlphaTxFull
                [] fam = "txhot-id"   -> AlphaHotId
                [] fam = "txhot-type" -> AlphaHotType
                [] fam = "cstate"     -> AlphaCState

Shapes(fam) == CASE fam = "txfull" -> {<<2, 2>>}
                 [] fam = "cstate" -> HotShapes \cup {<<2, 2>>}
                 [] OTHER          -> HotShapes

Obj(fam) == IF fam = "cstate" THEN "cstate" ELSE "txstore"

(* the state is the compact code of the program; the program itself is printed *)
Render(fam, s, t) ==
    [fam |-> fam, obj |-> Obj(fam), g |-> s[1], l |-> s[2], min |-> 0, max |-> 0,
     procs |-> [p \in 1..s[1] |-> Decode(Alpha(fam), t[p], s[2])]]

RenderIdSeq(g, t, r) ==
    [fam |-> "idseq", obj |-> "idseq", g |-> g, l |-> 3, min |-> r[1], max |-> r[2],
     procs |-> [p \in 1..g |-> [j \in 1..t[p] |-> O("Next", 0)]]]

Init ==
    \/ \E fam \in {"txfull", "txhot-id", "txhot-type", "cstate"} : \E s \in Shapes(fam) :
          \E t \in NonDec(0..(Pow(Len(Alpha(fam)), s[2]) - 1), s[1]) :
             /\ prog = <<fam, s, t, <<0, 0>> >>
             /\ PrintT("PROG:" \o ToJson(Render(fam, s, t)))
    \/ \E g \in 2..3 : \E t \in NonDec(1..3, g) : \E r \in IdRanges :
             /\ prog = <<"idseq", <<g, 3>>, t, r>>
             /\ PrintT("PROG:" \o ToJson(RenderIdSeq(g, t, r)))

Next == FALSE /\ UNCHANGED prog
=============================================================================
