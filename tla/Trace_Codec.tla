---------------------------- MODULE Trace_Codec ----------------------------
(***************************************************************************)
(* TLC as the judge of what the real bisquitt codec did (direction code ->  *)
(* spec).  The Go driver harness/codecdrv executes real packets1.ReadPacket *)
(* / Pack / EncodeShortTopic ... and writes one NDJSON record per case (or  *)
(* per class of 256 datagrams) into codec_trace.ndjson.  This spec consumes *)
(* the records one per step and compares each real outcome with Codec!Parse *)
(* / Codec!Encode.  Disagreements are accumulated in the ghost variable bad *)
(* (keyed by mechanism: kind, structural class, type, field; with a count   *)
(* and one example each) and printed as JSON when the last record has been  *)
(* judged, so one TLC run judges a whole batch.  The POSTCONDITION checks   *)
(* that every record has been consumed.                                     *)
(*                                                                          *)
(* Record kinds (field k):                                                  *)
(*  "dg" : d, o, pkt, rp       one datagram: o = 0 error | 1 panic | 2 ok;  *)
(*                             pkt = decoded fields (uniform record),       *)
(*                             rp  = real Pack() of the decoded packet      *)
(*  "cl" : pre, o, acc         256 datagrams pre \o <<c>>, c = 0..255;      *)
(*                             o[c+1] = 0 | 1 | 1+j (accepted, acc[j])      *)
(*  "pk" : p, bytes, o, pkt    packet p built by the real constructors,     *)
(*                             bytes = real Pack(), o/pkt = real decode     *)
(*  "st" : hi, dec, enc        short topics hi*256+lo: dec[lo+1] = octets   *)
(*                             of DecodeShortTopic(id), enc[lo+1] =         *)
(*                             EncodeShortTopic of that name                *)
(*                                                                          *)
(* Disagreement kinds:                                                      *)
(*  panic            (C20) the real decoder panicked                        *)
(*  fields           (C22) accepted by both, a field differs from the value *)
(*                         at its layout position after the actual header   *)
(*  body-offset      (C22) the decoded packet is exactly what the layout    *)
(*                         yields two octets early (header length derived   *)
(*                         from the announced length, not the form present) *)
(*  repack           (C22) fields agree but re-encoding does not reproduce  *)
(*                         type + body (modulo the allowed differences)     *)
(*  accept-nonlayout (C22) the real decoder accepted a datagram that has no *)
(*                         layout, and re-encoding does not reproduce its   *)
(*                         type + body (information invented or dropped)    *)
(*  accept-extra, reject-extra   acceptance differences no property speaks  *)
(*                         about: informational, never a violation          *)
(*  bytes-header, bytes-body, rt-panic, rt-reject, rt-fields   (C21)        *)
(*  short-dec, short-enc   (C21) short-topic coding differs from the spec   *)
(*  illegal-input    harness problem (packet outside LegalPkt): exit 2      *)
(***************************************************************************)
EXTENDS Codec, Json, TLC

Log == ndJsonDeserialize("codec_trace.ndjson")
N   == Len(Log)

VARIABLES i, bad, seen, cnt
vars == <<i, bad, seen, cnt>>

Mismatch(a, b) == {f \in FieldNames : a[f] # b[f]}

\* The re-encoding reproduces type t and body.  The length field itself is an allowed difference,
\* but a re-encoding whose first octet is 1 is a 3-octet-length datagram for every receiver: it is
\* read as a 2-octet header only when that 1 is the length value the datagram itself announced
\* (lf; Pack() of the fixed-size packets keeps a received 3-octet length announcing 1).
LenField(d) == IF Len(d) >= 1 /\ d[1] # 1 THEN d[1]
               ELSE IF Len(d) >= 3 THEN d[2] * 256 + d[3] ELSE 0 - 1
RepackOK(rp, t, body, lf) ==
  \E h \in {2, 4} : /\ Len(rp) >= h /\ (h = 4 => rp[1] = 1) /\ (h = 2 => (rp[1] # 1 \/ lf = 1))
                    /\ rp[h] = t /\ SubSeq(rp, h + 1, Len(rp)) = body

E(k, cls, t, f, d, p) == [k |-> k, cls |-> cls, t |-> t, f |-> f, d |-> d, p |-> p]

JudgeDg(d, o, pkt, rp) ==
  LET r == Parse(d) cls == Class(d) t == TypeAt(d) IN
  CASE o = 1 -> {E("panic", PanicClass(d), t, "", d, Blank)}
    [] o = 2 /\ r.ok ->
         LET mm == Mismatch(r.pkt, pkt) IN
         IF mm # {} THEN (IF IsWrongOffsetDecode(d, pkt) THEN {E("body-offset", cls, t, "", d, Blank)}
                          ELSE {E("fields", cls, t, CHOOSE f \in mm : TRUE, d, Blank)})
         ELSE IF ~RepackOK(rp, TypeOf(d), BodyOf(Encode(r.pkt)), LenField(d)) THEN {E("repack", cls, t, "", d, Blank)}
         ELSE {}
    [] o = 2 /\ ~r.ok ->
         IF HdrOk(d) /\ RepackOK(rp, TypeOf(d), BodyOf(d), LenField(d))
         THEN {E("accept-extra", cls, t, r.why, d, Blank)}
         ELSE IF IsWrongOffsetDecode(d, pkt) THEN {E("body-offset", cls, t, "", d, Blank)}
         ELSE {E("accept-nonlayout", cls, t, r.why, d, Blank)}
    [] o = 0 /\ r.ok -> {E("reject-extra", cls, t, "", d, Blank)}
    [] OTHER -> {}

SeenDg(d, o) == <<TypeAt(d), Class(d), IF o >= 2 THEN 2 ELSE o>>

JudgeCl(l) ==
  UNION { LET o == l.o[c + 1] IN
          IF o >= 2 THEN JudgeDg(l.pre \o <<c>>, 2, l.acc[o - 1].pkt, l.acc[o - 1].rp)
          ELSE JudgeDg(l.pre \o <<c>>, o, Blank, <<>>) : c \in 0..255 }

JudgePk(l) ==
  LET p == l.p e == Encode(p) cls == Class(l.bytes) IN
  IF ~LegalPkt(p) \/ ~Prop_C21(p) THEN {E("illegal-input", cls, p.type, "", l.bytes, p)}
  ELSE (IF e = l.bytes THEN {}
        ELSE IF HdrOk(l.bytes) /\ BodyOf(l.bytes) = BodyOf(e)
             THEN {E("bytes-header", cls, p.type, "", l.bytes, p)}
             ELSE {E("bytes-body", cls, p.type, "", l.bytes, p)})
       \cup (CASE l.o = 1 -> {E("rt-panic", cls, p.type, "", l.bytes, p)}
               [] l.o = 0 -> {E("rt-reject", cls, p.type, "", l.bytes, p)}
               [] OTHER -> LET mm == Mismatch(p, l.pkt) IN
                           IF mm # {} THEN {E("rt-fields", cls, p.type, CHOOSE f \in mm : TRUE, l.bytes, p)}
                           ELSE {})

JudgeSt(l) ==
  UNION { LET id == l.hi * 256 + lo IN
          (IF l.dec[lo + 1] # DecShort(id) THEN {E("short-dec", "", id, "", l.dec[lo + 1], Blank)} ELSE {})
          \cup (IF l.enc[lo + 1] # id THEN {E("short-enc", "", id, "", l.dec[lo + 1], Blank)} ELSE {})
        : lo \in 0..255 }

JudgeLine(l) ==
  CASE l.k = "dg" -> JudgeDg(l.d, l.o, l.pkt, l.rp)
    [] l.k = "cl" -> JudgeCl(l)
    [] l.k = "pk" -> JudgePk(l)
    [] l.k = "st" -> JudgeSt(l)

SeenLine(l) ==
  CASE l.k = "dg" -> {SeenDg(l.d, l.o)}
    [] l.k = "cl" -> {SeenDg(l.pre \o <<c>>, l.o[c + 1]) : c \in 0..255}
    [] l.k = "pk" -> {<<l.p.type, Class(l.bytes), l.o>>}
    [] l.k = "st" -> {<<l.hi, "short-topic", 2>>}

Cases(l)    == IF l.k \in {"cl", "st"} THEN 256 ELSE 1
Accepted(l) == CASE l.k = "cl" -> Cardinality({c \in 1..256 : l.o[c] >= 2})
                 [] l.k = "st" -> 256
                 [] OTHER -> IF l.o = 2 THEN 1 ELSE 0
Panics(l)   == CASE l.k = "cl" -> Cardinality({c \in 1..256 : l.o[c] = 1})
                 [] l.k = "st" -> 0
                 [] OTHER -> IF l.o = 1 THEN 1 ELSE 0

Key(e) == <<e.k, e.cls, e.t, e.f>>

Merge(b, es) ==
  LET nk == {Key(e) : e \in es} IN
  [k \in DOMAIN b \cup nk |->
     LET mine == {e \in es : Key(e) = k}
         lens == {Len(e.d) : e \in mine}
         best == CHOOSE e \in mine : \A n \in lens : Len(e.d) <= n          \* a shortest example
     IN
     IF k \in DOMAIN b
     THEN IF mine = {} THEN b[k]
          ELSE [n |-> b[k].n + Cardinality(mine),
                ex |-> IF Len(best.d) < Len(b[k].ex.d) THEN best ELSE b[k].ex]
     ELSE [n |-> Cardinality(mine), ex |-> best]]

Report(b, s, c) ==
  [judged |-> c.judged, accepted |-> c.accepted, panics |-> c.panics, lines |-> N,
   distinct |-> Cardinality(s), seen |-> s,
   distinct_accepted |-> Cardinality({z \in s : z[3] = 2}),
   bad |-> {[k |-> key[1], cls |-> key[2], t |-> key[3], tn |-> TypeName(key[3]), f |-> key[4],
             n |-> b[key].n, d |-> b[key].ex.d, p |-> b[key].ex.p] : key \in DOMAIN b}]

Init == /\ i = 1 /\ bad = <<>> /\ seen = {}
        /\ cnt = [judged |-> 0, accepted |-> 0, panics |-> 0]
        /\ TLCSet(1, 0)
        /\ (N = 0 => PrintT("JUDGE:" \o ToJson(Report(<<>>, {}, cnt))))

Next == /\ i <= N
        /\ LET l == Log[i] IN
             /\ bad' = Merge(bad, JudgeLine(l))
             /\ seen' = seen \cup SeenLine(l)
             /\ cnt' = [judged |-> cnt.judged + Cases(l), accepted |-> cnt.accepted + Accepted(l),
                        panics |-> cnt.panics + Panics(l)]
        /\ i' = i + 1
        /\ TLCSet(1, i)
        /\ (i = N => PrintT("JUDGE:" \o ToJson(Report(bad', seen', cnt'))))

(* every record consumed (run with -workers 1) *)
Post == TLCGet(1) = N
=============================================================================
