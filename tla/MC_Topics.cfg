\* C05 on the spec: every configuration over 3 clients x 2 ids x 3 names (4096) x every query
CONSTANTS
  Clients = {"c1", "c2", "*"}
  Ids = {1, 2}
  Names = {"t", "t/a", "u"}
  QClients = {"c9"}
  QIds = {3}
  QNames = {"t/"}
  Deviations = {}
  OptMax = 0
INIT Init
NEXT Next
INVARIANTS Prop_C05 Prop_GetIdComplete
