------------------------- MODULE Trace_Transactions --------------------------
(***************************************************************************)
(* Judges the NDJSON traces recorded by harness/txdrv from the real        *)
(* transactions.{TransactionBase,RetryTransaction,TimedTransaction}        *)
(* ("tx_trace.ndjson": one observation per line, traces concatenated, each *)
(* starting with ev = "new" and ending with ev = "end") with the very      *)
(* operators TxMonitor!MonStep that Transactions.tla proves never to trip  *)
(* on the intended design (Prop_C18 / Prop_C19).                           *)
(* One TLC run per batch: the first violation of each property in each     *)
(* trace is appended to TLCGet(2) / TLCGet(4) (at most MaxBad per property) *)
(* and printed as JSON by the                                              *)
(* postcondition.  -workers 1.                                             *)
(***************************************************************************)
EXTENDS TxMonitor, TLC, Json

VARIABLES i, mon, cnt

Lines == ndJsonDeserialize("tx_trace.ndjson")
MaxBad == 400

ParamsOf(l) == [kind |-> l.kind, rc |-> l.rc, rd |-> l.rd, to |-> l.to]
Cnt0 == [traces |-> 0, t18 |-> 0, t19 |-> 0, chk18 |-> 0, chk19 |-> 0, bad18 |-> 0, bad19 |-> 0]

TInit == /\ i = 0 /\ mon = Mon0([kind |-> "base", rc |-> 0, rd |-> 1, to |-> 0]) /\ cnt = Cnt0
         /\ TLCSet(1, 0) /\ TLCSet(2, <<>>) /\ TLCSet(3, Cnt0) /\ TLCSet(4, <<>>)

Bad(l, prop, sig) == [tr |-> l.tr, line |-> l.i, prop |-> prop, sig |-> sig, ev |-> l.ev, now |-> l.now]

TNext ==
    /\ i < Len(Lines)
    /\ i' = i + 1
    /\ LET l   == Lines[i + 1]
           m0  == IF l.ev = "new" THEN Mon0(ParamsOf(l)) ELSE mon
           m1  == mon'      \* (bound first: TLC would re-evaluate a LET definition at every use)
           b18 == IF m1.v18 # m0.v18 THEN <<Bad(l, "C18", m1.v18)>> ELSE <<>>
           b19 == IF m1.v19 # m0.v19 THEN <<Bad(l, "C19", m1.v19)>> ELSE <<>>
       IN /\ mon' = MonStep(m0, l)
          /\ cnt' = IF l.ev = "end"
                    THEN [cnt EXCEPT !.traces = @ + 1,
                                     !.t18 = @ + (IF m1.n18 > 0 THEN 1 ELSE 0),
                                     !.t19 = @ + (IF m1.n19 > 0 THEN 1 ELSE 0),
                                     !.chk18 = @ + m1.n18, !.chk19 = @ + m1.n19,
                                     !.bad18 = @ + Len(b18), !.bad19 = @ + Len(b19)]
                    ELSE [cnt EXCEPT !.bad18 = @ + Len(b18), !.bad19 = @ + Len(b19)]
          /\ (b18 # <<>> /\ cnt.bad18 < MaxBad) => TLCSet(2, TLCGet(2) \o b18)
          /\ (b19 # <<>> /\ cnt.bad19 < MaxBad) => TLCSet(4, TLCGet(4) \o b19)
          /\ TLCSet(1, i + 1)
          /\ (l.ev = "end") => TLCSet(3, cnt')

Post == /\ PrintT("CONSUMED:" \o ToString(TLCGet(1)))
        /\ PrintT("BAD:" \o ToJson(TLCGet(2) \o TLCGet(4)))
        /\ PrintT("STATS:" \o ToJson(TLCGet(3)))
=============================================================================
