INIT InitActive
NEXT Next
VIEW View
CONSTANTS
  Dev = {}
  CfgRD = 2
  CfgRC = 1
  CfgCT = 3
  CfgKA = 0
  GenApis <- Apis_C06x
  GenGw <- Gw_C06x
  GenMids = {}
  MaxEv = 8
  MaxCalls = 3
INVARIANTS Prop_All TypeOK
