\* C20/C22 thorough: every type, well framed, every body of length 0..min(fixed+3, 7) over
\* {00,01,61,FF}; vectors printed.
CONSTANTS
  Alphabet = {}
  MaxLen = 0
  Emit = TRUE
  EmitDepth = 0
  MutDepth = 0
  VarLens = {0}
  BigLens = {}
  BodyAlphabet = {0, 1, 97, 255}
  BodyExtra = 3
  BodyCap = 7
  RepCap = 7
  ShortIds = {0}
  ShortPairIds = {0}
INIT InitBody
NEXT NextBody
VIEW View
INVARIANTS Inv_C20 Inv_C22 Inv_BodyFramed
