\* sequential contract of the store: all operation sequences of length 3 over 2 keys x 2 values x 6 operations
CONSTANTS
  K = {1, 2}
  V = {1, 2}
  MaxOps = 3
INIT Init
NEXT Next
INVARIANT Prop_C29_Store
