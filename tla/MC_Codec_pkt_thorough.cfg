\* C21: boundary packets incl. MaxPayloadLength; short-topic inverse laws over all 65536 ids.
CONSTANTS
  Alphabet = {}
  MaxLen = 0
  Emit = TRUE
  EmitDepth = 0
  MutDepth = 0
  VarLens = {0,1,2,3,127,128,245,246,247,248,249,250,251,252,253,254,255,256,257,258,259,260,511,512,1024}
  BigLens = {7167,7168}
  BodyAlphabet = {}
  BodyExtra = 0
  BodyCap = 0
  RepCap = 0
  ShortIds <- ShortAll
  ShortPairIds <- ShortPairs
INIT InitPkt
NEXT NextPkt
INVARIANTS Inv_C21
