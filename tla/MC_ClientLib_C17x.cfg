INIT InitActive
NEXT Next
VIEW ViewPaths
CONSTANTS
  Dev = {}
  CfgRD = 2
  CfgRC = 1
  CfgCT = 3
  CfgKA = 0
  GenApis <- Apis_C17x
  GenGw <- Gw_C17x
  GenMids = {}
  MaxEv = 8
  MaxCalls = 4
INVARIANTS Prop_All TypeOK
