INIT TInit
NEXT TNext
POSTCONDITION Post
