\* the explicit quiescence predicate agrees with ~ENABLED Internal
\* (the check generates its cfgs from families/transactions.py:TIERS; this file mirrors one of them for manual runs:
\*  tlc -deadlock -config MC_Transactions_qdef.cfg Transactions)
CONSTANTS
  Kinds = {"base", "retry", "timed"}
  RCs = {0, 1}
  RDs = {1}
  TOs = {0, 1}
  MaxOps = 2
  CbMayFail = TRUE
  Devs = {}
  Forced = TRUE
  Emit = "none"
INIT Init
NEXT Next
INVARIANT QuiescentDef
