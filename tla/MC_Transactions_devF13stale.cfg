\* non-vacuity: with deviation F13stale (the shipped code) TLC must report Prop_C19 violated
\* (the check generates its cfgs from families/transactions.py:TIERS; this file mirrors one of them for manual runs:
\*  tlc -deadlock -config MC_Transactions_devF13stale.cfg Transactions)
CONSTANTS
  Kinds = {"retry"}
  RCs = {0, 1}
  RDs = {1}
  TOs = {0}
  MaxOps = 2
  CbMayFail = TRUE
  Devs = {"F13stale"}
  Forced = TRUE
  Emit = "none"
INIT Init
NEXT Next
INVARIANT Prop_C19
