INIT InitActive
NEXT Next
VIEW View
CONSTANTS
  Dev = {}
  CfgRD = 2
  CfgRC = 1
  CfgCT = 3
  CfgKA = 0
  GenApis <- Apis_C16
  GenGw <- Gw_C16
  GenMids = {9}
  MaxEv = 8
  MaxCalls = 4
INVARIANTS Prop_All TypeOK
