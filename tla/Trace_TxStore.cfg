CONSTANTS
  K = {}
  V = {}
  MaxOps = 0
INIT TInit
NEXT TNext
INVARIANT Conf_Spec
POSTCONDITION Post
