\* non-vacuity: with deviation F13nil (the shipped code) TLC must report Prop_C18 violated
\* (the check generates its cfgs from families/transactions.py:TIERS; this file mirrors one of them for manual runs:
\*  tlc -deadlock -config MC_Transactions_devF13nil.cfg Transactions)
CONSTANTS
  Kinds = {"base", "retry", "timed"}
  RCs = {0}
  RDs = {1}
  TOs = {0, 1}
  MaxOps = 1
  CbMayFail = TRUE
  Devs = {"F13nil"}
  Forced = TRUE
  Emit = "none"
INIT Init
NEXT Next
INVARIANT Prop_C18
