\* non-vacuity: shipped NewTimedTransaction must violate Prop_C18 (nil timer)
CONSTANTS
  Kinds = {"base", "retry", "timed"}
  RCs = {0}
  RDs = {1}
  TOs = {0,1}
  MaxOps = 1
  CbMayFail = TRUE
  Devs = {"F13nil"}
  Forced = TRUE
  Emit = "none"
INIT Init
NEXT Next
INVARIANT TypeOK
INVARIANT Prop_C18
INVARIANT Prop_C19
