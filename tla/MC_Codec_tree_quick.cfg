\* C20/C22 quick: every datagram of length <= 3 over a 22-octet alphabet (0x01 long marker, one type
\* code per layout kind, reserved codes, boundary values), one state each; vectors printed.
CONSTANTS
  Alphabet = {0,1,2,3,4,5,7,9,10,12,14,17,18,22,23,24,26,30,128,253,254,255}
  MaxLen = 3
  Emit = TRUE
  EmitDepth = 0
  MutDepth = 0
  VarLens = {0}
  BigLens = {}
  BodyAlphabet = {}
  BodyExtra = 0
  BodyCap = 0
  RepCap = 0
  ShortIds = {0}
  ShortPairIds = {0}
INIT InitTree
NEXT NextTree
VIEW View
INVARIANTS Inv_C20 Inv_C22
