"""Shared machinery for /verif checks (bin/vcheck and the family modules).

Conventions
 * every check is `bin/vcheck <Cnn> <quick|thorough>`; it dispatches to
   families/<family>.py:run(prop, tier, ctx)
 * exit 0: property held on everything explored (KNOWN-FINDING lines allowed)
   exit 1: `VIOLATION property=<id> replay=<path>` printed
   exit 2: inconclusive (harness/model gap/timeouts) - never a violation
 * VERIF_REPO (default /repo) is the tree under test; everything is rebuilt
   from its working tree on every run (Go build cache makes that cheap).
 * scratch space: a fresh mkdtemp per run, removed at exit.
"""
import atexit, hashlib, json, os, random, re, shutil, subprocess, sys, tempfile, time

VERIF = os.path.dirname(os.path.dirname(os.path.abspath(__file__)))
REPO = os.environ.get("VERIF_REPO", "/repo")
GO = "go1.26.8"
TLA_DIR = os.path.join(VERIF, "tla")
NCPU = int(os.environ.get("VERIF_JOBS") or os.cpu_count() or 4)

_scratch = None


def scratch():
    global _scratch
    if _scratch is None:
        base = os.environ.get("VERIF_SCRATCH_BASE") or tempfile.gettempdir()
        _scratch = tempfile.mkdtemp(prefix="vcheck-", dir=base)
        if not os.environ.get("VERIF_KEEP"):
            atexit.register(lambda: shutil.rmtree(_scratch, ignore_errors=True))
    return _scratch


def seed():
    try:
        return int(os.environ.get("VERIF_SEED", "1"))
    except ValueError:
        return 1


def go_env():
    e = dict(os.environ)
    e.update(GOFLAGS="-mod=mod", GOPROXY="off", GOSUMDB="off", GOTOOLCHAIN="local")
    return e


class Inconclusive(Exception):
    pass


def sh(cmd, timeout=None, cwd=None, env=None, check=False, input=None):
    """Run a command, return (rc, stdout+stderr)."""
    try:
        p = subprocess.run(cmd, cwd=cwd, env=env, timeout=timeout, input=input,
                           stdout=subprocess.PIPE, stderr=subprocess.STDOUT, text=True)
    except subprocess.TimeoutExpired as ex:
        out = ex.stdout or ""
        if isinstance(out, bytes):
            out = out.decode("utf-8", "replace")
        return 124, out + "\n[timeout]"
    if check and p.returncode != 0:
        raise Inconclusive("command failed (%d): %s\n%s" % (p.returncode, " ".join(map(str, cmd)), p.stdout[-4000:]))
    return p.returncode, p.stdout


_harness_copy = None


def harness_dir():
    """Scratch copy of /verif/harness whose go.mod points at VERIF_REPO."""
    global _harness_copy
    if _harness_copy:
        return _harness_copy
    dst = os.path.join(scratch(), "harness")
    shutil.copytree(os.path.join(VERIF, "harness"), dst)
    gomod = os.path.join(dst, "go.mod")
    s = open(gomod).read()
    s = re.sub(r"replace github.com/energomonitor/bisquitt => \S+",
               "replace github.com/energomonitor/bisquitt => " + REPO, s)
    open(gomod, "w").write(s)
    # go.sum: the repository's plus the harness' own extras
    sums = set(open(os.path.join(REPO, "go.sum")).read().splitlines())
    extra = os.path.join(VERIF, "harness", "go.sum")
    if os.path.exists(extra):
        sums |= set(open(extra).read().splitlines())
    open(os.path.join(dst, "go.sum"), "w").write("\n".join(sorted(x for x in sums if x)) + "\n")
    _harness_copy = dst
    return dst


def build_driver(pkg, race=False, tags="verif"):
    """Build the test binary of harness package `pkg` against VERIF_REPO. Returns path."""
    hd = harness_dir()
    out = os.path.join(scratch(), "bin-" + pkg.replace("/", "_") + ("-race" if race else ""))
    cmd = [GO, "test", "-c", "-tags", tags, "-o", out]
    if race:
        cmd.append("-race")
    cmd.append("./" + pkg)
    rc, o = sh(cmd, cwd=hd, env=go_env(), timeout=900)
    if rc != 0:
        # a tree that does not compile with hooks on is not a property verdict
        raise Inconclusive("harness build failed for %s:\n%s" % (pkg, o[-6000:]))
    return out


def build_cmd(relpkg, name, tags="verif"):
    """Build a repository command (e.g. ./cmd/bisquitt) from VERIF_REPO. Returns path."""
    out = os.path.join(scratch(), "cmd-" + name)
    rc, o = sh([GO, "build", "-tags", tags, "-o", out, relpkg], cwd=REPO, env=go_env(), timeout=900)
    if rc != 0:
        raise Inconclusive("build of %s failed:\n%s" % (relpkg, o[-4000:]))
    return out


def run_driver(binary, env_extra, run="TestDrive", timeout=600, args=()):
    e = dict(os.environ)
    e.update(env_extra)
    cmd = [binary, "-test.run", "^" + run + "$", "-test.count=1", "-test.timeout", "%ds" % (timeout + 30)] + list(args)
    return sh(cmd, env=e, timeout=timeout, cwd=scratch())


# ---------------------------------------------------------------- TLC

def tlc(module, cfg, workers="auto", files=None, timeout=900, extra=(), deadlock=False, simulate=None,
        depth=None, javaopts=None, tla_dir=None):
    """Run TLC on tla/<module>.tla with tla/<cfg> in a scratch copy of tla/.
    files: {name: text} extra files dropped next to the spec (traces etc.).
    Returns dict(rc, out, generated, distinct, depth, workdir)."""
    wd = tempfile.mkdtemp(prefix="tlc-", dir=scratch())
    src = tla_dir or TLA_DIR
    for f in os.listdir(src):
        if f.endswith((".tla", ".cfg", ".json")):
            shutil.copy(os.path.join(src, f), wd)
    for name, text in (files or {}).items():
        with open(os.path.join(wd, name), "w") as fh:
            fh.write(text)
    cmd = ["tlc", "-metadir", os.path.join(wd, "meta"), "-config", cfg, "-workers", str(workers)]
    if not deadlock:
        cmd += ["-deadlock"]
    if simulate:
        cmd += ["-simulate", simulate]
    if depth:
        cmd += ["-depth", str(depth)]
    cmd += list(extra) + [module]
    e = dict(os.environ)
    # TLC creates an empty tlc-<n> directory in java.io.tmpdir per run: keep it inside the scratch dir
    e["JAVA_TOOL_OPTIONS"] = ((javaopts + " ") if javaopts else "") + "-Djava.io.tmpdir=" + wd
    rc, out = sh(cmd, cwd=wd, env=e, timeout=timeout)
    res = dict(rc=rc, out=out, workdir=wd, generated=0, distinct=0, depth=0)
    m = re.findall(r"(\d+) states generated, (\d+) distinct states found", out)
    if m:
        res["generated"], res["distinct"] = int(m[-1][0]), int(m[-1][1])
    m = re.search(r"depth of the complete state graph search is (\d+)", out)
    if m:
        res["depth"] = int(m.group(1))
    return res


def tlc_ok(res):
    return res["rc"] == 0 and "Model checking completed. No error has been found" in res["out"]


def tlc_printed(res, prefix):
    """Lines printed by PrintT/Print that start with the given marker string."""
    got = []
    for line in res["out"].splitlines():
        line = line.strip()
        if line.startswith('"' + prefix):
            # TLC prints strings quoted with TLA+ escapes
            try:
                got.append(json.loads(line)[len(prefix):])
            except Exception:
                got.append(line[1 + len(prefix):-1].replace('\\"', '"').replace("\\\\", "\\"))
        elif line.startswith(prefix):
            got.append(line[len(prefix):])
    return got


# ---------------------------------------------------------------- findings / verdicts

def load_findings():
    p = os.path.join(VERIF, "known_findings.json")
    if not os.path.exists(p):
        return {"known": [], "fixed": []}
    return json.load(open(p))


def replay_path(prop, n, payload):
    d = os.environ.get("VERIF_REPLAY_DIR") or os.path.join(VERIF, "replays")
    os.makedirs(d, exist_ok=True)
    p = os.path.join(d, "%s-%d.json" % (prop, n))
    with open(p, "w") as fh:
        json.dump(payload, fh, indent=1, default=str)
    return p


def verdict(prop, violations):
    """violations: list of dict(sig=..., what=..., replay=<json-able payload>).
    Prints KNOWN-FINDING / VIOLATION lines.  Returns (exit_code, n_new, n_known)."""
    known = [k for k in load_findings().get("known", []) if k.get("property") == prop]
    seen_known, new = {}, []
    for v in violations:
        hit = None
        for k in known:
            if re.fullmatch(k["sig"], v["sig"]):
                hit = k
                break
        if hit is not None:
            seen_known.setdefault(hit["sig"], (hit, v))
        else:
            new.append(v)
    for sig, (k, v) in sorted(seen_known.items()):
        print("KNOWN-FINDING: property=%s %s [sig=%s]" % (prop, k.get("what", ""), v["sig"]))
    # report each distinct new signature once
    done = set()
    n = 0
    for v in new:
        if v["sig"] in done:
            continue
        done.add(v["sig"])
        n += 1
        path = replay_path(prop, n, v.get("replay", v))
        print("VIOLATION property=%s replay=%s" % (prop, path))
        print("  sig=%s %s" % (v["sig"], v.get("what", "")))
        if n >= 20:
            break
    sys.stdout.flush()
    return (1 if new else 0), len(new), len(seen_known)


def write_evidence(prop, tier, level, coverage, wall_s, violations=0, assumptions=()):
    d = os.environ.get("VERIF_EVIDENCE_DIR") or os.path.join(VERIF, "evidence")
    os.makedirs(d, exist_ok=True)
    ev = dict(property_id=prop, tier=tier, seed=seed(), level=level, coverage=coverage,
              assumptions=list(assumptions), wall_s=round(wall_s, 2), violations=violations)
    tmp = os.path.join(d, prop + ".json.tmp")
    with open(tmp, "w") as fh:
        json.dump(ev, fh, indent=1, default=str)
    os.replace(tmp, os.path.join(d, prop + ".json"))


def pmap(fn, items, n=None):
    """Run fn over items in a thread pool (fn spawns subprocesses)."""
    from concurrent.futures import ThreadPoolExecutor
    with ThreadPoolExecutor(max_workers=n or NCPU) as ex:
        return list(ex.map(fn, items))


def chunks(lst, n):
    n = max(1, min(n, len(lst)))
    k = (len(lst) + n - 1) // n
    return [lst[i:i + k] for i in range(0, len(lst), k)]


def sig_hash(obj):
    return hashlib.sha1(json.dumps(obj, sort_keys=True, default=str).encode()).hexdigest()[:10]
